#!/usr/bin/env python3
"""Triage helper (never run by a check): turn `  sig=… :: what` lines (stdin) into known-finding
JSON lines for review. usage: sigs_to_known.py <PROPERTY> [--wild-last] [--note TEXT]"""
import sys, json, re
prop = sys.argv[1]
wild_last = '--wild-last' in sys.argv
note = sys.argv[sys.argv.index('--note')+1] if '--note' in sys.argv else ''
seen = set()
existing = set()
for l in open('/verif/known_findings.jsonl'):
    l = l.strip()
    if l and not l.startswith('#'):
        j = json.loads(l)
        existing.add((j['property'], j['sig']))
for l in sys.stdin:
    m = re.search(r'sig=(.*?) :: (.*)$', l.rstrip())
    if not m:
        continue
    sig, what = m.group(1), m.group(2)
    if wild_last and sig.startswith('panic|') and sig.count('|') >= 3:
        sig = sig.rsplit('|', 1)[0] + '|*'
    if (prop, sig) in seen or (prop, sig) in existing:
        continue
    seen.add((prop, sig))
    what = re.sub(r'\s+', ' ', what)[:300]
    print(json.dumps({"status": "known", "property": prop, "sig": sig, "what": (note + ' ' if note else '') + what}, ensure_ascii=False))
