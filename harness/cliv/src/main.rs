//! cliv — monitors that drive the automerge command line binary.
mod c33;

fn main() {
    amv::cli_main(vec![Box::new(c33::C33)])
}
