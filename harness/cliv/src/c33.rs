//! C33 — CLI JSON import/export round-trips.
//!
//! For any JSON object, `automerge import` followed by `automerge export`
//! gives back the same JSON value: numbers keep their value and kind
//! (integer / float), keys, arrays and strings are preserved.
//!
//! The CLI under test is built from /repo's *current working tree* on first
//! use inside each worker (`cli_path`), serialised over a file lock.
use amv::fw::*;
use serde_json::{json, Value as J};
use std::io::Write;
use std::os::fd::AsRawFd;
use std::path::{Path, PathBuf};
use std::process::{Command, ExitStatus, Stdio};
use std::sync::OnceLock;
use std::time::{Duration, Instant};

pub struct C33;

const REPO_RUST: &str = "/repo/rust";
const CLI_TARGET_DIR: &str = "/verif/out/target-cli";
const BUILD_LOCK: &str = "/verif/out/cli-build.lock";
const BUILD_STAMP: &str = "/verif/out/cli-build.stamp";
const TMP_ROOT: &str = "/verif/out/cliv-tmp";
const SUBPROCESS_TIMEOUT: Duration = Duration::from_secs(30);

// ---------------------------------------------------------------------------
// Building the CLI under test
// ---------------------------------------------------------------------------

fn tail(s: &str, n: usize) -> String {
    let lines: Vec<&str> = s.lines().collect();
    lines[lines.len().saturating_sub(n)..].join("\n")
}

/// Identity of the run this worker belongs to: pid + start time of the parent
/// (the coordinator process). All workers of one `run` share it; every new
/// `run` has a new one, so the CLI is rebuilt (or found up to date by cargo)
/// exactly once per run.
fn run_key() -> String {
    let ppid = unsafe { libc::getppid() };
    let start = std::fs::read_to_string(format!("/proc/{ppid}/stat"))
        .ok()
        .and_then(|s| {
            // field 22 (starttime); the comm field may contain spaces, so count from the last ')'
            let rest = &s[s.rfind(')')? + 1..];
            rest.split_whitespace().nth(19).map(|x| x.to_string())
        })
        .unwrap_or_else(|| "?".into());
    format!("{ppid}@{start}")
}

fn build_cli(use_stamp: bool) -> Result<PathBuf, String> {
    // test hook: C33_REPO_RUST points the build at another checkout (default /repo/rust)
    let repo_rust = std::env::var("C33_REPO_RUST").unwrap_or_else(|_| REPO_RUST.to_string());
    let repo_rust = repo_rust.as_str();
    // test hook: C33_TARGET_DIR keeps such a build out of the regular target directory
    let target_dir = std::env::var("C33_TARGET_DIR").unwrap_or_else(|_| CLI_TARGET_DIR.to_string());
    let target_dir = target_dir.as_str();
    std::fs::create_dir_all("/verif/out").map_err(|e| format!("cannot create /verif/out: {e}"))?;
    let lock = std::fs::OpenOptions::new()
        .create(true)
        .truncate(false)
        .write(true)
        .open(BUILD_LOCK)
        .map_err(|e| format!("cannot open {BUILD_LOCK}: {e}"))?;
    loop {
        let rc = unsafe { libc::flock(lock.as_raw_fd(), libc::LOCK_EX) };
        if rc == 0 {
            break;
        }
        let e = std::io::Error::last_os_error();
        if e.kind() != std::io::ErrorKind::Interrupted {
            return Err(format!("flock({BUILD_LOCK}) failed: {e}"));
        }
    }
    // everything below runs under the lock (released when `lock` is dropped)
    let bin = Path::new(target_dir).join("debug").join("automerge");
    let key = run_key();
    if use_stamp && !key.contains('?') {
        // has another worker of *this run* already done the build?
        if let Ok(txt) = std::fs::read_to_string(BUILD_STAMP) {
            if let Ok(v) = serde_json::from_str::<J>(&txt) {
                if v["run"].as_str() == Some(&key) {
                    return match v["error"].as_str() {
                        Some(e) => Err(e.to_string()),
                        None if bin.is_file() => Ok(bin),
                        None => Err(format!("{} disappeared", bin.display())),
                    };
                }
            }
        }
    }
    let t0 = Instant::now();
    let mut cmd = Command::new("cargo");
    cmd.args(["build", "--offline", "-p", "automerge-cli"])
        .current_dir(repo_rust)
        .env("CARGO_TARGET_DIR", target_dir)
        .env("CARGO_NET_OFFLINE", "true")
        // /repo/rust/rust-toolchain.toml must decide the toolchain, not the
        // environment the harness happens to have been started from
        .env_remove("RUSTUP_TOOLCHAIN")
        .env_remove("CARGO")
        .env_remove("RUSTC")
        .env_remove("RUSTDOC")
        .env_remove("CARGO_MANIFEST_DIR")
        .env_remove("CARGO_MAKEFLAGS")
        .stdin(Stdio::null());
    let res = match cmd.output() {
        Err(e) => Err(format!("cannot run `cargo build -p automerge-cli` in {repo_rust}: {e}")),
        Ok(out) if !out.status.success() => Err(format!(
            "`cargo build --offline -p automerge-cli` (cwd {repo_rust}, CARGO_TARGET_DIR={target_dir}) failed with {} after {:.1}s; stderr tail:\n{}",
            out.status,
            t0.elapsed().as_secs_f64(),
            tail(&String::from_utf8_lossy(&out.stderr), 25)
        )),
        Ok(_) if !bin.is_file() => Err(format!("cargo build succeeded but {} does not exist", bin.display())),
        Ok(_) => Ok(bin),
    };
    let stamp = json!({"run": key, "error": res.as_ref().err(), "build_s": t0.elapsed().as_secs_f64()});
    let _ = std::fs::write(BUILD_STAMP, stamp.to_string());
    drop(lock);
    res
}

/// Path of the freshly built CLI. Panics (=> the case is aborted, the run is
/// inconclusive) when the CLI cannot be built; the failure is cached so that
/// every later case fails fast with the same message.
fn cli_path(use_stamp: bool) -> &'static Path {
    static CLI: OnceLock<Result<PathBuf, String>> = OnceLock::new();
    match CLI.get_or_init(|| build_cli(use_stamp)) {
        Ok(p) => p,
        Err(e) => panic!("C33: CANNOT BUILD THE CLI UNDER TEST — no case was checked: {e}"),
    }
}

// ---------------------------------------------------------------------------
// Running the CLI
// ---------------------------------------------------------------------------

struct Ran {
    status: ExitStatus,
    stdout: Vec<u8>,
    stderr: Vec<u8>,
}

/// Runs one CLI process. stdout/stderr go to scratch files in `dir` (so the
/// child can never block on us and no reader threads are needed); stdin is a
/// real pipe for inputs that fit into the pipe buffer, a file otherwise.
/// None = timed out (killed).
fn run_cli(cmd: &mut Command, input: Option<&[u8]>, dir: &Path) -> Option<Ran> {
    let so_path = dir.join("stdout.bin");
    let se_path = dir.join("stderr.txt");
    let mk = |p: &Path| std::fs::File::create(p).unwrap_or_else(|e| panic!("C33: cannot create {}: {e}", p.display()));
    cmd.stdout(mk(&so_path))
        .stderr(mk(&se_path))
        // tracing_subscriber writes its log to stdout; keep the run deterministic
        .env_remove("RUST_LOG")
        .env("RUST_BACKTRACE", "0");
    let mut pipe_data: Option<&[u8]> = None;
    match input {
        None => {
            cmd.stdin(Stdio::null());
        }
        Some(d) if d.len() <= 32 * 1024 => {
            cmd.stdin(Stdio::piped());
            pipe_data = Some(d);
        }
        Some(d) => {
            let p = dir.join("stdin.bin");
            std::fs::write(&p, d).unwrap_or_else(|e| panic!("C33: cannot write {}: {e}", p.display()));
            cmd.stdin(std::fs::File::open(&p).unwrap_or_else(|e| panic!("C33: cannot open {}: {e}", p.display())));
        }
    }
    let mut child = cmd
        .spawn()
        .unwrap_or_else(|e| panic!("C33: cannot spawn the CLI binary: {e}"));
    if let Some(d) = pipe_data {
        // <= 32 KiB into an empty 64 KiB pipe: cannot block. EPIPE (child gone) is ignored.
        let mut s = child.stdin.take().unwrap();
        let _ = s.write_all(d);
    }
    let deadline = Instant::now() + SUBPROCESS_TIMEOUT;
    let status = loop {
        match child.try_wait() {
            Ok(Some(s)) => break Some(s),
            Ok(None) => {
                if Instant::now() > deadline {
                    let _ = child.kill();
                    let _ = child.wait();
                    break None;
                }
                std::thread::sleep(Duration::from_micros(800));
            }
            Err(e) => panic!("C33: waiting for the CLI failed: {e}"),
        }
    };
    let stdout = std::fs::read(&so_path).unwrap_or_default();
    let stderr = std::fs::read(&se_path).unwrap_or_default();
    status.map(|status| Ran { status, stdout, stderr })
}

fn status_json(s: &ExitStatus) -> J {
    use std::os::unix::process::ExitStatusExt;
    json!({"exit_code": s.code(), "signal": s.signal(), "text": s.to_string()})
}

fn lossy(b: &[u8], cap: usize) -> String {
    let s = String::from_utf8_lossy(b);
    if s.len() > cap {
        let mut end = cap;
        while !s.is_char_boundary(end) {
            end -= 1;
        }
        format!("{}… [{} bytes total]", &s[..end], s.len())
    } else {
        s.into_owned()
    }
}

// ---------------------------------------------------------------------------
// Model of a JSON value (what the input text *means*)
// ---------------------------------------------------------------------------

#[derive(Clone, Debug)]
enum V {
    Null,
    Bool(bool),
    /// integer literal within the i64 range
    Int(i64),
    /// integer literal above i64::MAX (and <= u64::MAX)
    UInt(u64),
    /// float literal (has a fraction and/or exponent); the text it is written with
    Float(f64, String),
    Str(String),
    Arr(Vec<V>),
    Obj(Vec<(String, V)>),
}

#[derive(Default, Debug)]
struct Stats {
    depth: usize,
    non_ascii: bool,
    escapes_needed: bool,
    big_ints: u64,
    u64_above: u64,
    floats: u64,
    big_floats: u64,
    neg_zero: u64,
    arrays: u64,
    objects: u64,
    empty_containers: u64,
    strings: u64,
    numlike_strings: u64,
    int_valued_floats: u64,
    subnormals: u64,
    nodes: u64,
}

const POOL_LATIN: &[char] = &['é', 'ß', 'ñ', 'Ø', 'ÿ', '\u{a0}', '\u{ad}', 'µ', 'İ', 'ı'];
const POOL_BMP: &[char] = &[
    '中', '文', '日', '本', '語', '한', 'Ж', 'я', 'α', 'Ω', 'א', 'ع', 'ก', '\u{2028}', '\u{2029}', '\u{feff}',
    '\u{fffd}', '\u{fffe}', '\u{ffff}', '\u{d7ff}', '\u{e000}', '\u{200d}', '\u{200b}', '\u{202e}', '\u{2060}',
    '\u{fb01}', '\u{212b}', '\u{1e9e}',
];
const POOL_ASTRAL: &[char] = &[
    '😀', '👨', '👩', '👧', '🏳', '🌈', '𝒳', '𐍈', '\u{10000}', '\u{1F1E6}', '\u{1F1FA}', '\u{e0001}', '\u{10ffff}',
    '\u{10fffe}', '\u{1fffe}', '\u{f0000}', '\u{1F3FB}', '\u{2f800}',
];
const POOL_COMBINING: &[char] = &['\u{301}', '\u{308}', '\u{327}', '\u{20dd}', '\u{fe0f}', '\u{0e49}', '\u{3099}', '\u{1ab0}'];
const POOL_CONTROL: &[char] = &[
    '\0', '\u{1}', '\u{7}', '\u{8}', '\t', '\n', '\u{b}', '\u{c}', '\r', '\u{1b}', '\u{1f}', '\u{7f}', '\u{80}', '\u{85}',
    '\u{9f}',
];
const POOL_SYNTAX: &[char] = &['"', '\\', '/', '\'', '{', '}', '[', ']', ':', ',', ' ', 'u', 'n', '$', '%', '#', '.'];
const NUMLIKE: &[&str] = &[
    "0", "-0", "1", "1.0", "-1.5", "1e5", "1e400", "18446744073709551615", "18446744073709551616", "9223372036854775808",
    "NaN", "Infinity", "-Infinity", "true", "false", "null", "[]", "{}", "0x10", "007", "1,5", " 1", "١٢٣",
];
const WORDS: &[&str] = &["a", "b", "id", "name", "value", "items", "x", "y", "key", "list", "map", "n", "title", "__proto__", "constructor", "0", "1"];

const INT_EDGES: &[i64] = &[
    i64::MIN,
    i64::MIN + 1,
    i64::MAX,
    i64::MAX - 1,
    1 << 53,
    (1 << 53) + 1,
    (1 << 53) - 1,
    -(1 << 53),
    -(1 << 53) - 1,
    -(1 << 53) + 1,
    1 << 31,
    (1 << 31) - 1,
    -(1 << 31),
    -(1 << 31) - 1,
    1 << 32,
    (1 << 32) - 1,
    1 << 62,
    -(1 << 62),
    1_000_000_000_000_000,
    10_000_000_000_000_000,
    999_999_999_999_999_999,
    -999_999_999_999_999_999,
    255,
    256,
    -128,
    -129,
    65535,
    65536,
    1 << 52,
    i64::MAX - 1024,
];
const UINT_EDGES: &[u64] = &[
    1 << 63,
    (1 << 63) + 1,
    (1 << 63) + 1024,
    u64::MAX,
    u64::MAX - 1,
    10_000_000_000_000_000_000,
    12_345_678_901_234_567_890,
    18_000_000_000_000_000_000,
    0xffff_ffff_0000_0000,
];
const FLOAT_EDGES: &[f64] = &[
    -0.0,
    -0.0,
    0.0,
    1.0,
    -1.0,
    15.0,
    3.0,
    0.1,
    0.2,
    0.30000000000000004,
    1e308,
    1e-308,
    -1e308,
    f64::MAX,
    f64::MIN,
    f64::MIN_POSITIVE,
    5e-324,
    -5e-324,
    2.225073858507201e-308, // largest subnormal
    2.2250738585072011e-308,
    9007199254740992.0,
    9007199254740994.0,
    -9007199254740992.0,
    1e15,
    1e16,
    1e21,
    1e22,
    1e23,
    1.8446744073709552e19,   // 2^64
    9.223372036854775807e18, // 2^63
    -9.223372036854775808e18,
    1.8446744073709550e19,
    123456789012345680.0,
    4.35,
    0.000001,
    1e-7,
    std::f64::consts::PI,
    std::f64::consts::E,
    8.5e-320,
    1e-323,
    0.5,
    1.5,
    2.5,
    1e-5,
    100.0,
    1e300,
    1e-300,
    7.038531e-26,
    1.00000000000000011102230246251565404236316680908203125,
    0.9999999999999999,
];

struct Gen<'a> {
    rng: &'a mut Rng,
    max_depth: usize,
    budget: i64,
    st: Stats,
}

impl Gen<'_> {
    fn any_char(&mut self) -> char {
        loop {
            let c = match self.rng.below(4) {
                0 => (self.rng.next() % 0x800) as u32,
                1 => (self.rng.next() % 0x1_0000) as u32,
                _ => (self.rng.next() % 0x11_0000) as u32,
            };
            if let Some(c) = char::from_u32(c) {
                return c;
            }
        }
    }

    fn string(&mut self) -> String {
        let style = self.rng.weighted(&[22, 8, 30, 14, 6, 5, 8, 7]);
        let mut s = String::new();
        match style {
            0 => {
                s.push_str(self.rng.pick::<&str>(WORDS));
                if self.rng.chance(40) {
                    s.push_str(&format!("{}", self.rng.below(100)));
                }
            }
            1 => {
                self.st.numlike_strings += 1;
                s.push_str(self.rng.pick::<&str>(NUMLIKE));
            }
            2 | 5 => {
                // mixed unicode; style 5 = long
                let n = if style == 5 { self.rng.range(40, 300) } else { self.rng.range(1, 12) };
                for _ in 0..n {
                    let c = match self.rng.weighted(&[25, 12, 16, 16, 10, 5, 6, 10]) {
                        0 => (b'a' + self.rng.below(26) as u8) as char,
                        1 => *self.rng.pick(POOL_LATIN),
                        2 => *self.rng.pick(POOL_BMP),
                        3 => *self.rng.pick(POOL_ASTRAL),
                        4 => *self.rng.pick(POOL_COMBINING),
                        5 => *self.rng.pick(POOL_CONTROL),
                        6 => *self.rng.pick(POOL_SYNTAX),
                        _ => self.any_char(),
                    };
                    s.push(c);
                }
            }
            3 => {
                // control characters, quotes, backslashes
                let n = self.rng.range(1, 10);
                for _ in 0..n {
                    let c = match self.rng.below(3) {
                        0 => *self.rng.pick(POOL_CONTROL),
                        1 => *self.rng.pick(POOL_SYNTAX),
                        _ => (b' ' + self.rng.below(95) as u8) as char,
                    };
                    s.push(c);
                }
            }
            4 => {}
            6 => {
                // canonically equivalent but distinct strings (NFC vs NFD), ZWJ sequences, flags
                s.push_str(self.rng.pick::<&str>(&[
                    "é",
                    "e\u{301}",
                    "Å",
                    "A\u{30a}",
                    "\u{212b}",
                    "ñ",
                    "n\u{303}",
                    "👨\u{200d}👩\u{200d}👧",
                    "🏳\u{fe0f}\u{200d}🌈",
                    "🇦🇺",
                    "👍🏻",
                    "가",
                    "\u{1100}\u{1161}",
                    "ﬁ",
                    "fi",
                    "\u{feff}bom",
                    "a\u{0}b",
                    "\u{0}",
                ]));
            }
            _ => {
                let n = self.rng.range(1, 6);
                for _ in 0..n {
                    let c = self.any_char();
                    s.push(c);
                }
            }
        }
        self.note_string(&s);
        s
    }

    fn note_string(&mut self, s: &str) {
        self.st.strings += 1;
        if !s.is_ascii() {
            self.st.non_ascii = true;
        }
        if s.chars().any(|c| c == '"' || c == '\\' || (c as u32) < 0x20) {
            self.st.escapes_needed = true;
        }
    }

    fn float_text(&mut self, f: f64) -> String {
        let t = match self.rng.weighted(&[64, 12, 12, 12]) {
            0 => format!("{f:?}"),
            1 => format!("{f:e}"),
            2 => format!("{f:.16e}"),
            _ => {
                let e = format!("{f:e}");
                let (m, x) = e.split_once('e').unwrap();
                if x.starts_with('-') {
                    format!("{m}E{x}")
                } else {
                    format!("{m}E+{x}")
                }
            }
        };
        // generator self-check: the text must denote exactly `f` (correctly rounded) and be a float literal
        let back: f64 = t.parse().unwrap_or_else(|_| panic!("generator bug: float text {t:?} does not parse"));
        assert!(back.to_bits() == f.to_bits(), "generator bug: float text {t:?} != {f:?}");
        assert!(t.contains(['.', 'e', 'E']), "generator bug: float text {t:?} looks like an integer");
        t
    }

    fn number(&mut self) -> V {
        match self.rng.weighted(&[14, 14, 16, 16, 40]) {
            0 => V::Int(self.rng.below(21) as i64 - 10),
            1 => {
                let i = *self.rng.pick(INT_EDGES);
                self.int(i)
            }
            2 => {
                let bits = self.rng.range(1, 63);
                let mag = (self.rng.next() >> (64 - bits)) as i64;
                let neg = self.rng.chance(50);
                self.int(if neg { -mag } else { mag })
            }
            3 => {
                let u = if self.rng.chance(50) { *self.rng.pick(UINT_EDGES) } else { self.rng.next() | (1 << 63) };
                self.st.u64_above += 1;
                self.st.big_ints += 1;
                V::UInt(u)
            }
            _ => {
                let f = match self.rng.weighted(&[40, 10, 20, 15, 15]) {
                    0 => *self.rng.pick(FLOAT_EDGES),
                    1 => {
                        // random subnormal
                        let b = (self.rng.next() & ((1u64 << 52) - 1)) | ((self.rng.next() & 1) << 63);
                        f64::from_bits(b)
                    }
                    2 => loop {
                        let f = f64::from_bits(self.rng.next());
                        if f.is_finite() {
                            break f;
                        }
                    },
                    3 => {
                        let k = 10f64.powi(self.rng.below(9) as i32);
                        let v = (self.rng.next() % 10_000_000) as f64 / k;
                        if self.rng.chance(30) {
                            -v
                        } else {
                            v
                        }
                    }
                    _ => {
                        // integral-valued float
                        let bits = self.rng.range(1, 64);
                        let v = (self.rng.next() >> (64 - bits)) as f64;
                        if self.rng.chance(40) {
                            -v
                        } else {
                            v
                        }
                    }
                };
                self.st.floats += 1;
                if f.to_bits() == (-0.0f64).to_bits() {
                    self.st.neg_zero += 1;
                }
                if f.abs() > 9007199254740992.0 {
                    self.st.big_floats += 1;
                }
                if f.fract() == 0.0 {
                    self.st.int_valued_floats += 1;
                }
                if f != 0.0 && f.abs() < f64::MIN_POSITIVE {
                    self.st.subnormals += 1;
                }
                let t = self.float_text(f);
                V::Float(f, t)
            }
        }
    }

    fn int(&mut self, i: i64) -> V {
        if i.unsigned_abs() > (1u64 << 53) {
            self.st.big_ints += 1;
        }
        V::Int(i)
    }

    fn value(&mut self, depth: usize) -> V {
        self.budget -= 1;
        self.st.nodes += 1;
        let container_pct = if depth >= self.max_depth || self.budget <= 0 {
            0
        } else if depth <= 2 {
            45
        } else {
            30
        };
        if self.rng.chance(container_pct) {
            if self.rng.chance(50) {
                return self.object(depth + 1);
            }
            return self.array(depth + 1);
        }
        match self.rng.weighted(&[8, 10, 48, 34]) {
            0 => V::Null,
            1 => V::Bool(self.rng.chance(50)),
            2 => self.number(),
            _ => V::Str(self.string()),
        }
    }

    fn count(&mut self) -> usize {
        let n = match self.rng.weighted(&[8, 30, 35, 19, 8]) {
            0 => 0,
            1 => self.rng.range(1, 3),
            2 => self.rng.range(3, 8),
            3 => self.rng.range(8, 20),
            _ => self.rng.range(20, 60),
        };
        n.min(self.budget.max(0) as usize)
    }

    /// `depth` = nesting depth of this container (the root object has depth 1)
    fn object(&mut self, depth: usize) -> V {
        self.st.depth = self.st.depth.max(depth);
        self.st.objects += 1;
        let n = self.count();
        if n == 0 {
            self.st.empty_containers += 1;
        }
        let mut kvs: Vec<(String, V)> = Vec::with_capacity(n);
        for _ in 0..n {
            // unique keys only: JSON leaves the meaning of duplicate keys open
            let mut k = self.string();
            let mut tries = 0;
            while kvs.iter().any(|(kk, _)| *kk == k) {
                tries += 1;
                k = if tries < 4 { self.string() } else { format!("{k}{}", kvs.len()) };
            }
            let v = self.value(depth);
            kvs.push((k, v));
        }
        V::Obj(kvs)
    }

    fn array(&mut self, depth: usize) -> V {
        self.st.depth = self.st.depth.max(depth);
        self.st.arrays += 1;
        let n = self.count();
        if n == 0 {
            self.st.empty_containers += 1;
        }
        V::Arr((0..n).map(|_| self.value(depth)).collect())
    }
}

// ---------------------------------------------------------------------------
// JSON text writer (random but always valid RFC 8259 text)
// ---------------------------------------------------------------------------

struct Wr<'a> {
    rng: &'a mut Rng,
    out: String,
    /// 0 compact, 1 single spaces, 2 random whitespace
    ws: usize,
    /// 0 minimal escapes, 1 all non-ASCII as \uXXXX, 2 per-character random
    esc: usize,
}

impl Wr<'_> {
    fn ws(&mut self) {
        match self.ws {
            0 => {}
            1 => self.out.push(' '),
            _ => {
                for _ in 0..self.rng.below(3) {
                    self.out.push_str(self.rng.pick::<&str>(&[" ", "\n", "\t", "\r\n", "  "]));
                }
            }
        }
    }

    fn u_escape(&mut self, unit: u16) {
        if self.rng.chance(50) {
            self.out.push_str(&format!("\\u{unit:04x}"));
        } else {
            self.out.push_str(&format!("\\u{unit:04X}"));
        }
    }

    fn string(&mut self, s: &str) {
        self.out.push('"');
        for c in s.chars() {
            let short = match c {
                '"' => Some("\\\""),
                '\\' => Some("\\\\"),
                '\u{8}' => Some("\\b"),
                '\u{c}' => Some("\\f"),
                '\n' => Some("\\n"),
                '\r' => Some("\\r"),
                '\t' => Some("\\t"),
                _ => None,
            };
            let must = c == '"' || c == '\\' || (c as u32) < 0x20;
            let escape = must
                || match self.esc {
                    0 => false,
                    1 => !c.is_ascii(),
                    _ => self.rng.chance(if c.is_ascii() { 5 } else { 40 }),
                };
            if !escape {
                self.out.push(c);
                continue;
            }
            if c == '/' && self.rng.chance(50) {
                self.out.push_str("\\/");
                continue;
            }
            if let Some(sh) = short {
                if c == '"' || c == '\\' || self.rng.chance(70) {
                    self.out.push_str(sh);
                    continue;
                }
            }
            let mut buf = [0u16; 2];
            for u in c.encode_utf16(&mut buf).iter() {
                self.u_escape(*u);
            }
        }
        self.out.push('"');
    }

    fn value(&mut self, v: &V) {
        match v {
            V::Null => self.out.push_str("null"),
            V::Bool(b) => self.out.push_str(if *b { "true" } else { "false" }),
            V::Int(i) => self.out.push_str(&i.to_string()),
            V::UInt(u) => self.out.push_str(&u.to_string()),
            V::Float(_, t) => self.out.push_str(t),
            V::Str(s) => self.string(s),
            V::Arr(xs) => {
                self.out.push('[');
                self.ws();
                for (i, x) in xs.iter().enumerate() {
                    if i > 0 {
                        self.out.push(',');
                        self.ws();
                    }
                    self.value(x);
                    self.ws();
                }
                self.out.push(']');
            }
            V::Obj(kvs) => {
                self.out.push('{');
                self.ws();
                for (i, (k, x)) in kvs.iter().enumerate() {
                    if i > 0 {
                        self.out.push(',');
                        self.ws();
                    }
                    self.string(k);
                    if self.ws == 2 {
                        self.ws();
                    }
                    self.out.push(':');
                    self.ws();
                    self.value(x);
                    self.ws();
                }
                self.out.push('}');
            }
        }
    }
}

// ---------------------------------------------------------------------------
// Comparison of the model with a parsed JSON value
// ---------------------------------------------------------------------------

struct Mis {
    class: &'static str,
    path: String,
    expected: String,
    actual: String,
    /// for number leaves: the literal the input used
    num_text: Option<String>,
    /// for float leaves that came back as another float: distance in representable doubles
    ulps: Option<u64>,
}

fn show_v(v: &V) -> String {
    match v {
        V::Null => "null".into(),
        V::Bool(b) => b.to_string(),
        V::Int(i) => format!("integer {i}"),
        V::UInt(u) => format!("unsigned integer {u}"),
        V::Float(f, t) => format!("float {f:?} (bits {:#018x}, written `{t}`)", f.to_bits()),
        V::Str(s) => format!("string {s:?}"),
        V::Arr(x) => format!("array of {}", x.len()),
        V::Obj(x) => format!("object with {} keys", x.len()),
    }
}

fn show_j(j: &J) -> String {
    match j {
        J::Null => "null".into(),
        J::Bool(b) => b.to_string(),
        J::Number(n) => {
            if n.is_f64() {
                let f = n.as_f64().unwrap();
                format!("float {f:?} (bits {:#018x})", f.to_bits())
            } else if n.is_i64() {
                format!("integer {n}")
            } else {
                format!("unsigned integer {n}")
            }
        }
        J::String(s) => format!("string {s:?}"),
        J::Array(x) => format!("array of {}", x.len()),
        J::Object(x) => format!("object with {} keys", x.len()),
    }
}

/// at most 3 recorded mismatches per class (the whole document is always walked)
fn room(out: &[Mis], class: &str) -> bool {
    out.iter().filter(|m| m.class == class).count() < 3
}

/// distance in representable doubles between two finite floats
fn ulp_distance(a: f64, b: f64) -> u64 {
    fn ord(f: f64) -> i128 {
        let b = f.to_bits();
        if b >> 63 == 1 {
            -((b & !(1 << 63)) as i128)
        } else {
            b as i128
        }
    }
    (ord(a) - ord(b)).unsigned_abs().min(u64::MAX as u128) as u64
}

fn cmp(e: &V, a: &J, path: &str, out: &mut Vec<Mis>) {
    let mut push = |class: &'static str| {
        if !room(out, class) {
            return;
        }
        out.push(Mis {
            class,
            path: if path.is_empty() { "(root)".into() } else { path.to_string() },
            expected: show_v(e),
            actual: show_j(a),
            num_text: match e {
                V::Int(i) => Some(i.to_string()),
                V::UInt(u) => Some(u.to_string()),
                V::Float(_, t) => Some(t.clone()),
                _ => None,
            },
            ulps: match (e, a) {
                (V::Float(x, _), J::Number(n)) if n.is_f64() => Some(ulp_distance(*x, n.as_f64().unwrap())),
                _ => None,
            },
        })
    };
    match (e, a) {
        (V::Null, J::Null) => {}
        (V::Bool(x), J::Bool(y)) => {
            if x != y {
                push("bool-changed")
            }
        }
        (V::Str(x), J::String(y)) => {
            if x != y {
                push("string-changed")
            }
        }
        (V::Int(x), J::Number(n)) => {
            if n.is_f64() {
                push("int-becomes-float")
            } else if n.as_i64() != Some(*x) {
                push("int-value-changed")
            }
        }
        (V::UInt(x), J::Number(n)) => {
            if n.is_f64() {
                push("u64-above-i64-becomes-float")
            } else if n.as_u64() != Some(*x) {
                push("u64-above-i64-value-changed")
            }
        }
        (V::Float(x, _), J::Number(n)) => {
            if !n.is_f64() {
                push("float-becomes-int")
            } else {
                let y = n.as_f64().unwrap();
                if y.to_bits() != x.to_bits() {
                    if *x == 0.0 && y == 0.0 {
                        push("neg-zero")
                    } else if ulp_distance(*x, y) <= 4 && x.is_sign_negative() == y.is_sign_negative() && y != 0.0 {
                        // the result is a neighbouring double: inexact decimal → binary conversion
                        push("float-ulp-drift")
                    } else {
                        push("float-value-changed")
                    }
                }
            }
        }
        (V::Arr(xs), J::Array(ys)) => {
            if xs.len() != ys.len() {
                push("array-length-changed");
            }
            for (i, (x, y)) in xs.iter().zip(ys.iter()).enumerate() {
                cmp(x, y, &format!("{path}/{i}"), out);
            }
        }
        (V::Obj(kvs), J::Object(m)) => {
            for (k, x) in kvs {
                match m.get(k) {
                    Some(y) => cmp(x, y, &format!("{path}/{}", key_show(k)), out),
                    None => {
                        if room(out, "key-missing") {
                            out.push(Mis {
                                class: "key-missing",
                                path: format!("{path}/{}", key_show(k)),
                                expected: format!("key {k:?} present"),
                                actual: format!("keys {:?}", m.keys().take(20).collect::<Vec<_>>()),
                                num_text: None,
                                ulps: None,
                            })
                        }
                    }
                }
            }
            for k in m.keys() {
                if !kvs.iter().any(|(kk, _)| kk == k) && room(out, "key-extra") {
                    out.push(Mis {
                        class: "key-extra",
                        path: format!("{path}/{}", key_show(k)),
                        expected: format!("keys {:?}", kvs.iter().map(|(k, _)| k).take(20).collect::<Vec<_>>()),
                        actual: format!("unexpected key {k:?}"),
                        num_text: None,
                        ulps: None,
                    })
                }
            }
        }
        _ => push("type-changed"),
    }
}

fn key_show(k: &str) -> String {
    let d = format!("{k:?}");
    d[1..d.len() - 1].replace('/', "~1")
}

fn shell_quote(s: &str) -> String {
    format!("'{}'", s.replace('\'', "'\\''"))
}

// ---------------------------------------------------------------------------
// One import → export round trip
// ---------------------------------------------------------------------------

enum Trip {
    Timeout(&'static str),
    Failed { stage: &'static str, ran: Ran },
    Exported(Vec<u8>),
}

fn tmp_dir() -> PathBuf {
    let d = Path::new(TMP_ROOT).join(format!("{}", std::process::id()));
    std::fs::create_dir_all(&d).unwrap_or_else(|e| panic!("C33: cannot create {}: {e}", d.display()));
    d
}

fn round_trip(cli: &Path, text: &str, via_files: bool) -> Trip {
    let dir = tmp_dir();
    let r = if via_files {
        let inp = dir.join("in.json");
        let doc = dir.join("doc.automerge");
        let outp = dir.join("out.json");
        let _ = std::fs::remove_file(&doc);
        let _ = std::fs::remove_file(&outp);
        std::fs::write(&inp, text).unwrap_or_else(|e| panic!("C33: cannot write {}: {e}", inp.display()));
        let r = (|| {
            let mut c = Command::new(cli);
            c.arg("import").arg(&inp).arg("-o").arg(&doc).current_dir(&dir);
            match run_cli(&mut c, None, &dir) {
                None => return Trip::Timeout("import"),
                Some(ran) if !ran.status.success() => return Trip::Failed { stage: "import", ran },
                Some(_) => {}
            }
            let mut c = Command::new(cli);
            c.arg("export").arg(&doc).arg("-o").arg(&outp).current_dir(&dir);
            match run_cli(&mut c, None, &dir) {
                None => Trip::Timeout("export"),
                Some(ran) if !ran.status.success() => Trip::Failed { stage: "export", ran },
                Some(_) => Trip::Exported(std::fs::read(&outp).unwrap_or_default()),
            }
        })();
        for p in [&inp, &doc, &outp] {
            let _ = std::fs::remove_file(p);
        }
        r
    } else {
        (|| {
            let mut c = Command::new(cli);
            c.arg("import").current_dir(&dir);
            let saved = match run_cli(&mut c, Some(text.as_bytes()), &dir) {
                None => return Trip::Timeout("import"),
                Some(ran) if !ran.status.success() => return Trip::Failed { stage: "import", ran },
                Some(ran) => ran.stdout,
            };
            let mut c = Command::new(cli);
            c.arg("export").current_dir(&dir);
            match run_cli(&mut c, Some(&saved), &dir) {
                None => Trip::Timeout("export"),
                Some(ran) if !ran.status.success() => Trip::Failed { stage: "export", ran },
                Some(ran) => Trip::Exported(ran.stdout),
            }
        })()
    };
    for f in ["stdout.bin", "stderr.txt", "stdin.bin"] {
        let _ = std::fs::remove_file(dir.join(f));
    }
    let _ = std::fs::remove_dir(&dir); // only succeeds when empty
    r
}

impl Check for C33 {
    fn id(&self) -> &'static str {
        "C33"
    }
    fn cases(&self, tier: Tier) -> u64 {
        tier.pick(400, 4_000)
    }
    fn budget_s(&self, tier: Tier) -> u64 {
        // generous: the first case of every worker may have to wait for the
        // CLI to be (re)built from the working tree (~2 min from scratch)
        tier.pick(240, 600)
    }
    fn min_nontrivial(&self, tier: Tier) -> u64 {
        tier.pick(120, 1200)
    }
    fn in_panic_watch(&self) -> bool {
        false
    }
    fn rule(&self) -> String {
        "case = one random JSON text whose top level is an object: nesting depth up to 4 (quick) / 6 (thorough), empty objects and arrays, unique unicode keys (incl. the empty key, NFC/NFD pairs, control characters, quotes, backslashes, astral-plane characters, combining marks, noncharacters), strings of the same alphabet (incl. number-looking strings), integers over the whole i64 range, unsigned integers in (i64::MAX, u64::MAX], finite floats (±0.0, subnormals, 1e±308, f64::MAX, integral-valued floats such as 1.0 or 1e22, random bit patterns) written as shortest-round-trip, exponent, 17-digit or `E+` literals, booleans, null; the text uses random whitespace and random \\uXXXX / short escapes. The text is first parsed by the monitor's own serde_json and must equal the model (generator self-check). Then `automerge import` and `automerge export` of the CLI built from the working tree are run (half of the cases through stdin/stdout pipes, half through `import FILE -o DOC` / `export DOC -o OUT`), the output is parsed and compared with the model: same keys, array lengths, strings, booleans/nulls; numbers equal in value and in kind (integer vs float; floats bit-identical, a lost sign of zero is reported under its own signature). A non-zero exit or a signal of the CLI is a violation; a 30 s subprocess timeout only skips the case. Non-trivial = nesting >= 2, a non-ASCII key/string, or a number outside ±2^53; distinct by hash of the JSON text.".into()
    }
    fn assumptions(&self) -> Vec<String> {
        vec![
            "the CLI under test is built by the workers with `cargo build --offline -p automerge-cli` (dev profile, cwd /repo/rust, CARGO_TARGET_DIR=/verif/out/target-cli); a build failure aborts every case (run inconclusive)".into(),
            "inputs never contain duplicate keys, lone surrogates, integers beyond u64::MAX / below i64::MIN or non-finite floats (their JSON meaning is not fixed by the property)".into(),
            "the exported text is judged after parsing with serde_json (float_roundtrip, no arbitrary_precision): a number token without fraction/exponent is an integer, otherwise a float".into(),
        ]
    }
    fn required_counters(&self) -> Vec<&'static str> {
        vec![
            "docs",
            "nested",
            "non_ascii",
            "big_ints",
            "u64_above_i64",
            "floats",
            "neg_zero_inputs",
            "arrays",
            "empty_containers",
            "via_pipes",
            "via_files",
        ]
    }
    fn run_case(&self, cx: &mut Ctx, case: u64, rng: &mut Rng) {
        // replays (verbose) always go through cargo; workers of one run build once
        let cli = cli_path(!cx.verbose);
        // ---- generate
        let mut grng = rng.fork();
        let mut wrng = rng.fork();
        let max_depth = cx.tier.pick(4, 6);
        // process creation dominates the cost of a case, so documents are on the large side
        let budget = match rng.weighted(&[15, 35, 35, 15]) {
            0 => rng.range(1, 8),
            1 => rng.range(8, 40),
            2 => rng.range(40, 150),
            _ => rng.range(150, 500),
        } as i64;
        let mut g = Gen { rng: &mut grng, max_depth, budget, st: Stats::default() };
        let model = loop {
            let m = g.object(1);
            // an empty root is legal but boring; allow it only sometimes
            if let V::Obj(kvs) = &m {
                if kvs.is_empty() && case % 50 != 7 {
                    g.budget = budget.max(2);
                    g.st = Stats::default();
                    continue;
                }
            }
            break m;
        };
        let st = g.st;
        let mut w = Wr { rng: &mut wrng, out: String::new(), ws: 0, esc: 0 };
        w.ws = w.rng.weighted(&[50, 20, 30]);
        w.esc = w.rng.weighted(&[50, 20, 30]);
        if w.ws == 2 {
            w.ws();
        }
        w.value(&model);
        if w.ws == 2 {
            w.ws();
        }
        let text = w.out;
        // ---- generator self-check (a failure here is a harness bug, never a violation)
        {
            let parsed: J = serde_json::from_str(&text)
                .unwrap_or_else(|e| panic!("generator bug: produced invalid JSON ({e}): {}", lossy(text.as_bytes(), 600)));
            let mut mis = vec![];
            cmp(&model, &parsed, "", &mut mis);
            if let Some(m) = mis.first() {
                panic!(
                    "generator bug: own parse of the text differs from the model at {}: {} — expected {}, got {}",
                    m.path, m.class, m.expected, m.actual
                );
            }
        }
        let via_files = case % 2 == 1;
        cx.trace(|| format!("input ({} bytes, via_files={via_files}): {text}", text.len()));
        // ---- run the CLI
        let exported = match round_trip(cli, &text, via_files) {
            Trip::Timeout(stage) => {
                cx.count("timeouts");
                cx.trace(|| format!("{stage} timed out"));
                return;
            }
            Trip::Failed { stage, ran } => {
                cx.count("docs");
                cx.violation(
                    &format!("c33|cli-failed|{stage}"),
                    format!(
                        "`automerge {stage}` failed ({}) on a valid JSON object ({} bytes): {}",
                        ran.status,
                        text.len(),
                        lossy(&ran.stderr, 300).lines().next().unwrap_or("")
                    ),
                    json!({
                        "stage": stage,
                        "status": status_json(&ran.status),
                        "stderr": lossy(&ran.stderr, 3000),
                        "stdout_len": ran.stdout.len(),
                        "via_files": via_files,
                        "input": lossy(text.as_bytes(), 4000),
                        "reproduce": format!("printf '%s' {} | automerge import | automerge export", shell_quote(&lossy(text.as_bytes(), 4000))),
                    }),
                );
                return;
            }
            Trip::Exported(b) => b,
        };
        // ---- observations
        cx.count("docs");
        cx.count(if via_files { "via_files" } else { "via_pipes" });
        cx.max("depth", st.depth as u64);
        cx.max("input_bytes", text.len() as u64);
        cx.add("nodes", st.nodes);
        if st.depth >= 2 {
            cx.count("nested");
        }
        if st.depth >= 3 {
            cx.count("nested_3_or_deeper");
        }
        if st.non_ascii {
            cx.count("non_ascii");
        }
        if st.escapes_needed {
            cx.count("docs_with_mandatory_escapes");
        }
        cx.add("big_ints", st.big_ints);
        cx.add("u64_above_i64", st.u64_above);
        cx.add("floats", st.floats);
        cx.add("floats_beyond_2_53", st.big_floats);
        cx.add("integral_valued_floats", st.int_valued_floats);
        cx.add("subnormal_floats", st.subnormals);
        cx.add("neg_zero_inputs", st.neg_zero);
        cx.add("arrays", st.arrays);
        cx.add("objects", st.objects);
        cx.add("empty_containers", st.empty_containers);
        cx.add("strings_and_keys", st.strings);
        cx.add("number_looking_strings", st.numlike_strings);
        if st.depth >= 2 || st.non_ascii || st.big_ints > 0 || st.big_floats > 0 {
            cx.nontrivial(hash_str(&text));
        }
        cx.sample(|| json!({"input": lossy(text.as_bytes(), 500), "via_files": via_files, "exported_bytes": exported.len()}));
        // ---- compare
        let out_text = match std::str::from_utf8(&exported) {
            Ok(s) => s,
            Err(e) => {
                cx.violation(
                    "c33|export-not-utf8",
                    format!("`automerge export` wrote bytes that are not UTF-8: {e}"),
                    json!({"input": lossy(text.as_bytes(), 4000), "exported": lossy(&exported, 4000), "via_files": via_files}),
                );
                return;
            }
        };
        let parsed: J = match serde_json::from_str(out_text) {
            Ok(v) => v,
            Err(e) => {
                cx.violation(
                    "c33|export-not-json",
                    format!("`automerge export` output does not parse as JSON: {e}"),
                    json!({"input": lossy(text.as_bytes(), 4000), "exported": lossy(&exported, 4000), "via_files": via_files, "parse_error": e.to_string()}),
                );
                return;
            }
        };
        let mut mis = vec![];
        cmp(&model, &parsed, "", &mut mis);
        if mis.is_empty() {
            cx.count("round_trips_equal");
            return;
        }
        cx.trace(|| format!("exported: {out_text}"));
        for m in &mis {
            if let Some(u) = m.ulps {
                cx.max("float_ulp_distance", u);
            }
        }
        // one violation per distinct class in this document
        let mut seen: Vec<&'static str> = vec![];
        for m in &mis {
            if seen.contains(&m.class) {
                continue;
            }
            seen.push(m.class);
            // for number leaves: does the one-value document reproduce it?
            // (only for the first reports of a class in this worker: each costs two more processes)
            let sig = format!("c33|{}", m.class);
            let already = cx.violations.iter().filter(|v| v.sig == sig).count();
            let minimal = m.num_text.as_ref().filter(|_| already < 2).map(|t| {
                let doc = format!("{{\"v\":{t}}}");
                let got = match round_trip(cli, &doc, false) {
                    Trip::Exported(b) => String::from_utf8_lossy(&b).split_whitespace().collect::<Vec<_>>().join(" "),
                    Trip::Timeout(_) => "(timeout)".into(),
                    Trip::Failed { stage, ran } => format!("({stage} failed: {})", ran.status),
                };
                json!({"command": format!("printf '%s' {} | automerge import | automerge export", shell_quote(&doc)), "output": got})
            });
            cx.violation(
                &sig,
                format!("after import → export the value at {} is {} but the input had {}", m.path, m.actual, m.expected),
                json!({
                    "class": m.class,
                    "path": m.path,
                    "expected": m.expected,
                    "actual": m.actual,
                    "via_files": via_files,
                    "minimal": minimal,
                    "input": lossy(text.as_bytes(), 4000),
                    "exported": lossy(&exported, 4000),
                    "all_mismatches": mis.iter().map(|m| json!({"class": m.class, "path": m.path, "expected": m.expected, "actual": m.actual})).collect::<Vec<_>>(),
                    "reproduce": format!("printf '%s' {} | automerge import | automerge export", shell_quote(&lossy(text.as_bytes(), 4000))),
                }),
            );
        }
    }
}
