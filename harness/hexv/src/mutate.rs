//! Byte-level mutations of valid encodings and hand-crafted hostile encodings
//! (RLE: signed-LEB header n>0 = repeat run, n<0 = literal run of -n values,
//! 0 = null run followed by an unsigned-LEB count; bool: alternating
//! unsigned-LEB counts starting with `false`).
use amv::fw::Rng;

#[derive(Clone, Copy, Debug, PartialEq, Eq)]
pub enum Wire {
    Uleb,
    Sleb,
    Str,
    Bytes,
    Bool,
    Raw,
}

pub fn uleb(mut v: u64, out: &mut Vec<u8>) {
    loop {
        let b = (v & 0x7f) as u8;
        v >>= 7;
        if v == 0 {
            out.push(b);
            break;
        }
        out.push(b | 0x80);
    }
}

pub fn sleb(mut v: i64, out: &mut Vec<u8>) {
    loop {
        let b = (v & 0x7f) as u8;
        v >>= 7;
        let done = (v == 0 && b & 0x40 == 0) || (v == -1 && b & 0x40 != 0);
        if done {
            out.push(b);
            break;
        }
        out.push(b | 0x80);
    }
}

/// LEB byte strings that overflow / are overlong / are truncated.
pub fn bad_leb(rng: &mut Rng, out: &mut Vec<u8>) -> &'static str {
    match rng.below(8) {
        0 => {
            out.extend_from_slice(&[0xff; 10]);
            "ff*10 (no terminator)"
        }
        1 => {
            out.extend_from_slice(&[0xff; 9]);
            out.push(0x7f);
            "ff*9 7f (70 bits)"
        }
        2 => {
            out.extend_from_slice(&[0x80; 9]);
            out.push(0x02);
            "80*9 02 (bit 64)"
        }
        3 => {
            out.extend_from_slice(&[0x80, 0x00]);
            "overlong zero 80 00"
        }
        4 => {
            out.extend_from_slice(&[0xff, 0xff, 0xff, 0xff, 0xff, 0xff, 0xff, 0xff, 0xff, 0x01]);
            "u64::MAX"
        }
        5 => {
            out.extend_from_slice(&[0x80; 12]);
            out.push(0x00);
            "13-byte overlong zero"
        }
        6 => {
            out.extend_from_slice(&[0x81, 0x80, 0x80]);
            "truncated continuation"
        }
        _ => {
            out.extend_from_slice(&[0xff; 20]);
            "ff*20"
        }
    }
}

const U_EDGE: [u64; 14] = [0, 1, 2, 63, 64, 127, 128, 16384, (1 << 32) - 1, 1 << 32, (1 << 63) - 1, 1 << 63, u64::MAX - 1, u64::MAX];
const S_EDGE: [i64; 16] = [0, 1, -1, 2, 63, 64, -64, -65, 1 << 31, (1 << 32) - 1, 1 << 32, 1 << 62, -(1 << 62), i64::MAX, i64::MIN, i64::MIN + 1];

const BAD_UTF8: [&[u8]; 8] = [b"\xff", b"\xc3", b"\xe2\x82", b"\xf0\x9f\x98", b"\x80", b"\xc0\x80", b"\xed\xa0\x80", b"ab\xfe"];

fn value(rng: &mut Rng, wire: Wire, out: &mut Vec<u8>) {
    if rng.chance(4) {
        bad_leb(rng, out);
        return;
    }
    match wire {
        Wire::Uleb | Wire::Bool | Wire::Raw => uleb(if rng.chance(50) { rng.below(4) as u64 } else { *rng.pick(&U_EDGE) }, out),
        Wire::Sleb => sleb(if rng.chance(40) { rng.below(5) as i64 - 2 } else { *rng.pick(&S_EDGE) }, out),
        Wire::Str | Wire::Bytes => {
            let mut payload: Vec<u8> = match rng.below(8) {
                0 => vec![],
                1 => "é".as_bytes().to_vec(),
                2 => "😀x".as_bytes().to_vec(),
                3 => vec![b'a'; rng.range(1, 200)],
                4..=5 => rng.pick(&BAD_UTF8).to_vec(),
                _ => format!("v{}", rng.below(3)).into_bytes(),
            };
            if rng.chance(15) {
                // bad bytes in the middle or at the end of otherwise valid text
                let at = rng.below(payload.len() + 1);
                let bad = rng.pick(&BAD_UTF8).to_vec();
                payload.splice(at..at, bad);
            }
            let claimed = match rng.below(20) {
                0 => payload.len() as u64 + rng.range(1, 5) as u64,
                1 => payload.len().saturating_sub(1) as u64,
                2 => *rng.pick(&[1u64 << 32, 1 << 40, (1 << 63) - 1, u64::MAX]),
                _ => payload.len() as u64,
            };
            uleb(claimed, out);
            out.extend_from_slice(&payload);
        }
    }
}

/// A hand-built (often non-canonical or hostile) encoding for `wire`.
pub fn craft(rng: &mut Rng, wire: Wire) -> (Vec<u8>, String) {
    let mut out = vec![];
    let mut desc = vec![];
    if wire == Wire::Bool {
        let k = rng.below(8);
        for _ in 0..k {
            if rng.chance(6) {
                desc.push(format!("badleb:{}", bad_leb(rng, &mut out)));
                continue;
            }
            let c = match rng.below(10) {
                0 => 0,
                1 => *rng.pick(&U_EDGE),
                2 => rng.range(64, 5000) as u64,
                _ => rng.range(1, 9) as u64,
            };
            desc.push(format!("{c}"));
            uleb(c, &mut out);
        }
        return (out, format!("bool counts [{}]", desc.join(",")));
    }
    let k = rng.range(0, 7);
    let mut last: Option<Vec<u8>> = None;
    for _ in 0..k {
        match rng.below(12) {
            0..=3 => {
                // repeat run
                let c: i64 = match rng.below(10) {
                    0 => 1,
                    1 => *rng.pick(&[1i64 << 31, 1 << 32, 1 << 40, 1 << 62, i64::MAX, i64::MAX - 1]),
                    2 => rng.range(64, 100_000) as i64,
                    _ => rng.range(2, 9) as i64,
                };
                sleb(c, &mut out);
                let mut v = vec![];
                if let (Some(l), true) = (&last, rng.chance(15)) {
                    v = l.clone(); // same value as the previous segment (mergeable)
                } else {
                    value(rng, wire, &mut v);
                }
                out.extend_from_slice(&v);
                last = Some(v);
                desc.push(format!("run*{c}"));
            }
            4..=7 => {
                // literal run
                let n = rng.range(1, 6) as i64;
                let claimed = match rng.below(12) {
                    0 => n + 1,
                    1 => *rng.pick(&[i64::MAX, 1 << 40, 1 << 32]),
                    _ => n,
                };
                sleb(-claimed, &mut out);
                for i in 0..n {
                    let mut v = vec![];
                    if let (Some(l), true) = (&last, rng.chance(if i == 0 { 10 } else { 15 })) {
                        v = l.clone(); // equal neighbours inside a literal (non-canonical)
                    } else {
                        value(rng, wire, &mut v);
                    }
                    out.extend_from_slice(&v);
                    last = Some(v);
                }
                desc.push(format!("lit*{n}(claims {claimed})"));
            }
            8..=9 => {
                // null run
                out.push(0);
                let c = match rng.below(8) {
                    0 => 0,
                    1 => *rng.pick(&U_EDGE),
                    _ => rng.range(1, 70) as u64,
                };
                uleb(c, &mut out);
                last = None;
                desc.push(format!("null*{c}"));
            }
            10 => {
                sleb(*rng.pick(&[i64::MIN, i64::MIN + 1, -(1 << 62)]), &mut out);
                desc.push("lit*huge".into());
            }
            _ => {
                desc.push(format!("badleb:{}", bad_leb(rng, &mut out)));
            }
        }
    }
    if rng.chance(10) {
        let cut = rng.below(out.len() + 1);
        out.truncate(cut);
        desc.push(format!("cut@{cut}"));
    }
    (out, format!("{wire:?} [{}]", desc.join(",")))
}

/// Delta-overflow flavoured streams (signed values whose running sum leaves i64 or the type's domain).
pub fn craft_delta(rng: &mut Rng) -> (Vec<u8>, String) {
    let mut out = vec![];
    let mut desc = vec![];
    let k = rng.range(1, 5);
    for _ in 0..k {
        let d = *rng.pick(&[i64::MAX, i64::MAX - 1, i64::MIN, i64::MIN + 1, 1 << 62, -(1 << 62), 1, -1, 0, (1 << 32), -(1 << 32), 5]);
        match rng.below(4) {
            0 => {
                let c = *rng.pick(&[2i64, 3, 1 << 20, 1 << 33, 1 << 62, i64::MAX]);
                sleb(c, &mut out);
                sleb(d, &mut out);
                desc.push(format!("{d}x{c}"));
            }
            1 => {
                out.push(0);
                let c = rng.range(1, 5) as u64;
                uleb(c, &mut out);
                desc.push(format!("null*{c}"));
            }
            _ => {
                let d2 = *rng.pick(&[i64::MAX, i64::MIN, 1 << 62, -(1 << 62), 7, -7]);
                sleb(-2, &mut out);
                sleb(d, &mut out);
                sleb(d2, &mut out);
                desc.push(format!("lit[{d},{d2}]"));
            }
        }
    }
    (out, format!("delta [{}]", desc.join(",")))
}

/// Apply 1..=8 byte-level mutations. Returns (description, number of edits).
pub fn mutate(rng: &mut Rng, bytes: &mut Vec<u8>) -> (String, usize) {
    let n = match rng.below(10) {
        0..=4 => 1,
        5..=7 => 2,
        8 => rng.range(3, 5),
        _ => rng.range(5, 8),
    };
    let mut desc = vec![];
    for _ in 0..n {
        let len = bytes.len();
        match rng.below(14) {
            0..=2 if len > 0 => {
                let i = rng.below(len);
                let bit = rng.below(8);
                bytes[i] ^= 1 << bit;
                desc.push(format!("flip {i}.{bit}"));
            }
            3..=4 if len > 0 => {
                let i = rng.below(len);
                let v = *rng.pick(&[0u8, 1, 2, 0x3f, 0x40, 0x7e, 0x7f, 0x80, 0x81, 0xc3, 0xff]);
                bytes[i] = v;
                desc.push(format!("set {i}={v:02x}"));
            }
            5 if len > 0 => {
                let i = rng.below(len + 1);
                bytes.truncate(i);
                desc.push(format!("truncate {i}"));
            }
            6 if len > 0 => {
                let i = rng.below(len);
                let k = rng.range(1, (len - i).min(4));
                bytes.drain(i..i + k);
                desc.push(format!("delete {i}+{k}"));
            }
            7 => {
                let i = rng.below(len + 1);
                let k = rng.range(1, 3);
                let ins: Vec<u8> = (0..k).map(|_| *rng.pick(&[0u8, 1, 2, 0x7f, 0x80, 0xff, 0x7e, 0x03])).collect();
                bytes.splice(i..i, ins);
                desc.push(format!("insert {i}+{k}"));
            }
            8 => {
                let i = rng.below(len + 1);
                let mut b = vec![];
                let what = bad_leb(rng, &mut b);
                bytes.splice(i..i, b);
                desc.push(format!("insert bad leb {what} at {i}"));
            }
            9 => {
                // a null run in the middle
                let i = rng.below(len + 1);
                let mut b = vec![0u8];
                uleb(*rng.pick(&[0u64, 1, 3, 1 << 40]), &mut b);
                bytes.splice(i..i, b);
                desc.push(format!("insert null run at {i}"));
            }
            10 if len > 1 => {
                let i = rng.below(len - 1);
                let k = rng.range(1, (len - i).min(6));
                let dup = bytes[i..i + k].to_vec();
                bytes.splice(i..i, dup);
                desc.push(format!("duplicate {i}+{k}"));
            }
            11 if len > 0 => {
                // rewrite what may be a run header with another count
                let i = rng.below(len.min(3));
                let mut b = vec![];
                sleb(*rng.pick(&[0i64, 1, -1, 2, -2, 64, -64, i64::MAX, i64::MIN, 1 << 32]), &mut b);
                bytes.splice(i..i + 1, b);
                desc.push(format!("rewrite header at {i}"));
            }
            12 if len > 0 => {
                // invalid UTF-8 somewhere
                let i = rng.below(len);
                let bad = rng.pick(&BAD_UTF8).to_vec();
                let k = bad.len().min(len - i);
                bytes[i..i + k].copy_from_slice(&bad[..k]);
                desc.push(format!("bad utf8 at {i}"));
            }
            _ => {
                let k = rng.range(1, 4);
                let tail = rng.bytes(k);
                bytes.extend(tail);
                desc.push(format!("append {k}"));
            }
        }
    }
    (desc.join("; "), n)
}

/// Arbitrary bytes, biased to small values so LEBs terminate.
pub fn arbitrary(rng: &mut Rng) -> Vec<u8> {
    let n = match rng.below(6) {
        0 => 0,
        1 => rng.range(1, 3),
        2..=4 => rng.range(3, 24),
        _ => rng.range(24, 200),
    };
    let style = rng.below(3);
    (0..n)
        .map(|_| match style {
            0 => rng.next() as u8,
            1 => (rng.next() % 8) as u8,
            _ => *rng.pick(&[0u8, 1, 2, 3, 0x7f, 0x7e, 0x80, 0xff, 0x41, 0xc3]),
        })
        .collect()
}
