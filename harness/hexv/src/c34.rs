//! C34 — Hexane columns behave like vectors under any edits.
use crate::raw;
use crate::tgt::*;
use crate::vals::*;
use amv::fw::*;
use hexane::{Column, DeltaColumn, PrefixColumn, Splice};
use serde_json::json;

pub struct C34;

// ---------------------------------------------------------------------------
// Ops
// ---------------------------------------------------------------------------

#[derive(Clone, Debug)]
pub enum Op<V> {
    Insert(usize, V),
    Remove(usize),
    RemoveN(usize, usize),
    Push(V),
    Truncate(usize),
    Clear,
    Splice(usize, usize, Vec<V>),
    SpliceRuns(usize, usize, Vec<(V, usize)>),
    Extend(Vec<V>),
    SpliceFrom { index: usize, del: usize, src: Vec<V>, src_ms: usize, range: std::ops::Range<usize> },
    CopyRanges { src: Vec<V>, src_ms: usize, splices: Vec<(usize, usize, std::ops::Range<usize>)> },
    Edit(Vec<EditStep<V>>),
    Reload(Option<usize>),
}

impl<V: Val> Op<V> {
    pub fn kind(&self) -> &'static str {
        match self {
            Op::Insert(..) => "insert",
            Op::Remove(..) => "remove",
            Op::RemoveN(..) => "remove_n",
            Op::Push(..) => "push",
            Op::Truncate(..) => "truncate",
            Op::Clear => "clear",
            Op::Splice(..) => "splice",
            Op::SpliceRuns(..) => "splice_runs",
            Op::Extend(..) => "extend",
            Op::SpliceFrom { .. } => "splice_runs_from_iter",
            Op::CopyRanges { .. } => "copy_ranges",
            Op::Edit(..) => "edit_cursor",
            Op::Reload(..) => "reload",
        }
    }
    pub fn show(&self) -> String {
        match self {
            Op::Insert(i, v) => format!("insert({i},{})", v.show()),
            Op::Remove(i) => format!("remove({i})"),
            Op::RemoveN(i, n) => format!("remove_n({i},{n})"),
            Op::Push(v) => format!("push({})", v.show()),
            Op::Truncate(n) => format!("truncate({n})"),
            Op::Clear => "clear()".into(),
            Op::Splice(i, d, v) => format!("splice({i},{d},{})", show_list(v)),
            Op::SpliceRuns(i, d, r) => format!(
                "splice_runs({i},{d},[{}])",
                r.iter().map(|(v, n)| format!("{}x{n}", v.show())).collect::<Vec<_>>().join(",")
            ),
            Op::Extend(v) => format!("extend({})", show_list(v)),
            Op::SpliceFrom { index, del, src, src_ms, range } => {
                format!("splice_runs({index},{del},src(ms={src_ms},{}).iter_range({range:?}).runs())", show_list(src))
            }
            Op::CopyRanges { src, src_ms, splices } => format!(
                "copy_ranges(src(ms={src_ms},{}),[{}])",
                show_list(src),
                splices.iter().map(|(p, d, r)| format!("pos={p} del={d} range={}..{}", r.start, r.end)).collect::<Vec<_>>().join("; ")
            ),
            Op::Edit(s) => format!(
                "edit()[{}]",
                s.iter()
                    .map(|e| match e {
                        EditStep::Seek(t) => format!("seek({t})"),
                        EditStep::Advance(n) => format!("advance({n})"),
                        EditStep::Delete(n) => format!("delete({n})"),
                        EditStep::Insert(v) => format!("insert({})", v.show()),
                        EditStep::InsertRun(v, n) => format!("insert_run({},{n})", v.show()),
                        EditStep::Peek => "peek".into(),
                        EditStep::Replace(v) => format!("replace({})", v.show()),
                    })
                    .collect::<Vec<_>>()
                    .join(".")
            ),
            Op::Reload(ms) => format!("reload(load(save), max_segments={ms:?})"),
        }
    }
}

/// Apply an edit script to the model; returns (new contents, expected peeks).
pub fn model_edit<V: Val>(orig: &[V], script: &[EditStep<V>]) -> (Vec<V>, Vec<Option<V>>) {
    let mut out = Vec::with_capacity(orig.len() + 8);
    let mut peeks = vec![];
    let mut c = 0usize;
    for s in script {
        match s {
            EditStep::Seek(to) => {
                out.extend_from_slice(&orig[c..*to]);
                c = *to;
            }
            EditStep::Advance(n) => {
                out.extend_from_slice(&orig[c..c + n]);
                c += n;
            }
            EditStep::Delete(n) => c += n,
            EditStep::Insert(v) => out.push(v.clone()),
            EditStep::InsertRun(v, n) => {
                for _ in 0..*n {
                    out.push(v.clone());
                }
            }
            EditStep::Peek => peeks.push(orig.get(c).cloned()),
            EditStep::Replace(v) => {
                if c < orig.len() {
                    out.push(v.clone());
                    c += 1;
                }
            }
        }
    }
    out.extend_from_slice(&orig[c..]);
    (out, peeks)
}

/// Apply an op to the model. Returns expected peeks for edit scripts.
pub fn apply_model<V: Val>(model: &mut Vec<V>, op: &Op<V>) -> Vec<Option<V>> {
    match op {
        Op::Insert(i, v) => model.insert(*i, v.clone()),
        Op::Remove(i) => {
            if *i < model.len() {
                model.remove(*i);
            }
        }
        Op::RemoveN(i, n) => {
            model.drain(*i..*i + *n);
        }
        Op::Push(v) => model.push(v.clone()),
        Op::Truncate(n) => model.truncate(*n),
        Op::Clear => model.clear(),
        Op::Splice(i, d, v) => {
            model.splice(*i..*i + *d, v.iter().cloned());
        }
        Op::SpliceRuns(i, d, runs) => {
            let mut flat = vec![];
            for (v, n) in runs {
                for _ in 0..*n {
                    flat.push(v.clone());
                }
            }
            model.splice(*i..*i + *d, flat);
        }
        Op::Extend(v) => model.extend(v.iter().cloned()),
        Op::SpliceFrom { index, del, src, range, .. } => {
            let a = range.start.min(src.len());
            let b = range.end.min(src.len()).max(a);
            model.splice(*index..*index + *del, src[a..b].iter().cloned());
        }
        Op::CopyRanges { src, splices, .. } => {
            for (pos, del, r) in splices.iter().rev() {
                let a = r.start.min(src.len());
                let b = r.end.min(src.len()).max(a);
                model.splice(*pos..*pos + *del, src[a..b].iter().cloned());
            }
        }
        Op::Edit(s) => {
            let (out, peeks) = model_edit(model, s);
            *model = out;
            return peeks;
        }
        Op::Reload(_) => {}
    }
    vec![]
}

fn build_src<K: Tgt>(vals: &[K::V], ms: usize) -> K {
    let mut s = K::new(ms);
    if !vals.is_empty() {
        s.splice(0, 0, vals.to_vec());
    }
    s
}

/// Apply an op to the column. `Err` = reload refused (not a C34 matter).
pub fn apply_col<K: Tgt>(col: &mut K, op: &Op<K::V>) -> Result<Vec<Option<K::V>>, String> {
    match op {
        Op::Insert(i, v) => col.insert(*i, v.clone()),
        Op::Remove(i) => col.remove(*i),
        Op::RemoveN(i, n) => col.remove_n(*i, *n),
        Op::Push(v) => col.push(v.clone()),
        Op::Truncate(n) => col.truncate(*n),
        Op::Clear => col.clear(),
        Op::Splice(i, d, v) => col.splice(*i, *d, v.clone()),
        Op::SpliceRuns(i, d, r) => col.splice_runs(*i, *d, r.clone()),
        Op::Extend(v) => col.extend(v.clone()),
        Op::SpliceFrom { index, del, src, src_ms, range } => {
            let s: K = build_src(src, *src_ms);
            col.splice_from(*index, *del, &s, range.clone());
        }
        Op::CopyRanges { src, src_ms, splices } => {
            let s: K = build_src(src, *src_ms);
            col.copy_ranges(s, splices.iter().map(|(pos, delete, range)| Splice { pos: *pos, delete: *delete, range: range.clone() }).collect());
        }
        Op::Edit(s) => return Ok(col.edit(s)),
        Op::Reload(ms) => {
            let bytes = col.save();
            let loaded = match ms {
                None => K::load(&bytes),
                Some(m) => K::load_ms(&bytes, *m),
            };
            match loaded {
                Ok(c) => *col = c,
                Err(e) => return Err(e),
            }
        }
    }
    Ok(vec![])
}

// ---------------------------------------------------------------------------
// Op generation
// ---------------------------------------------------------------------------

pub struct Gen<V> {
    pub dom: Dom,
    pub ms: usize,
    pub alphabet: Vec<V>,
    pub max_len: usize,
    pub last: usize,
    /// never generate edit-cursor scripts (C35 builds of delta columns: a panicking
    /// cursor op double-panics in the cursor's Drop and aborts the worker)
    pub no_cursor: bool,
    /// delta columns over a nearly full-width window: copy_ranges (which drives a cursor
    /// inside hexane) mostly ends in the known overflow abort, so it is generated less often
    pub rare_copy: bool,
}

impl<V: Val> Gen<V> {
    pub fn new(rng: &mut Rng, dom: Dom, ms: usize, max_len: usize) -> Self {
        let k = rng.range(1, 4);
        let mut alphabet = V::batch(rng, k, dom);
        if alphabet.is_empty() {
            alphabet = V::batch(rng, 1, dom);
        }
        Gen { dom, ms, alphabet, max_len, last: 0, no_cursor: false, rare_copy: false }
    }
    fn index(&mut self, rng: &mut Rng, len: usize) -> usize {
        let i = match rng.below(10) {
            0..=1 => len,
            2 => 0,
            3..=4 => (self.last + rng.below(3)).min(len),
            _ => rng.below(len + 1),
        };
        self.last = i;
        i
    }
    fn one(&mut self, rng: &mut Rng, model: &[V], near: usize) -> V {
        match rng.below(10) {
            0..=3 => rng.pick(&self.alphabet).clone(),
            4..=6 if !model.is_empty() => {
                // extend or bridge an existing run
                let j = near.min(model.len() - 1);
                let j = if rng.chance(50) && j > 0 { j - 1 } else { j };
                model[j].clone()
            }
            _ => V::batch(rng, 1, self.dom).pop().unwrap(),
        }
    }
    fn count(rng: &mut Rng) -> usize {
        match rng.below(12) {
            0 => rng.range(64, 200),
            1 => rng.range(20, 70),
            2..=4 => rng.range(4, 12),
            5..=6 => 0,
            _ => rng.range(1, 3),
        }
    }
    fn batch(&mut self, rng: &mut Rng, model: &[V]) -> Vec<V> {
        let n = Self::count(rng);
        if n > 0 && rng.chance(25) {
            // a run of an alphabet value / a neighbour
            let v = self.one(rng, model, self.last);
            return vec![v; n];
        }
        V::batch(rng, n, self.dom)
    }
    fn del(rng: &mut Rng, avail: usize, grow: bool) -> usize {
        if avail == 0 {
            return 0;
        }
        let d = match rng.below(12) {
            0 => avail,
            1 => rng.range(0, avail.min(150)),
            2..=4 => rng.range(0, avail.min(8)),
            5..=7 => rng.range(0, avail.min(2)),
            _ => 0,
        };
        if grow {
            d.min(3)
        } else {
            d
        }
    }
    fn runs(&mut self, rng: &mut Rng, model: &[V]) -> Vec<(V, usize)> {
        let k = rng.range(0, 4);
        (0..k)
            .map(|_| {
                let v = self.one(rng, model, self.last);
                let n = match rng.below(8) {
                    0 => rng.range(64, 300),
                    1 => 0,
                    2..=3 => rng.range(2, 20),
                    _ => 1,
                };
                (v, n)
            })
            .collect()
    }

    pub fn op(&mut self, rng: &mut Rng, model: &[V]) -> Op<V> {
        let len = model.len();
        let shrink = len > self.max_len;
        let grow = len < 24;
        let w: [u32; 13] = if shrink { [2, 10, 20, 2, 8, 2, 6, 2, 0, 0, 0, 4, 1] } else { [14, 7, 6, 8, 2, 1, 16, 10, 4, 5, 5, 8, 2] };
        let mut w = w;
        if self.rare_copy && w[10] > 0 {
            w[10] = 1;
        }
        if self.no_cursor {
            w[11] = 0;
            w[10] = 0; // copy_ranges drives a cursor internally
        }
        match rng.weighted(&w) {
            0 => {
                let i = self.index(rng, len);
                Op::Insert(i, self.one(rng, model, i))
            }
            1 if len > 0 => Op::Remove(rng.below(len)),
            1 => Op::Push(self.one(rng, model, 0)),
            2 => {
                let i = self.index(rng, len);
                let n = if shrink { rng.range(0, (len - i).min(len / 2 + 1)) } else { Self::del(rng, len - i, grow) };
                Op::RemoveN(i, n)
            }
            3 => Op::Push(self.one(rng, model, len)),
            4 => Op::Truncate(if rng.chance(20) { len + rng.below(3) } else if shrink { len / 2 } else { len - rng.below(len.min(10) + 1) }),
            5 => Op::Clear,
            6 => {
                let i = self.index(rng, len);
                let d = Self::del(rng, len - i, grow);
                Op::Splice(i, d, if shrink { vec![] } else { self.batch(rng, model) })
            }
            7 => {
                let i = self.index(rng, len);
                let d = Self::del(rng, len - i, grow);
                Op::SpliceRuns(i, d, self.runs(rng, model))
            }
            8 => Op::Extend(self.batch(rng, model)),
            9 => {
                let i = self.index(rng, len);
                let d = Self::del(rng, len - i, grow);
                let n = rng.range(0, 120);
                let src = V::batch(rng, n, self.dom);
                let a = rng.below(n + 1);
                let b = if rng.chance(20) { n + rng.below(4) } else { rng.range(a, n) };
                Op::SpliceFrom { index: i, del: d, src, src_ms: self.src_ms(rng), range: a..b }
            }
            10 => {
                let n = match rng.below(6) {
                    0 => rng.range(150, 500),
                    1 => 0,
                    _ => rng.range(1, 120),
                };
                let src = V::batch(rng, n, self.dom);
                let k = rng.range(1, 4);
                let mut splices = vec![];
                let (mut dpos, mut spos) = (0usize, 0usize);
                for _ in 0..k {
                    let pos = dpos + if rng.chance(30) { 0 } else { rng.below(len - dpos + 1) };
                    let del = Self::del(rng, len - pos, false).min(40);
                    let s = spos + if rng.chance(40) { 0 } else { rng.below(n.saturating_sub(spos) + 1) };
                    let e = match rng.below(8) {
                        0 => s,
                        1 => usize::MAX,
                        2 => n + rng.below(3),
                        _ => s + rng.below(n.saturating_sub(s) + 1),
                    }
                    .max(s);
                    splices.push((pos, del, s..e));
                    dpos = pos + del;
                    spos = e;
                    if e == usize::MAX {
                        break;
                    }
                }
                Op::CopyRanges { src, src_ms: if rng.chance(75) { self.ms } else { self.src_ms(rng) }, splices }
            }
            11 => {
                // edit cursor script
                let mut script = vec![];
                let mut c = 0usize;
                let segs = rng.range(1, 6);
                for _ in 0..segs {
                    if c < len && rng.chance(85) {
                        let span = (len - c).min(if rng.chance(70) { 12 } else { len });
                        let to = c + rng.below(span + 1);
                        if rng.chance(80) {
                            script.push(EditStep::Seek(to));
                        } else {
                            script.push(EditStep::Advance(to - c));
                        }
                        c = to;
                    }
                    for _ in 0..rng.range(1, 3) {
                        match rng.below(10) {
                            0..=1 => script.push(EditStep::Peek),
                            2..=3 => {
                                let d = Self::del(rng, len - c, grow && !shrink).min(if shrink { 400 } else { 30 });
                                script.push(EditStep::Delete(d));
                                c += d;
                            }
                            4..=5 if !shrink => script.push(EditStep::Insert(self.one(rng, model, c))),
                            6 if !shrink => {
                                let n = match rng.below(5) {
                                    0 => rng.range(64, 150),
                                    1 => 0,
                                    _ => rng.range(1, 6),
                                };
                                script.push(EditStep::InsertRun(self.one(rng, model, c), n));
                            }
                            7..=8 => {
                                let v = if rng.chance(30) && c < len { model[c].clone() } else { self.one(rng, model, c) };
                                script.push(EditStep::Replace(v));
                                if c < len {
                                    c += 1;
                                }
                            }
                            _ => script.push(EditStep::Peek),
                        }
                    }
                }
                Op::Edit(script)
            }
            _ => Op::Reload(if rng.chance(70) { Some(self.ms) } else if rng.chance(50) { Some(rng.range(2, 16)) } else { None }),
        }
    }
    fn src_ms(&self, rng: &mut Rng) -> usize {
        *rng.pick(&[2usize, 3, 4, 6, 8, 16, 64])
    }
}

// ---------------------------------------------------------------------------
// The driver
// ---------------------------------------------------------------------------

pub struct Built<K: Tgt> {
    pub col: K,
    pub model: Vec<K::V>,
    pub ops: Vec<String>,
    pub kinds: Vec<&'static str>,
    pub ms: usize,
    pub dom: Dom,
    pub crossed_slabs: bool,
    pub saw_null: bool,
    pub saw_long_run: bool,
    pub dead: bool,
    /// a reload happened: slab layout comes from the loader, not from the merge policy
    pub reloaded: bool,
}

impl<K: Tgt> Built<K> {
    pub fn detail(&self, extra: serde_json::Value) -> serde_json::Value {
        let n = self.ops.len();
        let shown: Vec<&String> = self.ops.iter().skip(n.saturating_sub(400)).collect();
        json!({
            "column_type": K::NAME,
            "max_segments": self.ms,
            "value_domain": if self.dom.lo == 0 && self.dom.hi == 0 { "type default".to_string() } else { format!("{}..={}", self.dom.lo, self.dom.hi) },
            "ops_total": n,
            "ops_omitted_from_front": n - shown.len(),
            "ops": shown,
            "model_len": self.model.len(),
            "extra": extra,
        })
    }
    pub fn nontrivial(&self) -> bool {
        self.crossed_slabs || self.saw_null || self.saw_long_run
    }
    pub fn kind_hash(&self) -> u64 {
        let mut s = String::from(K::NAME);
        for k in &self.kinds {
            s.push('|');
            s.push_str(k);
        }
        hash_str(&s)
    }
}

pub fn pick_ms(rng: &mut Rng) -> usize {
    *rng.pick(&[2usize, 3, 4, 4, 4, 5, 6, 6, 8, 8, 8, 12, 16, 16, 64])
}

pub fn family_name<K: Tgt>() -> &'static str {
    match K::FAMILY {
        Family::Plain => "Column",
        Family::Prefix => "PrefixColumn",
        Family::Delta => "DeltaColumn",
    }
}

fn violation<K: Tgt>(cx: &mut Ctx, prop: &str, b: &Built<K>, q: &str, what: String, extra: serde_json::Value) {
    // coarse signature: column family + query (+ panic class); the exact type is in the text and detail
    let sig = format!("{prop}|{}|{q}", family_name::<K>());
    cx.violation(&sig, format!("{}: {what}", K::NAME), b.detail(extra));
}

/// Compare every read path with the model. Returns the number of case-ending problems
/// (wrong contents, panicking reads, broken invariants).
pub fn check_all<K: Tgt>(cx: &mut Ctx, prop: &str, b: &Built<K>, rng: &mut Rng, full: bool) -> usize {
    let mut bad = 0;
    let model = &b.model;
    let col = &b.col;
    let len = model.len();
    let r = catch(|| {
        let mut mis: Vec<Mis> = vec![];
        let mut counts: Vec<(&'static str, u64)> = vec![];
        if col.len() != len {
            mis.push(("len".into(), format!("len() = {}, model {}", col.len(), len)));
        }
        let v = col.to_vec();
        if v != *model {
            mis.push(("to_vec".into(), diff_text("to_vec()", &v, model)));
            return (mis, counts);
        }
        if !full {
            return (mis, counts);
        }
        counts.push(("full_checks", 1));
        let v = col.iter_all();
        if v != *model {
            mis.push(("iter".into(), diff_text("iter()", &v, model)));
        }
        // get(i) for all i, and one past the end
        for i in 0..len {
            let g = col.get(i);
            if g.as_ref() != Some(&model[i]) {
                mis.push(("get".into(), format!("get({i}) = {:?}, model {}", g.map(|x| x.show()), model[i].show())));
                break;
            }
        }
        if let Some(x) = col.get(len) {
            mis.push(("get".into(), format!("get({len}) = Some({}) at len {len}", x.show())));
        }
        counts.push(("gets", len as u64 + 1));
        // iter_range on random ranges (clamped past the end)
        for _ in 0..3 {
            let a = rng.below(len + 2);
            let bnd = if rng.chance(15) { len + rng.below(5) } else { rng.range(a.min(len), len) };
            let e = bnd.max(a);
            let got = col.iter_range(a..e);
            let exp = &model[a.min(len)..e.min(len)];
            counts.push(("iter_ranges", 1));
            if got[..] != *exp {
                mis.push(("iter_range".into(), diff_text(&format!("iter_range({a}..{e})"), &got, exp)));
            }
        }
        // runs, expanded
        {
            let (a, e) = if rng.chance(50) {
                (0, len)
            } else {
                let a = rng.below(len + 1);
                (a, rng.range(a, len))
            };
            let runs = col.runs(a..e);
            let mut flat = Vec::with_capacity(e - a);
            let mut zero = false;
            for (v, n) in &runs {
                zero |= *n == 0;
                for _ in 0..*n {
                    flat.push(v.clone());
                    if flat.len() > len + 8 {
                        break;
                    }
                }
            }
            counts.push(("run_iterations", 1));
            if zero {
                mis.push(("runs".into(), format!("iter_range({a}..{e}).runs() yielded a run with count 0")));
            }
            if flat[..] != model[a..e] {
                mis.push(("runs".into(), diff_text(&format!("iter_range({a}..{e}).runs() expanded"), &flat, &model[a..e])));
            }
        }
        // iterator walks
        for _ in 0..2 {
            match col.walk(model, rng) {
                Ok(n) => counts.push(("iter_walk_steps", n as u64)),
                Err(m) => mis.push(m),
            }
        }
        col.extra(model, b.dom, rng, &mut mis, &mut counts);
        (mis, counts)
    });
    match r {
        Err(p) => {
            bad += 1;
            violation(cx, prop, b, &format!("read|{}", panic_sig(&p)), format!("a read query panicked: {p}"), json!({}));
        }
        Ok((mis, counts)) => {
            for (k, n) in counts {
                cx.add(k, n);
            }
            for (q, text) in mis {
                // a query disagreement is reported but does not end the case; wrong contents do
                if matches!(q.as_str(), "len" | "to_vec" | "iter" | "get" | "iter_range" | "runs") {
                    bad += 1;
                }
                violation(cx, prop, b, &q, text, json!({}));
            }
        }
    }
    if full {
        if let Err(p) = catch(|| col.check_invariants()) {
            if b.reloaded && p.contains("should have been merged") {
                // the loader cuts slabs at max/2 and leaves a short tail; the merge-policy
                // clause of the debug helper only describes layouts produced by edits
                cx.count("merge_clause_skipped_after_load");
            } else {
            bad += 1;
            violation(cx, prop, b, &format!("check_invariants|{}", panic_sig(&p)), format!("check_invariants() panicked: {p}"), json!({}));
            }
        }
        match catch(|| col.validate_encoding()) {
            Err(p) => {
                bad += 1;
                violation(cx, prop, b, &format!("validate_encoding|{}", panic_sig(&p)), format!("validate_encoding() panicked: {p}"), json!({}));
            }
            Ok(Err(e)) => {
                bad += 1;
                violation(cx, prop, b, "validate_encoding", format!("validate_encoding() = Err({e})"), json!({}));
            }
            Ok(Ok(())) => {}
        }
        cx.count("invariant_checks");
    }
    bad
}

pub fn diff_text<V: Val>(what: &str, got: &[V], exp: &[V]) -> String {
    let i = got.iter().zip(exp.iter()).position(|(a, b)| a != b).unwrap_or(got.len().min(exp.len()));
    let a = i.saturating_sub(3);
    format!(
        "{what} differs from the Vec at index {i} (lengths {} vs {}): column …{} / Vec …{}",
        got.len(),
        exp.len(),
        show_list(&got[a.min(got.len())..(i + 5).min(got.len())]),
        show_list(&exp[a.min(exp.len())..(i + 5).min(exp.len())])
    )
}

/// Build a column by a random op sequence mirrored on a Vec. With `check`
/// the contents are compared after every op and all queries every k-th op.
thread_local! {
    /// when set, `drive` starts from a huge initial batch of tiny runs with max_segments = 2, so that
    /// the slab index (a B-tree over the slabs) grows several levels deep
    pub static HUGE: std::cell::Cell<bool> = const { std::cell::Cell::new(false) };
}

pub fn drive<K: Tgt>(cx: &mut Ctx, prop: &str, rng: &mut Rng, nops: usize, max_len: usize, check: bool) -> Built<K> {
    let huge = HUGE.with(|h| h.get());
    let ms = if huge { 2 } else { pick_ms(rng) };
    let doms = K::doms();
    let dom = *rng.pick(&doms);
    let mut b = Built::<K> {
        col: K::new(ms),
        model: vec![],
        ops: vec![],
        kinds: vec![],
        ms,
        dom,
        crossed_slabs: false,
        saw_null: false,
        saw_long_run: false,
        dead: false,
        reloaded: false,
    };
    let mut g = Gen::<K::V>::new(rng, dom, ms, max_len);
    g.no_cursor = !check && K::FAMILY == Family::Delta;
    g.rare_copy = K::FAMILY == Family::Delta && dom.hi - dom.lo > (1i128 << 62);
    let every = rng.range(1, 4);
    let mut slabs = b.col.slab_count();
    for step in 0..=nops {
        let op = if step == 0 {
            if !huge && rng.chance(30) {
                continue;
            }
            if huge {
                // thousands of runs of 1-3 values each
                let mut v = vec![];
                let target = rng.range(5000, 9000);
                while v.len() < target {
                    let k = rng.range(1, 3);
                    v.extend(K::V::batch(rng, k, dom));
                }
                Op::Splice(0, 0, v)
            } else {
                let n = rng.range(1, 150);
                Op::Splice(0, 0, K::V::batch(rng, n, dom))
            }
        } else {
            g.op(rng, &b.model)
        };
        b.ops.push(op.show());
        b.kinds.push(op.kind());
        cx.trace(|| format!("#{step} {}", op.show()));
        // a suspended iterator must not resume after a mutation
        let susp = if check && rng.chance(8) && !matches!(op, Op::Reload(_)) {
            let at = rng.below(b.model.len() + 1);
            Some((at, b.col.suspend_at(at), b.model.clone()))
        } else {
            None
        };
        let exp_peeks = apply_model(&mut b.model, &op);
        let r = {
            let col = &mut b.col;
            catch(|| apply_col(col, &op))
        };
        cx.count("ops_applied");
        match r {
            Err(p) => {
                if !check {
                    // contents and edit panics are judged by C34, not by the caller
                    cx.count("build_abandoned_by_panic");
                    b.dead = true;
                    return b;
                }
                violation(cx, prop, &b, &format!("op|{}", panic_sig(&p)), format!("{} panicked on arguments inside the documented preconditions: {p}", op.kind()), json!({"op": op.show()}));
                b.dead = true;
                return b;
            }
            Ok(Err(e)) => {
                // load(save()) refused: C35's business; undo nothing (model unchanged by Reload)
                cx.count("reload_refused");
                cx.trace(|| format!("reload refused: {e}"));
            }
            Ok(Ok(peeks)) => {
                if check && peeks != exp_peeks {
                    violation(
                        cx,
                        prop,
                        &b,
                        "edit.peek",
                        format!("edit cursor peek() values {:?} differ from the Vec {:?}", peeks.iter().map(|p| p.as_ref().map(|v| v.show())).collect::<Vec<_>>(), exp_peeks.iter().map(|p| p.as_ref().map(|v| v.show())).collect::<Vec<_>>()),
                        json!({}),
                    );
                }
            }
        }
        match &op {
            Op::CopyRanges { .. } => cx.count("copy_ranges_ops"),
            Op::Edit(_) => cx.count("edit_cursor_ops"),
            Op::Reload(_) => {
                cx.count("reload_ops");
                b.reloaded = true;
            }
            Op::SpliceRuns(..) | Op::SpliceFrom { .. } => cx.count("splice_runs_ops"),
            _ => {}
        }
        let now = b.col.slab_count();
        if now > slabs {
            cx.count("slab_splits_seen");
        }
        if now < slabs && !b.model.is_empty() {
            cx.count("slab_merges_seen");
        }
        if now != slabs || now > 1 {
            b.crossed_slabs = true;
        }
        cx.max("slab_count", now as u64);
        slabs = now;
        if let Some((at, s, old)) = susp {
            if old != b.model {
                match catch(|| s.resume(&b.col)) {
                    Err(p) => violation(cx, prop, &b, &format!("try_resume|{}", panic_sig(&p)), format!("try_resume after a mutation panicked: {p}"), json!({"suspended_at": at})),
                    Ok(Ok(_)) => violation(cx, prop, &b, "try_resume-after-mutation", format!("an iterator suspended at {at} before {} resumed Ok after the column changed (documented: InvalidResume)", op.kind()), json!({"suspended_at": at})),
                    Ok(Err(_)) => cx.count("resume_rejected_after_mutation"),
                }
            }
        }
        if check {
            let full = step % every == 0 || step == nops;
            if check_all(cx, prop, &b, rng, full) > 0 {
                b.dead = true;
                return b;
            }
        }
        if step % 16 == 0 || step == nops {
            if b.model.iter().any(|v| v.is_null()) {
                b.saw_null = true;
            }
            if longest_run(&b.model) >= 64 {
                b.saw_long_run = true;
            }
        }
    }
    b
}

fn run_type<K: Tgt>(cx: &mut Ctx, rng: &mut Rng, counter: &'static str) {
    let thorough = cx.tier == Tier::Thorough;
    let nops = if thorough {
        match rng.below(10) {
            0 => rng.range(800, 2000),
            1..=3 => rng.range(200, 800),
            _ => rng.range(20, 200),
        }
    } else {
        match rng.below(10) {
            0..=1 => rng.range(120, 200),
            _ => rng.range(20, 120),
        }
    };
    let max_len = if thorough { 3000 } else { 900 };
    // one case in 48 starts from a huge column (slab index several levels deep) and applies few ops
    let huge = rng.chance(2) && K::NAME != "RawColumn";
    let (nops, max_len) = if huge { (rng.range(8, 30), 12_000) } else { (nops, max_len) };
    HUGE.with(|h| h.set(huge));
    let b = drive::<K>(cx, "c34", rng, nops, max_len, true);
    HUGE.with(|h| h.set(false));
    if huge {
        cx.count("huge_columns");
        cx.max("slab_count_huge", b.col.slab_count() as u64);
    }
    cx.count(counter);
    if b.saw_null {
        cx.count("nulls_seen");
    }
    if b.saw_long_run {
        cx.count("long_runs_seen");
    }
    if b.nontrivial() {
        cx.nontrivial(b.kind_hash());
    }
    cx.sample(|| json!({"column_type": K::NAME, "max_segments": b.ms, "ops": b.ops.len(), "final_len": b.model.len(), "slabs": b.col.slab_count(), "first_ops": b.ops.iter().take(6).collect::<Vec<_>>()}));
}

pub struct Entry {
    pub name: &'static str,
    pub counter: &'static str,
    pub run: fn(&mut Ctx, &mut Rng, &'static str),
}

macro_rules! entry {
    ($t:ty, $name:expr) => {
        Entry { name: $name, counter: concat!("type:", $name), run: run_type::<$t> }
    };
}

pub fn entries() -> Vec<Entry> {
    vec![
        entry!(Column<u32>, "Column<u32>"),
        entry!(Column<u64>, "Column<u64>"),
        entry!(Column<i64>, "Column<i64>"),
        entry!(Column<usize>, "Column<usize>"),
        entry!(Column<String>, "Column<String>"),
        entry!(Column<Vec<u8>>, "Column<Vec<u8>>"),
        entry!(Column<bool>, "Column<bool>"),
        entry!(Column<Option<u32>>, "Column<Option<u32>>"),
        entry!(Column<Option<u64>>, "Column<Option<u64>>"),
        entry!(Column<Option<i64>>, "Column<Option<i64>>"),
        entry!(Column<Option<usize>>, "Column<Option<usize>>"),
        entry!(Column<Option<String>>, "Column<Option<String>>"),
        entry!(Column<Option<Vec<u8>>>, "Column<Option<Vec<u8>>>"),
        entry!(PrefixColumn<u32>, "PrefixColumn<u32>"),
        entry!(PrefixColumn<u64>, "PrefixColumn<u64>"),
        entry!(PrefixColumn<bool>, "PrefixColumn<bool>"),
        entry!(PrefixColumn<Option<u32>>, "PrefixColumn<Option<u32>>"),
        entry!(PrefixColumn<Option<u64>>, "PrefixColumn<Option<u64>>"),
        entry!(DeltaColumn<u64>, "DeltaColumn<u64>"),
        entry!(DeltaColumn<i64>, "DeltaColumn<i64>"),
        entry!(DeltaColumn<u32>, "DeltaColumn<u32>"),
        entry!(DeltaColumn<Option<u64>>, "DeltaColumn<Option<u64>>"),
        entry!(DeltaColumn<Option<i64>>, "DeltaColumn<Option<i64>>"),
        Entry { name: "RawColumn", counter: "type:RawColumn", run: raw::run_c34 },
    ]
}

impl Check for C34 {
    fn id(&self) -> &'static str {
        "C34"
    }
    fn cases(&self, tier: Tier) -> u64 {
        tier.pick(6000, 80_000)
    }
    fn budget_s(&self, tier: Tier) -> u64 {
        tier.pick(8, 340)
    }
    fn min_nontrivial(&self, tier: Tier) -> u64 {
        tier.pick(200, 2000)
    }
    fn panic_is_violation(&self) -> bool {
        // an edit inside the documented preconditions that panics (or aborts the process
        // through a second panic in a cursor's Drop) leaves the column unequal to the Vec
        true
    }
    fn rule(&self) -> String {
        "case n drives column type n mod 24 (13 Column<T>, 5 PrefixColumn<T>, 5 DeltaColumn<T>, RawColumn) built with max_segments in {2..16,64} (one case in ~50 instead starts from 5000-9000 values in runs of 1-3 with max_segments = 2, so that the slab index is several levels deep, and applies 8-30 ops): an optional initial batch, then 20-200 (thorough: up to 2000) random insert/remove/remove_n/push/truncate/clear/splice/splice_runs/extend/copy_ranges/edit-cursor/reload ops mirrored on a Vec (values: long runs, alternation, progressions, sorted batches, boundary integers inside the documented domain, nulls, strings of length 0/127/128/16384). After every op len and to_vec are compared; every k-th op (k in 1..4) also iter, get(i) for all i, iter_range, runs expanded, scripted iterator walks (next/nth/advance_to/advance_by/set_max/shift/shift_next/next_run/suspend+try_resume/scan_to_value), prefix sums and inverse lookups, find_by_value/find_first/find_by_range, scope_to_value on sorted windows, check_invariants and validate_encoding. Non-trivial = slab count changed or >1, or a run >= 64, or a null present; distinct by (column type, hash of the op-kind sequence).".into()
    }
    fn required_counters(&self) -> Vec<&'static str> {
        let mut v = vec![
            "huge_columns",
            "slab_splits_seen",
            "slab_merges_seen",
            "nulls_seen",
            "long_runs_seen",
            "full_checks",
            "invariant_checks",
            "iter_walk_steps",
            "prefix_queries",
            "find_queries",
            "scope_queries",
            "copy_ranges_ops",
            "edit_cursor_ops",
            "splice_runs_ops",
            "reload_ops",
            "resume_rejected_after_mutation",
            "raw_reads",
        ];
        for e in entries() {
            v.push(e.counter);
        }
        v
    }
    fn assumptions(&self) -> Vec<String> {
        vec![
            "DeltaColumn values are kept inside one 2^63-wide window per case (the documented domain); query targets stay inside that window except the explicitly labelled wide-bounds find_by_range probe".into(),
            "run iteration is only required to expand to the Vec contents (maximal runs are not assumed)".into(),
        ]
    }
    fn run_case(&self, cx: &mut Ctx, case: u64, rng: &mut Rng) {
        let es = entries();
        let e = &es[(case % es.len() as u64) as usize];
        (e.run)(cx, rng, e.counter);
    }
}
