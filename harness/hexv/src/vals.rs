//! Value model: owned value types stored in the `Vec` mirror, plus generators
//! for batches of values (long runs, alternation, progressions, boundary
//! values, nulls, odd string lengths).
use amv::fw::{fnv, Rng};

/// An owned column value as held in the `Vec` model.
pub trait Val: Clone + PartialEq + PartialOrd + std::fmt::Debug + 'static {
    /// compact rendering for op logs
    fn show(&self) -> String;
    fn is_null(&self) -> bool {
        false
    }
    /// contribution of the value to a prefix sum (None for null)
    fn weight(&self) -> i128 {
        0
    }
    /// the value as an i64 (delta columns); None for null / non-integers
    fn as_i64(&self) -> Option<i64> {
        None
    }
    /// generate a batch of `n` values in domain `dom`
    fn batch(rng: &mut Rng, n: usize, dom: Dom) -> Vec<Self>;
}

/// Integer domain of a case (inclusive bounds).
#[derive(Clone, Copy, Debug)]
pub struct Dom {
    pub lo: i128,
    pub hi: i128,
}

impl Dom {
    pub const fn new(lo: i128, hi: i128) -> Dom {
        Dom { lo, hi }
    }
    pub const ANY: Dom = Dom { lo: 0, hi: 0 };
}

const BOUNDARY: [i128; 30] = [
    0,
    1,
    2,
    -1,
    -2,
    63,
    64,
    -64,
    -65,
    127,
    128,
    255,
    256,
    16383,
    16384,
    (1 << 31) - 1,
    1 << 31,
    (1 << 32) - 1,
    1 << 32,
    -(1 << 31),
    1 << 53,
    1 << 62,
    (1 << 62) - 1,
    -(1 << 62),
    (1 << 63) - 1,
    -(1 << 63),
    -(1 << 63) + 1,
    1 << 63,
    (1 << 64) - 1,
    (1 << 64) - 2,
];

fn clampd(v: i128, d: Dom) -> i128 {
    v.max(d.lo).min(d.hi)
}

fn pick_int(rng: &mut Rng, d: Dom) -> i128 {
    match rng.below(10) {
        0..=3 => {
            // small offsets from the low end / zero
            let base = if d.lo <= 0 && d.hi >= 0 { 0 } else { d.lo };
            clampd(base + rng.below(8) as i128, d)
        }
        4..=6 => {
            // a boundary value inside the domain
            for _ in 0..8 {
                let b = *rng.pick(&BOUNDARY);
                if b >= d.lo && b <= d.hi {
                    return b;
                }
            }
            if rng.chance(50) {
                d.lo
            } else {
                d.hi
            }
        }
        7 => match rng.below(4) {
            0 => d.lo,
            1 => d.hi,
            2 => clampd(d.lo + 1, d),
            _ => clampd(d.hi - 1, d),
        },
        _ => {
            // uniform-ish over the width
            let w = (d.hi - d.lo) as u128;
            let r = ((rng.next() as u128) << 64 | rng.next() as u128) % (w + 1);
            d.lo + r as i128
        }
    }
}

/// A batch of integers inside `d` with a random shape.
pub fn int_batch(rng: &mut Rng, n: usize, d: Dom) -> Vec<i128> {
    if n == 0 {
        return vec![];
    }
    match rng.weighted(&[20, 12, 22, 14, 12, 10, 10]) {
        0 => vec![pick_int(rng, d); n], // one run
        1 => {
            let (a, b) = (pick_int(rng, d), pick_int(rng, d));
            (0..n).map(|i| if i % 2 == 0 { a } else { b }).collect()
        }
        2 => {
            // small alphabet, runs of random length
            let k = rng.range(2, 4);
            let alpha: Vec<i128> = (0..k).map(|_| pick_int(rng, d)).collect();
            let mut out = Vec::with_capacity(n);
            while out.len() < n {
                let v = *rng.pick(&alpha);
                let r = match rng.below(6) {
                    0 => rng.range(1, 80),
                    1..=2 => rng.range(2, 6),
                    _ => 1,
                };
                for _ in 0..r.min(n - out.len()) {
                    out.push(v);
                }
            }
            out
        }
        3 => {
            // arithmetic progression (a delta run), constant once it would leave the domain
            let start = pick_int(rng, d);
            let step: i128 = match rng.below(6) {
                0 => 1,
                1 => -1,
                2 => rng.range(2, 1000) as i128,
                3 => -(rng.range(2, 1000) as i128),
                4 => 1 << rng.range(20, 55),
                _ => -(1 << rng.range(20, 55)),
            };
            let mut out = Vec::with_capacity(n);
            let mut cur = start;
            for _ in 0..n {
                out.push(cur);
                let nx = cur + step;
                if nx >= d.lo && nx <= d.hi {
                    cur = nx;
                }
            }
            out
        }
        4 => (0..n).map(|_| pick_int(rng, d)).collect(),
        5 => {
            // sorted, with repeats
            let mut v: Vec<i128> = (0..n).map(|_| pick_int(rng, d)).collect();
            if rng.chance(50) {
                let small: Vec<i128> = (0..n).map(|_| clampd(d.lo.max(0) + rng.below(6) as i128, d)).collect();
                v = small;
            }
            v.sort();
            v
        }
        _ => {
            // distinct small values (literal runs)
            let base = pick_int(rng, d);
            (0..n).map(|i| clampd(base + ((i * 7) % 13) as i128, d)).collect()
        }
    }
}

/// Turn a batch into a nullable batch with null runs.
pub fn with_nulls<T: Clone>(rng: &mut Rng, vals: Vec<T>) -> Vec<Option<T>> {
    let n = vals.len();
    match rng.weighted(&[15, 10, 40, 20, 15]) {
        0 => vec![None; n],
        1 => vals.into_iter().map(Some).collect(),
        2 => {
            // null runs interleaved with value runs
            let mut out = Vec::with_capacity(n);
            let mut null = rng.chance(50);
            let mut left = 0usize;
            for v in vals {
                if left == 0 {
                    null = !null;
                    left = match rng.below(5) {
                        0 => rng.range(1, 70),
                        1 => rng.range(2, 8),
                        _ => 1,
                    };
                }
                left -= 1;
                out.push(if null { None } else { Some(v) });
            }
            out
        }
        3 => {
            // nulls first (sorted order of Option)
            let k = rng.below(n + 1);
            vals.into_iter().enumerate().map(|(i, v)| if i < k { None } else { Some(v) }).collect()
        }
        _ => vals.into_iter().map(|v| if rng.chance(30) { None } else { Some(v) }).collect(),
    }
}

macro_rules! int_val {
    ($t:ty, $lo:expr, $hi:expr) => {
        impl Val for $t {
            fn show(&self) -> String {
                format!("{}", self)
            }
            fn weight(&self) -> i128 {
                *self as i128
            }
            fn as_i64(&self) -> Option<i64> {
                i64::try_from(*self).ok()
            }
            fn batch(rng: &mut Rng, n: usize, dom: Dom) -> Vec<Self> {
                let d = if dom.lo == 0 && dom.hi == 0 { Dom::new($lo as i128, $hi as i128) } else { dom };
                int_batch(rng, n, d).into_iter().map(|v| v as $t).collect()
            }
        }
    };
}
int_val!(u32, 0, u32::MAX);
int_val!(u64, 0, u64::MAX);
int_val!(i64, i64::MIN, i64::MAX);
int_val!(usize, 0, usize::MAX);

impl Val for bool {
    fn show(&self) -> String {
        if *self { "T".into() } else { "F".into() }
    }
    fn weight(&self) -> i128 {
        *self as i128
    }
    fn batch(rng: &mut Rng, n: usize, _dom: Dom) -> Vec<Self> {
        int_batch(rng, n, Dom::new(0, 1)).into_iter().map(|v| v != 0).collect()
    }
}

fn odd_len(rng: &mut Rng) -> usize {
    match rng.below(40) {
        0 => 16384,
        1 => 16383,
        2..=3 => 127,
        4..=5 => 128,
        6 => 129,
        7 => 300,
        8..=14 => 0,
        15..=25 => rng.range(1, 3),
        _ => rng.range(1, 12),
    }
}

const STR_ALPHA: [&str; 10] = ["", "a", "b", "ab", "é", "日本", "😀", "\u{0}", "hello world", "\u{7f}\u{80}"];

fn gen_string(rng: &mut Rng) -> String {
    if rng.chance(60) {
        return rng.pick(&STR_ALPHA).to_string();
    }
    let n = odd_len(rng);
    let unit: &str = *rng.pick(&["x", "é", "y", "😀", "z"]);
    let mut s = String::with_capacity(n + 4);
    while s.len() + unit.len() <= n {
        s.push_str(unit);
    }
    while s.len() < n {
        s.push('q');
    }
    s
}

fn gen_bytes(rng: &mut Rng) -> Vec<u8> {
    if rng.chance(50) {
        return rng.pick(&[&b""[..], &b"\x00"[..], &b"\xff"[..], &b"ab"[..], &b"\xc3"[..], &b"\x80\x80"[..]]).to_vec();
    }
    let n = odd_len(rng);
    let b = rng.next() as u8;
    if rng.chance(50) {
        vec![b; n]
    } else {
        (0..n).map(|i| b.wrapping_add(i as u8)).collect()
    }
}

/// shape a batch from an alphabet generator
fn alpha_batch<T: Clone + PartialOrd>(rng: &mut Rng, n: usize, mut g: impl FnMut(&mut Rng) -> T) -> Vec<T> {
    if n == 0 {
        return vec![];
    }
    let k = rng.range(1, 4);
    let alpha: Vec<T> = (0..k).map(|_| g(rng)).collect();
    let idx = int_batch(rng, n, Dom::new(0, k as i128 - 1));
    let mut out: Vec<T> = idx.into_iter().map(|i| alpha[i as usize].clone()).collect();
    if rng.chance(15) {
        out.sort_by(|a, b| a.partial_cmp(b).unwrap());
    }
    out
}

fn show_bytes(prefix: &str, b: &[u8]) -> String {
    if b.len() <= 10 {
        format!("{prefix}{}", hex::encode(b))
    } else {
        format!("{prefix}<{}:{:04x}>", b.len(), fnv(b) & 0xffff)
    }
}

impl Val for String {
    fn show(&self) -> String {
        show_bytes("s", self.as_bytes())
    }
    fn batch(rng: &mut Rng, n: usize, _dom: Dom) -> Vec<Self> {
        alpha_batch(rng, n, gen_string)
    }
}

impl Val for Vec<u8> {
    fn show(&self) -> String {
        show_bytes("b", self)
    }
    fn batch(rng: &mut Rng, n: usize, _dom: Dom) -> Vec<Self> {
        alpha_batch(rng, n, gen_bytes)
    }
}

impl<T: Val> Val for Option<T> {
    fn show(&self) -> String {
        match self {
            None => "~".into(),
            Some(v) => v.show(),
        }
    }
    fn is_null(&self) -> bool {
        self.is_none()
    }
    fn weight(&self) -> i128 {
        self.as_ref().map(|v| v.weight()).unwrap_or(0)
    }
    fn as_i64(&self) -> Option<i64> {
        self.as_ref().and_then(|v| v.as_i64())
    }
    fn batch(rng: &mut Rng, n: usize, dom: Dom) -> Vec<Self> {
        let v = T::batch(rng, n, dom);
        with_nulls(rng, v)
    }
}

/// run-length compact rendering of a value list
pub fn show_list<V: Val>(v: &[V]) -> String {
    let mut out = String::from("[");
    let mut i = 0;
    let mut groups = 0;
    while i < v.len() {
        let mut j = i + 1;
        while j < v.len() && v[j] == v[i] {
            j += 1;
        }
        if groups > 0 {
            out.push(',');
        }
        if groups >= 24 && std::env::var_os("HEXV_FULL").is_none() {
            out.push_str(&format!("…+{}", v.len() - i));
            break;
        }
        out.push_str(&v[i].show());
        if j - i > 1 {
            out.push_str(&format!("x{}", j - i));
        }
        groups += 1;
        i = j;
    }
    out.push(']');
    out
}

pub fn longest_run<V: PartialEq>(v: &[V]) -> usize {
    let mut best = 0;
    let mut i = 0;
    while i < v.len() {
        let mut j = i + 1;
        while j < v.len() && v[j] == v[i] {
            j += 1;
        }
        best = best.max(j - i);
        i = j;
    }
    best
}
