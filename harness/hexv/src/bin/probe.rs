//! Scratch probe: tiny deterministic reproductions against hexane's public API only.
use hexane::{Column, DeltaColumn, PrefixColumn};

fn try_<T>(name: &str, f: impl FnOnce() -> T + std::panic::UnwindSafe) -> Option<T> {
    match std::panic::catch_unwind(f) {
        Ok(v) => {
            println!("[ok]    {name}");
            Some(v)
        }
        Err(_) => {
            println!("[PANIC] {name}");
            None
        }
    }
}

fn main() {
    let which: Vec<String> = std::env::args().skip(1).collect();
    let on = |k: &str| which.is_empty() || which.iter().any(|w| w == k);

    if on("delta-max") {
        // i64::MAX is inside the documented domain of DeltaColumn<u64> (< 2^63)
        let m = i64::MAX as u64;
        let col = DeltaColumn::<u64>::from_values(vec![1, m, 5]);
        println!("to_vec = {:?}", col.to_vec());
        let r = try_("DeltaColumn<u64>::find_by_value(i64::MAX)", || col.find_by_value(m).collect::<Vec<_>>());
        println!("  -> {:?} (expected Some([1]))", r);
        let r = try_("DeltaColumn<u64>::find_first(i64::MAX)", || col.find_first(m));
        println!("  -> {:?}", r);
        let c2 = DeltaColumn::<i64>::from_values(vec![1, i64::MAX, 5]);
        let r = try_("DeltaColumn<i64>::find_by_value(i64::MAX)", || c2.find_by_value(i64::MAX).collect::<Vec<_>>());
        println!("  -> {:?}", r);
    }
    if on("delta-range") {
        let col = DeltaColumn::<i64>::from_values(vec![5, 7, 9, -3]);
        let r = try_("find_by_range(i64::MIN..i64::MAX)", || col.find_by_range(i64::MIN..i64::MAX).collect::<Vec<_>>());
        println!("  -> {:?} (expected [0,1,2,3])", r);
        let r = try_("find_by_range(-10..i64::MAX)", || col.find_by_range(-10i64..i64::MAX).collect::<Vec<_>>());
        println!("  -> {:?}", r);
        let r = try_("find_by_range(i64::MIN..10)", || col.find_by_range(i64::MIN..10).collect::<Vec<_>>());
        println!("  -> {:?}", r);
    }
    if on("delta-neg-window") {
        let r = try_("DeltaColumn<i64> window [MIN,-1]", || {
            let mut col = DeltaColumn::<i64>::with_max_segments(4);
            let vals = [i64::MIN, -1, i64::MIN + 5, -7, i64::MIN, -1];
            for v in vals {
                col.push(v);
            }
            col.remove(1);
            col.remove(2);
            col.check_invariants();
            col.to_vec()
        });
        println!("  -> {:?}", r);
    }
    if on("delta-load-window") {
        // realized values MIN+1, 0, MAX: each delta fits i64, values not within a 2^63 window
        let bytes = Column::<i64>::from_values(vec![i64::MIN + 1, i64::MAX, i64::MAX - 1]).save();
        let r = DeltaColumn::<i64>::load(&bytes);
        println!("load of out-of-window deltas: {:?}", r.as_ref().map(|c| c.to_vec()).map_err(|e| e.to_string()));
        if let Ok(mut c) = r {
            let _ = try_("remove(1) on loaded", move || {
                c.remove(1);
                c.to_vec()
            });
        }
    }
    if on("prefix") {
        let col = PrefixColumn::<u32>::from_values(vec![5, 3, 7, 2]);
        for t in 0..20u64 {
            print!("{}:{}/{} ", t, col.get_index_for_prefix(t), col.get_index_for_total(t));
        }
        println!();
        println!("get_prefix(4)={} get_prefix(9)={}", col.get_prefix(4), col.get_prefix(9));
    }
}
