//! Scratch probe: tiny deterministic reproductions against hexane's public API only.
use hexane::{Column, DeltaColumn, PrefixColumn, Splice};

fn try_<T>(name: &str, f: impl FnOnce() -> T + std::panic::UnwindSafe) -> Option<T> {
    match std::panic::catch_unwind(f) {
        Ok(v) => {
            println!("[ok]    {name}");
            Some(v)
        }
        Err(_) => {
            println!("[PANIC] {name}");
            None
        }
    }
}

fn main() {
    let which: Vec<String> = std::env::args().skip(1).collect();
    let on = |k: &str| which.is_empty() || which.iter().any(|w| w == k);

    if on("delta-max") {
        // i64::MAX is inside the documented domain of DeltaColumn<u64> (< 2^63)
        let m = i64::MAX as u64;
        let col = DeltaColumn::<u64>::from_values(vec![1, m, 5]);
        println!("to_vec = {:?}", col.to_vec());
        let r = try_("DeltaColumn<u64>::find_by_value(i64::MAX)", || col.find_by_value(m).collect::<Vec<_>>());
        println!("  -> {:?} (expected Some([1]))", r);
        let r = try_("DeltaColumn<u64>::find_first(i64::MAX)", || col.find_first(m));
        println!("  -> {:?}", r);
        let c2 = DeltaColumn::<i64>::from_values(vec![1, i64::MAX, 5]);
        let r = try_("DeltaColumn<i64>::find_by_value(i64::MAX)", || c2.find_by_value(i64::MAX).collect::<Vec<_>>());
        println!("  -> {:?}", r);
    }
    if on("delta-range") {
        let col = DeltaColumn::<i64>::from_values(vec![5, 7, 9, -3]);
        let r = try_("find_by_range(i64::MIN..i64::MAX)", || col.find_by_range(i64::MIN..i64::MAX).collect::<Vec<_>>());
        println!("  -> {:?} (expected [0,1,2,3])", r);
        let r = try_("find_by_range(-10..i64::MAX)", || col.find_by_range(-10i64..i64::MAX).collect::<Vec<_>>());
        println!("  -> {:?}", r);
        let r = try_("find_by_range(i64::MIN..10)", || col.find_by_range(i64::MIN..10).collect::<Vec<_>>());
        println!("  -> {:?}", r);
    }
    if on("delta-neg-window") {
        let r = try_("DeltaColumn<i64> window [MIN,-1]", || {
            let mut col = DeltaColumn::<i64>::with_max_segments(4);
            let vals = [i64::MIN, -1, i64::MIN + 5, -7, i64::MIN, -1];
            for v in vals {
                col.push(v);
            }
            col.remove(1);
            col.remove(2);
            col.check_invariants();
            col.to_vec()
        });
        println!("  -> {:?}", r);
    }
    if on("delta-load-window") {
        // realized values MIN+1, 0, MAX: each delta fits i64, values not within a 2^63 window
        let bytes = Column::<i64>::from_values(vec![i64::MIN + 1, i64::MAX, i64::MAX - 1]).save();
        let r = DeltaColumn::<i64>::load(&bytes);
        println!("load of out-of-window deltas: {:?}", r.as_ref().map(|c| c.to_vec()).map_err(|e| e.to_string()));
        if let Ok(mut c) = r {
            let _ = try_("remove(1) on loaded", move || {
                c.remove(1);
                c.to_vec()
            });
        }
    }

    if on("copy-ranges-pure-delete") {
        // a pure delete (empty source range, delete > 0) with a source of >= 8 slabs and equal max_segments
        for (range, label) in [(0..0, "0..0"), (50..50, "50..50"), (100..100, "100..100 (= src.len())")] {
            let r = try_(&format!("copy_ranges pure delete, src range {label}"), move || {
                let mut dst = Column::<u64>::from_values_with_max_segments((0..20).collect(), 4);
                let src = Column::<u64>::from_values_with_max_segments((0..100).collect(), 4);
                assert!(src.slab_count() >= 8);
                dst.copy_ranges(src, [Splice { pos: 3, delete: 2, range }]);
                dst.to_vec()
            });
            println!("  -> {:?}", r);
        }
    }
    if on("delta-transient-overflow") {
        // all values inside the documented domain [0, 2^63)
        let m = i64::MAX as u64 - 1;
        let alpha = [0u64, 4, m, 1 << 62];
        let mut seed = 12345u64;
        let mut next = move || {
            seed ^= seed << 13;
            seed ^= seed >> 7;
            seed ^= seed << 17;
            seed
        };
        let mut best: Option<(Vec<Option<u64>>, usize)> = None;
        for _ in 0..600 {
            let n = 40 + (next() % 60) as usize;
            let vals: Vec<Option<u64>> = (0..n).map(|_| if next() % 5 == 0 { None } else { Some(alpha[(next() % 4) as usize]) }).collect();
            for at in 0..=n {
                let v2 = vals.clone();
                let r = std::panic::catch_unwind(move || {
                    let mut c = DeltaColumn::<Option<u64>>::with_max_segments(2);
                    c.splice(0, 0, v2);
                    c.insert(at, None);
                });
                if r.is_err() && best.as_ref().map(|b| b.0.len() > n).unwrap_or(true) {
                    best = Some((vals.clone(), at));
                }
            }
        }
        println!("smallest panicking case: {:?}", best);
    }

    if on("delta-shrink") {
        let full: Vec<Option<u64>> = vec![Some(0u64), Some(4u64), Some(3u64), Some(4611686018427387903u64), Some(7u64), Some(9223372036854775806u64), Some(3u64), Some(6u64), Some(4611686018427387904u64), Some(1632662218397369444u64), Some(1u64), Some(1u64), Some(4611686018427387904u64), Some(3u64), Some(64u64), Some(9223372036854775806u64), Some(2147483647u64), Some(6u64), Some(16383u64), Some(256u64), Some(4294967296u64), Some(1u64), Some(3973224576884726264u64), Some(127u64), Some(1u64), Some(6198161767464237415u64), Some(3u64), Some(6u64), Some(4611686018427387904u64), Some(6u64), Some(1u64), Some(8132346378553852765u64), Some(9007199254740992u64), Some(0u64), Some(4641474873157260942u64), Some(9007199254740992u64), Some(0u64), Some(0u64), Some(3u64), Some(9007199254740992u64), Some(1u64), Some(2u64), Some(1u64), Some(8359982347384301501u64), Some(4480925652712734906u64), Some(385568741865093212u64), Some(0u64), Some(6u64), Some(4u64), Some(2489097267193589113u64), Some(1u64), Some(16384u64), Some(1u64), Some(2131124130305473458u64), Some(16383u64), Some(2453632991289614658u64), Some(6u64), Some(16383u64), Some(3u64), Some(255u64), Some(4611686018427387904u64), Some(2880800955260339988u64), Some(6692487009359824069u64), Some(4611686018427387904u64), Some(6176888776604473815u64), None, None, None, None, None, Some(6418686399986264926u64), None, Some(5530134155715351641u64), Some(832152211873235646u64), Some(6u64), Some(6u64), Some(255u64), Some(4294967296u64), Some(0u64), Some(4611686018427387904u64), Some(2u64), Some(6u64), Some(0u64), Some(255u64), Some(5117972033805552764u64), Some(2123847772141654748u64), Some(2328681634648742519u64), Some(5011886033669504493u64), Some(4294967296u64), Some(0u64)];
        let fails = |vals: &Vec<Option<u64>>, at: usize| -> bool {
            let v2 = vals.clone();
            std::panic::catch_unwind(move || {
                let mut c = DeltaColumn::<Option<u64>>::with_max_segments(2);
                c.splice(0, 0, v2);
                c.insert(at, None);
            })
            .is_err()
        };
        let mut cur = full.clone();
        let mut at = 23usize;
        println!("full fails: {}", fails(&cur, at));
        let mut progress = true;
        while progress {
            progress = false;
            let mut i = 0;
            while i < cur.len() {
                let mut t = cur.clone();
                t.remove(i);
                let at2 = if i < at { at - 1 } else { at };
                if at2 <= t.len() && fails(&t, at2) {
                    cur = t;
                    at = at2;
                    progress = true;
                } else {
                    i += 1;
                }
            }
        }
        println!("shrunk: insert({at}, None) into {:?}", cur);
    }

    if on("delta-alt") {
        // alternate 0 and 2^63-2 (both inside [0, 2^63)), tiny slabs
        let hi = i64::MAX as u64 - 1;
        'outer: for n in 2..200usize {
            for at in 0..=n {
                let r = std::panic::catch_unwind(move || {
                    let mut c = DeltaColumn::<u64>::with_max_segments(2);
                    c.splice(0, 0, (0..n).map(|i| if i % 2 == 0 { hi } else { 0 }));
                    c.insert(at, hi);
                });
                if r.is_err() {
                    println!("DeltaColumn<u64> max_segments=2, {n} values alternating 2^63-2 / 0: insert({at}, 2^63-2) panics");
                    break 'outer;
                }
            }
        }
        for ms in [2usize, 3, 4, 8, 64] {
            let mut found = None;
            'o2: for n in 2..400usize {
                for at in 0..=n {
                    let r = std::panic::catch_unwind(move || {
                        let mut c = DeltaColumn::<u64>::with_max_segments(ms);
                        c.splice(0, 0, (0..n).map(|i| if i % 2 == 0 { hi } else { 0 }));
                        c.remove(at.min(n - 1));
                    });
                    if r.is_err() {
                        found = Some((n, at));
                        break 'o2;
                    }
                }
            }
            println!("max_segments={ms}: first failing (n, remove at) = {found:?}");
        }
    }

    if on("delta-default") {
        let hi = i64::MAX as u64 - 1;
        let _ = try_("DeltaColumn<u64> default max_segments: 65 alternating values, remove(63)", move || {
            let mut c = DeltaColumn::<u64>::from_values((0..65usize).map(|i| if i % 2 == 0 { hi } else { 0 }).collect());
            c.remove(63);
            c.to_vec().len()
        });
        let _ = try_("DeltaColumn<u64> max_segments=8: 9 alternating values, remove(7)", move || {
            let mut c = DeltaColumn::<u64>::with_max_segments(8);
            c.splice(0, 0, (0..9usize).map(|i| if i % 2 == 0 { hi } else { 0 }));
            c.remove(7);
            c.to_vec().len()
        });
    }

    if on("delta-queries") {
        let hi = i64::MAX as u64 - 1;
        let c = DeltaColumn::<u64>::from_values(vec![hi]);
        let r = try_("DeltaColumn<u64>[2^63-2].scope_to_value(2^63-2, ..)", || c.scope_to_value(hi, ..));
        println!("  -> {:?} (expected Some(0..1))", r);
        let c = DeltaColumn::<i64>::from_values(vec![-(1 << 62), (1 << 62) - 1]);
        let r = try_("DeltaColumn<i64>[-2^62, 2^62-1].find_by_value(2^62-1)", || c.find_by_value((1 << 62) - 1).collect::<Vec<_>>());
        println!("  -> {:?} (expected Some([1]))", r);
        let c = DeltaColumn::<u64>::from_values(vec![0, i64::MAX as u64, i64::MAX as u64 - 1]);
        let r = try_("DeltaColumn<u64>[0, 2^63-1, 2^63-2].find_by_range(-1i64..1)", || c.find_by_range(-1i64..1).collect::<Vec<_>>());
        println!("  -> {:?} (expected Some([0]))", r);
    }
    if on("load-panics") {
        fn show<T>(name: &str, f: impl FnOnce() -> Result<T, hexane::PackError> + std::panic::UnwindSafe) {
            match std::panic::catch_unwind(f) {
                Ok(Ok(_)) => println!("[ok]    {name} -> Ok"),
                Ok(Err(e)) => println!("[ok]    {name} -> Err({e})"),
                Err(_) => println!("[PANIC] {name}"),
            }
        }
        // run header i64::MIN (signed LEB 80*9 7f)
        let min_hdr = [0x80u8, 0x80, 0x80, 0x80, 0x80, 0x80, 0x80, 0x80, 0x80, 0x7f];
        show("Column::<u64>::load(header = i64::MIN)", move || Column::<u64>::load(&min_hdr).map(|c| c.len()));
        // bool counts [u64::MAX, 2, 1]
        let b = [0xffu8, 0xff, 0xff, 0xff, 0xff, 0xff, 0xff, 0xff, 0xff, 0x01, 0x02, 0x01];
        show("Column::<bool>::load(counts [u64::MAX, 2, 1])", move || Column::<bool>::load(&b).map(|c| c.len()));
        // null run of u64::MAX followed by a literal
        let n = [0x00u8, 0xff, 0xff, 0xff, 0xff, 0xff, 0xff, 0xff, 0xff, 0xff, 0x01, 0x7f, 0x05];
        show("Column::<Option<u64>>::load(null*u64::MAX, literal 5)", move || Column::<Option<u64>>::load(&n).map(|c| c.len()));
        // repeat run 2^62 x u32::MAX: the prefix sum overflows u64
        let p = [0x80u8, 0x80, 0x80, 0x80, 0x80, 0x80, 0x80, 0x80, 0xc0, 0x00, 0xff, 0xff, 0xff, 0xff, 0x0f];
        show("PrefixColumn::<u32>::load(run 2^62 x u32::MAX)", move || hexane::PrefixColumn::<u32>::load(&p).map(|c| c.len()));
        show("Column::<u32>::load(run 2^62 x u32::MAX)", move || Column::<u32>::load(&p).map(|c| c.len()));
    }
    if on("bool-wrap") {
        // release builds: the length sum wraps and load accepts a column that reads inconsistently
        let b = [0xffu8, 0xff, 0xff, 0xff, 0xff, 0xff, 0xff, 0xff, 0xff, 0x01, 0x02, 0x08, 0x03];
        let r = std::panic::catch_unwind(move || {
            hexane::Column::<bool>::load_with(&b, hexane::LoadOpts::new().with_max_segments(6)).map(|c| {
                let len = c.len();
                let runs: Vec<(bool, usize)> = c.iter().runs().map(|r| (r.value, r.count)).collect();
                (len, c.get(0), c.get(len.wrapping_sub(1)), runs)
            })
        });
        println!("Column<bool> counts [u64::MAX,2,8,3] load_with(max_segments=6): {:?}", r.map(|x| x.map_err(|e| e.to_string())).map_err(|_| "PANIC"));
    }
    if on("delta-i64-window") {
        // deltas [MIN+1, MAX, MAX-1] realize MIN+1, 0, MAX-1: in i64 but not within any 2^63-wide window
        let bytes = Column::<i64>::from_values(vec![i64::MIN + 1, i64::MAX, i64::MAX - 1]).save();
        let small = DeltaColumn::<i64>::load_with(&bytes, hexane::LoadOpts::new().with_max_segments(2));
        println!("load_with(max_segments=2): {:?}", small.as_ref().map(|c| c.to_vec()).map_err(|e| e.to_string()));
        let dflt = DeltaColumn::<i64>::load(&bytes);
        println!("load (default max_segments): {:?}", dflt.as_ref().map(|c| c.to_vec()).map_err(|e| e.to_string()));
        if let Ok(c) = small {
            let again = DeltaColumn::<i64>::load(&c.save());
            println!("load(save(col loaded with max_segments=2)): {:?}", again.map(|c| c.to_vec()).map_err(|e| e.to_string()));
        }
        // a longer one: the same values repeated so that a 32-segment slab overflows its partial sum
        let mut vals = vec![];
        for _ in 0..40 {
            vals.extend([i64::MAX - 1, -(i64::MAX - 1)]);
        }
        // realized: MAX-1, 0, MAX-1, 0, ... all inside [0, 2^63): valid for u64 too
        let bytes = Column::<i64>::from_values(vals).save();
        println!("alternating 2^63-2 / 0 as DeltaColumn<u64>: load -> {:?}", DeltaColumn::<u64>::load(&bytes).map(|c| c.len()).map_err(|e| e.to_string()));
    }

    if on("delta-i64-window2") {
        // realized values cycle MIN+1, 0, MAX-1, 0: every delta fits i64, the values do not fit a 2^63-wide window
        let mut deltas = vec![];
        let mut prev = 0i64;
        for k in 0..24 {
            let v = [i64::MIN + 1, 0, i64::MAX - 1, 0][k % 4];
            deltas.push(v.wrapping_sub(prev));
            prev = v;
        }
        let bytes = Column::<i64>::from_values(deltas).save();
        for ms in [2usize, 4, 8, 64] {
            let r = DeltaColumn::<i64>::load_with(&bytes, hexane::LoadOpts::new().with_max_segments(ms));
            println!("DeltaColumn<i64>::load_with(max_segments={ms}) -> {}", match &r { Ok(c) => format!("Ok(len {})", c.len()), Err(e) => format!("Err({e})") });
            if let Ok(c) = r {
                let again = DeltaColumn::<i64>::load(&c.save());
                println!("    load(save(that column)) -> {}", match &again { Ok(c) => format!("Ok(len {})", c.len()), Err(e) => format!("Err({e})") });
            }
        }
    }

    if on("delta-i64-window3") {
        // 31 small steps, then up to MAX-1 (end of the first 32-segment slab), then 0, then MIN+1
        let mut deltas: Vec<i64> = (0..31).map(|i| 1 + (i % 2)).collect();
        let s: i64 = deltas.iter().sum();
        deltas.push(i64::MAX - 1 - s);
        deltas.push(-(i64::MAX - 1));
        deltas.push(i64::MIN + 1);
        let bytes = Column::<i64>::from_values(deltas).save();
        for ms in [2usize, 64] {
            let r = DeltaColumn::<i64>::load_with(&bytes, hexane::LoadOpts::new().with_max_segments(ms));
            println!("DeltaColumn<i64>::load_with(max_segments={ms}) -> {}", match &r { Ok(c) => format!("Ok(len {}, last {:?})", c.len(), c.last()), Err(e) => format!("Err({e})") });
            if let Ok(c) = r {
                let again = DeltaColumn::<i64>::load(&c.save());
                println!("    load(save(that column)) -> {}", match &again { Ok(c) => format!("Ok(len {})", c.len()), Err(e) => format!("Err({e})") });
            }
        }
    }
    if on("prefix") {
        let col = PrefixColumn::<u32>::from_values(vec![5, 3, 7, 2]);
        for t in 0..20u64 {
            print!("{}:{}/{} ", t, col.get_index_for_prefix(t), col.get_index_for_total(t));
        }
        println!();
        println!("get_prefix(4)={} get_prefix(9)={}", col.get_prefix(4), col.get_prefix(9));
    }
}
