//! `Tgt`: a uniform face over `Column<T>`, `PrefixColumn<T>` and
//! `DeltaColumn<T>` so one driver can mirror edits on a `Vec` and compare.
use crate::vals::{Dom, Val};
use amv::fw::Rng;
use hexane::{AsColumnRef, Column, ColumnValueRef, DeltaColumn, LoadOpts, PrefixColumn, Run, Splice};
use std::ops::Range;

#[derive(Clone, Copy, Debug, PartialEq, Eq)]
pub enum Family {
    Plain,
    Prefix,
    Delta,
}

/// One step of an edit-cursor script (positions in original coordinates).
#[derive(Clone, Debug)]
pub enum EditStep<V> {
    Seek(usize),
    Advance(usize),
    Delete(usize),
    Insert(V),
    InsertRun(V, usize),
    Peek,
    Replace(V),
}

/// A mismatch found by a query comparison: (query name, human text).
pub type Mis = (String, String);

pub trait Tgt: Sized {
    type V: Val;
    const NAME: &'static str;
    const FAMILY: Family;
    /// value domains to pick from per case
    fn doms() -> Vec<Dom> {
        vec![Dom::ANY]
    }
    fn new(ms: usize) -> Self;
    fn len(&self) -> usize;
    fn slab_count(&self) -> usize;
    fn get(&self, i: usize) -> Option<Self::V>;
    fn to_vec(&self) -> Vec<Self::V>;
    fn iter_all(&self) -> Vec<Self::V>;
    fn iter_range(&self, r: Range<usize>) -> Vec<Self::V>;
    /// runs (expanded by the caller) over a range, via next_run
    fn runs(&self, r: Range<usize>) -> Vec<(Self::V, usize)>;
    /// a random scripted walk with the column's iterator against `model`
    fn walk(&self, model: &[Self::V], rng: &mut Rng) -> Result<usize, Mis>;
    /// suspend an iterator at `at` (window to the end)
    fn suspend_at(&self, at: usize) -> Box<dyn Resumable<Self>>;

    fn insert(&mut self, i: usize, v: Self::V);
    fn remove(&mut self, i: usize);
    fn remove_n(&mut self, i: usize, n: usize);
    fn push(&mut self, v: Self::V);
    fn clear(&mut self);
    fn truncate(&mut self, n: usize);
    fn splice(&mut self, i: usize, del: usize, vals: Vec<Self::V>);
    fn splice_runs(&mut self, i: usize, del: usize, runs: Vec<(Self::V, usize)>);
    /// splice_runs fed by another column's run iterator over `range`
    fn splice_from(&mut self, i: usize, del: usize, src: &Self, range: Range<usize>);
    fn copy_ranges(&mut self, src: Self, splices: Vec<Splice>);
    fn extend(&mut self, vals: Vec<Self::V>);
    /// run an edit-cursor script; returns the peeked values
    fn edit(&mut self, script: &[EditStep<Self::V>]) -> Vec<Option<Self::V>>;

    fn save(&self) -> Vec<u8>;
    fn load(bytes: &[u8]) -> Result<Self, String>;
    fn load_ms(bytes: &[u8], ms: usize) -> Result<Self, String>;
    fn load_len(bytes: &[u8], len: usize) -> Result<Self, String>;
    /// streaming load: pull `pulls` runs from `load_iter`, then finalize (plain load where there is no public load_iter)
    fn load_stream(bytes: &[u8], pulls: usize) -> Result<Self, String> {
        let _ = pulls;
        Self::load(bytes)
    }
    fn check_invariants(&self);
    fn validate_encoding(&self) -> Result<(), String>;
    fn dup(&self) -> Self;
    /// family/type specific queries compared against the model
    fn extra(&self, model: &[Self::V], dom: Dom, rng: &mut Rng, out: &mut Vec<Mis>, counts: &mut Vec<(&'static str, u64)>);
}

pub trait Resumable<K> {
    /// Ok(rest of the items) or Err(text of the PackError)
    fn resume(&self, col: &K) -> Result<Vec<String>, String>;
}

// ---------------------------------------------------------------------------
// Iterator walk
// ---------------------------------------------------------------------------

/// The common face of `Iter`, `PrefixIter`, `DeltaIter` for the scripted walk.
pub trait WalkIter<V>: Sized {
    fn w_next(&mut self) -> Option<V>;
    fn w_nth(&mut self, n: usize) -> Option<V>;
    fn w_advance_to(&mut self, t: usize);
    fn w_advance_by(&mut self, k: usize);
    fn w_set_max(&mut self, m: usize);
    fn w_shift(&mut self, r: Range<usize>);
    fn w_shift_next(&mut self, r: Range<usize>) -> Option<V>;
    /// next run, expanded
    fn w_next_run(&mut self) -> Option<Vec<V>>;
    fn w_pos(&self) -> usize;
    fn w_end(&self) -> usize;
    /// running total (prefix iterators only): sum of everything consumed so far
    fn w_total(&self) -> Option<i128> {
        None
    }
    fn w_suspend_resume(self) -> Result<Self, String>;
    /// scan forward for `target`; Some(pos) with the value consumed
    fn w_scan(&mut self, _target: &V) -> Option<Option<usize>> {
        None
    }
}

pub fn prefix_sums<V: Val>(model: &[V]) -> Vec<i128> {
    let mut p = Vec::with_capacity(model.len() + 1);
    let mut acc = 0i128;
    p.push(0);
    for v in model {
        acc += v.weight();
        p.push(acc);
    }
    p
}

/// Run a random walk; `mk(range)` builds the iterator positioned on `range`.
pub fn walk<V: Val, W: WalkIter<V>>(model: &[V], rng: &mut Rng, mk: impl Fn(Range<usize>) -> W) -> Result<usize, Mis> {
    let len = model.len();
    let a = rng.below(len + 1);
    let b = if rng.chance(60) { len } else { rng.range(a, len) };
    let mut it = mk(a..b);
    let (mut pos, mut end) = (a, b);
    let sums = prefix_sums(model);
    let mut log: Vec<String> = vec![format!("iter_range({a}..{b})")];
    let nsteps = rng.range(3, 14);
    let mis = |q: &str, log: &Vec<String>, what: String| -> Mis { (q.to_string(), format!("{what} after [{}]", log.join(" "))) };
    for step in 0..nsteps {
        match rng.weighted(&[22, 16, 10, 8, 8, 10, 8, 14, 6, 6]) {
            0 => {
                log.push("next".into());
                let got = it.w_next();
                let exp = if pos < end { Some(model[pos].clone()) } else { None };
                if exp.is_some() {
                    pos += 1;
                }
                if got != exp {
                    return Err(mis("iter.next", &log, format!("got {:?} expected {:?}", got.map(|v| v.show()), exp.map(|v| v.show()))));
                }
            }
            1 => {
                let n = if rng.chance(80) { rng.below((end - pos).max(1) + 1) } else { rng.below(len + 2) };
                log.push(format!("nth({n})"));
                let got = it.w_nth(n);
                let exp = if pos + n < end {
                    let v = model[pos + n].clone();
                    pos += n + 1;
                    Some(v)
                } else {
                    pos = end;
                    None
                };
                if got != exp {
                    return Err(mis("iter.nth", &log, format!("got {:?} expected {:?}", got.map(|v| v.show()), exp.map(|v| v.show()))));
                }
            }
            2 => {
                let t = rng.range(pos, end);
                log.push(format!("advance_to({t})"));
                it.w_advance_to(t);
                pos = t;
            }
            3 => {
                let k = rng.below(end - pos + 1);
                log.push(format!("advance_by({k})"));
                it.w_advance_by(k);
                pos += k;
            }
            4 => {
                let m = rng.range(pos, len);
                log.push(format!("set_max({m})"));
                it.w_set_max(m);
                end = m;
            }
            5 => {
                let s = rng.range(pos, len);
                let e = rng.range(s, len);
                log.push(format!("shift({s}..{e})"));
                it.w_shift(s..e);
                pos = s;
                end = e;
            }
            6 => {
                if pos >= len {
                    continue;
                }
                let s = rng.range(pos, len - 1);
                let e = rng.range(s + 1, len);
                log.push(format!("shift_next({s}..{e})"));
                let got = it.w_shift_next(s..e);
                let exp = Some(model[s].clone());
                pos = s + 1;
                end = e;
                if got != exp {
                    return Err(mis("iter.shift_next", &log, format!("got {:?} expected {:?}", got.map(|v| v.show()), exp.map(|v| v.show()))));
                }
            }
            7 => {
                log.push("next_run".into());
                let got = it.w_next_run();
                if pos >= end {
                    if let Some(r) = got {
                        return Err(mis("iter.next_run", &log, format!("got a run of {} items at the end of the window", r.len())));
                    }
                } else {
                    match got {
                        None => return Err(mis("iter.next_run", &log, format!("got None with {} items left in the window", end - pos))),
                        Some(r) => {
                            if r.is_empty() || r.len() > end - pos {
                                return Err(mis("iter.next_run", &log, format!("run of {} items with {} items left in the window", r.len(), end - pos)));
                            }
                            if r[..] != model[pos..pos + r.len()] {
                                return Err(mis(
                                    "iter.next_run",
                                    &log,
                                    format!("run {} differs from model {}", crate::vals::show_list(&r), crate::vals::show_list(&model[pos..pos + r.len()])),
                                ));
                            }
                            pos += r.len();
                        }
                    }
                }
            }
            8 => {
                log.push("suspend+try_resume".into());
                it = match it.w_suspend_resume() {
                    Ok(it) => it,
                    Err(e) => return Err(mis("iter.try_resume", &log, format!("try_resume on an unchanged column failed: {e}"))),
                };
            }
            _ => {
                // scan_to_value for a value from the model or the first one
                if pos >= end || len == 0 {
                    continue;
                }
                let target = model[rng.below(len)].clone();
                let mut probe_log = log.clone();
                probe_log.push(format!("scan_to_value({})", target.show()));
                if let Some(got) = it.w_scan(&target) {
                    log = probe_log;
                    let exp = (pos..end).find(|&i| model[i] == target);
                    if got != exp {
                        return Err(mis("iter.scan_to_value", &log, format!("got {got:?} expected {exp:?}")));
                    }
                    pos = match exp {
                        Some(i) => i + 1,
                        None => end,
                    };
                }
            }
        }
        // position / totals after every step
        if it.w_pos() != pos {
            return Err(mis("iter.pos", &log, format!("pos() = {} expected {pos}", it.w_pos())));
        }
        if it.w_end() != end {
            return Err(mis("iter.end_pos", &log, format!("end_pos() = {} expected {end}", it.w_end())));
        }
        if let Some(t) = it.w_total() {
            if t != sums[pos] {
                return Err(mis("iter.total", &log, format!("running total {} expected {} at pos {pos}", t, sums[pos])));
            }
        }
        let _ = step;
    }
    // drain the rest
    let mut rest = vec![];
    while let Some(v) = it.w_next() {
        rest.push(v);
        if rest.len() > len + 1 {
            break;
        }
    }
    if rest[..] != model[pos.min(end)..end] {
        log.push("drain".into());
        return Err(mis(
            "iter.drain",
            &log,
            format!("rest {} expected {}", crate::vals::show_list(&rest), crate::vals::show_list(&model[pos.min(end)..end])),
        ));
    }
    Ok(nsteps)
}

// ---------------------------------------------------------------------------
// Helpers shared by the impls
// ---------------------------------------------------------------------------

/// Expected result of `scope_to_value(value, a..b)` on a window sorted by `PartialOrd`.
pub fn model_scope<V: Val>(model: &[V], a: usize, b: usize, value: &V) -> Range<usize> {
    let mut s = a;
    while s < b && model[s] < *value {
        s += 1;
    }
    let mut e = s;
    while e < b && model[e] == *value {
        e += 1;
    }
    s..e
}

/// A maximal sorted window around a random point.
pub fn sorted_window<V: Val>(model: &[V], rng: &mut Rng) -> Option<Range<usize>> {
    if model.is_empty() {
        return None;
    }
    let p = rng.below(model.len());
    let (mut a, mut b) = (p, p + 1);
    while a > 0 && model[a - 1] <= model[a] {
        a -= 1;
    }
    while b < model.len() && model[b - 1] <= model[b] {
        b += 1;
    }
    // sometimes shrink
    if rng.chance(30) {
        a = rng.range(a, p);
        b = rng.range(p + 1, b);
    }
    Some(a..b)
}

pub fn pe(e: hexane::PackError) -> String {
    e.to_string()
}

// ---------------------------------------------------------------------------
// Plain Column<T>
// ---------------------------------------------------------------------------

pub struct PlainW<'a, T: ColumnValueRef> {
    pub it: hexane::Iter<'a, T>,
    pub col: &'a Column<T>,
}

impl<'a, T: ColumnValueRef + Val> WalkIter<T> for PlainW<'a, T> {
    fn w_next(&mut self) -> Option<T> {
        self.it.next().map(T::to_owned)
    }
    fn w_nth(&mut self, n: usize) -> Option<T> {
        self.it.nth(n).map(T::to_owned)
    }
    fn w_advance_to(&mut self, t: usize) {
        self.it.advance_to(t)
    }
    fn w_advance_by(&mut self, k: usize) {
        self.it.advance_by(k)
    }
    fn w_set_max(&mut self, m: usize) {
        self.it.set_max(m)
    }
    fn w_shift(&mut self, r: Range<usize>) {
        self.it.shift(r)
    }
    fn w_shift_next(&mut self, r: Range<usize>) -> Option<T> {
        self.it.shift_next(r).map(T::to_owned)
    }
    fn w_next_run(&mut self) -> Option<Vec<T>> {
        self.it.next_run().map(|r| vec![T::to_owned(r.value); r.count])
    }
    fn w_pos(&self) -> usize {
        self.it.pos()
    }
    fn w_end(&self) -> usize {
        self.it.end_pos()
    }
    fn w_suspend_resume(self) -> Result<Self, String> {
        let st = self.it.suspend();
        let it = st.try_resume(self.col).map_err(pe)?;
        Ok(PlainW { it, col: self.col })
    }
    fn w_scan(&mut self, target: &T) -> Option<Option<usize>> {
        Some(self.it.scan_to_value(AsColumnRef::<T>::as_column_ref(target)))
    }
}

struct PlainSusp(hexane::IterState);

macro_rules! impl_plain {
    ($t:ty, $name:expr) => {
        impl Resumable<Column<$t>> for PlainSusp {
            fn resume(&self, col: &Column<$t>) -> Result<Vec<String>, String> {
                match self.0.try_resume(col) {
                    Ok(it) => Ok(it.map(|v| <$t as ColumnValueRef>::to_owned(v).show()).collect()),
                    Err(e) => Err(pe(e)),
                }
            }
        }
        impl Tgt for Column<$t> {
            type V = $t;
            const NAME: &'static str = $name;
            const FAMILY: Family = Family::Plain;
            fn new(ms: usize) -> Self {
                Column::with_max_segments(ms)
            }
            fn len(&self) -> usize {
                Column::len(self)
            }
            fn slab_count(&self) -> usize {
                Column::slab_count(self)
            }
            fn get(&self, i: usize) -> Option<$t> {
                Column::get(self, i).map(<$t as ColumnValueRef>::to_owned)
            }
            fn to_vec(&self) -> Vec<$t> {
                Column::to_vec(self).into_iter().map(<$t as ColumnValueRef>::to_owned).collect()
            }
            fn iter_all(&self) -> Vec<$t> {
                self.iter().map(<$t as ColumnValueRef>::to_owned).collect()
            }
            fn iter_range(&self, r: Range<usize>) -> Vec<$t> {
                Column::iter_range(self, r).map(<$t as ColumnValueRef>::to_owned).collect()
            }
            fn runs(&self, r: Range<usize>) -> Vec<($t, usize)> {
                Column::iter_range(self, r).runs().map(|r| (<$t as ColumnValueRef>::to_owned(r.value), r.count)).collect()
            }
            fn walk(&self, model: &[$t], rng: &mut Rng) -> Result<usize, Mis> {
                walk(model, rng, |r| PlainW { it: Column::iter_range(self, r), col: self })
            }
            fn suspend_at(&self, at: usize) -> Box<dyn Resumable<Self>> {
                Box::new(PlainSusp(Column::iter_range(self, at..Column::len(self)).suspend()))
            }
            fn insert(&mut self, i: usize, v: $t) {
                Column::insert(self, i, v)
            }
            fn remove(&mut self, i: usize) {
                Column::remove(self, i)
            }
            fn remove_n(&mut self, i: usize, n: usize) {
                Column::remove_n(self, i, n)
            }
            fn push(&mut self, v: $t) {
                Column::push(self, v)
            }
            fn clear(&mut self) {
                Column::clear(self)
            }
            fn truncate(&mut self, n: usize) {
                Column::truncate(self, n)
            }
            fn splice(&mut self, i: usize, del: usize, vals: Vec<$t>) {
                Column::splice(self, i, del, vals)
            }
            fn splice_runs(&mut self, i: usize, del: usize, runs: Vec<($t, usize)>) {
                Column::splice_runs(self, i, del, runs.into_iter().map(|(value, count)| Run { count, value }))
            }
            fn splice_from(&mut self, i: usize, del: usize, src: &Self, range: Range<usize>) {
                Column::splice_runs(self, i, del, Column::iter_range(src, range).runs())
            }
            fn copy_ranges(&mut self, src: Self, splices: Vec<Splice>) {
                Column::copy_ranges(self, src, splices)
            }
            fn extend(&mut self, vals: Vec<$t>) {
                Extend::extend(self, vals)
            }
            fn edit(&mut self, script: &[EditStep<$t>]) -> Vec<Option<$t>> {
                let mut peeks = vec![];
                let mut e = std::mem::ManuallyDrop::new(Column::edit(self));
                for s in script {
                    match s {
                        EditStep::Seek(to) => {
                            e.seek(*to);
                        }
                        EditStep::Advance(n) => {
                            e.advance(*n);
                        }
                        EditStep::Delete(n) => {
                            e.delete(*n);
                        }
                        EditStep::Insert(v) => {
                            e.insert(v.clone());
                        }
                        EditStep::InsertRun(v, n) => {
                            e.insert_run(v.clone(), *n);
                        }
                        EditStep::Peek => peeks.push(e.peek().map(<$t as ColumnValueRef>::to_owned)),
                        EditStep::Replace(v) => {
                            e.replace(|_| v.clone());
                        }
                    }
                }
                e.finish();
                drop(std::mem::ManuallyDrop::into_inner(e));
                peeks
            }
            fn save(&self) -> Vec<u8> {
                Column::save(self)
            }
            fn load(bytes: &[u8]) -> Result<Self, String> {
                Column::load(bytes).map_err(pe)
            }
            fn load_ms(bytes: &[u8], ms: usize) -> Result<Self, String> {
                Column::load_with(bytes, LoadOpts::new().with_max_segments(ms)).map_err(pe)
            }
            fn load_len(bytes: &[u8], len: usize) -> Result<Self, String> {
                Column::load_with(bytes, LoadOpts::new().with_length(len)).map_err(pe)
            }
            fn load_stream(bytes: &[u8], pulls: usize) -> Result<Self, String> {
                let mut it = Column::<$t>::load_iter(bytes, LoadOpts::new());
                for _ in 0..pulls {
                    match it.try_next_run() {
                        Ok(Some(_)) => {}
                        Ok(None) => break,
                        Err(e) => return Err(pe(e)),
                    }
                }
                it.finalize().map_err(pe)
            }
            fn check_invariants(&self) {
                Column::check_invariants(self)
            }
            fn validate_encoding(&self) -> Result<(), String> {
                Column::validate_encoding(self).map_err(pe)
            }
            fn dup(&self) -> Self {
                self.clone()
            }
            fn extra(&self, model: &[$t], dom: Dom, rng: &mut Rng, out: &mut Vec<Mis>, counts: &mut Vec<(&'static str, u64)>) {
                let _ = dom;
                // scope_to_value on a sorted window
                if let Some(w) = sorted_window(model, rng) {
                    let target: $t = if rng.chance(70) { model[rng.range(w.start, w.end - 1)].clone() } else { <$t as Val>::batch(rng, 1, Dom::ANY).pop().unwrap() };
                    let exp = model_scope(model, w.start, w.end, &target);
                    let got = Column::scope_to_value(self, target.clone(), w.clone());
                    counts.push(("scope_queries", 1));
                    if got != exp {
                        out.push(("scope_to_value".into(), format!("scope_to_value({}, {w:?}) = {got:?}, model {exp:?}", target.show())));
                    }
                    // the iterator form
                    let mut it = Column::iter(self);
                    let got = it.seek_to_value(AsColumnRef::<$t>::as_column_ref(&target), w.clone());
                    if got != exp {
                        out.push(("iter.seek_to_value".into(), format!("seek_to_value({}, {w:?}) = {got:?}, model {exp:?}", target.show())));
                    } else if !exp.is_empty() {
                        let nx = it.next().map(<$t as ColumnValueRef>::to_owned);
                        let expn = model.get(exp.start).cloned();
                        if nx != expn {
                            out.push(("iter.seek_to_value".into(), format!("after seek_to_value({}, {w:?}) next() = {:?}, model {:?}", target.show(), nx.map(|v| v.show()), expn.map(|v| v.show()))));
                        }
                    }
                }
                // is_only
                if !model.is_empty() {
                    let v = model[rng.below(model.len())].clone();
                    let exp = model.iter().all(|x| *x == v);
                    let got = Column::is_only(self, AsColumnRef::<$t>::as_column_ref(&v));
                    counts.push(("is_only_queries", 1));
                    if got != exp {
                        out.push(("is_only".into(), format!("is_only({}) = {got}, model {exp}", v.show())));
                    }
                }
            }
        }
    };
}

impl_plain!(u32, "Column<u32>");
impl_plain!(u64, "Column<u64>");
impl_plain!(i64, "Column<i64>");
impl_plain!(usize, "Column<usize>");
impl_plain!(String, "Column<String>");
impl_plain!(Vec<u8>, "Column<Vec<u8>>");
impl_plain!(bool, "Column<bool>");
impl_plain!(Option<u32>, "Column<Option<u32>>");
impl_plain!(Option<u64>, "Column<Option<u64>>");
impl_plain!(Option<i64>, "Column<Option<i64>>");
impl_plain!(Option<usize>, "Column<Option<usize>>");
impl_plain!(Option<String>, "Column<Option<String>>");
impl_plain!(Option<Vec<u8>>, "Column<Option<Vec<u8>>>");

// ---------------------------------------------------------------------------
// PrefixColumn<T>
// ---------------------------------------------------------------------------

pub trait PfxNum: Copy + std::fmt::Debug {
    fn to_i128(self) -> i128;
    fn from_i128(v: i128) -> Self;
}
macro_rules! pfxnum {
    ($($t:ty),*) => {$(
        impl PfxNum for $t {
            fn to_i128(self) -> i128 { self as i128 }
            fn from_i128(v: i128) -> Self { v as $t }
        }
    )*};
}
pfxnum!(u64, u128, usize, i128);

pub struct PrefW<'a, T: hexane::PrefixValue> {
    pub it: hexane::PrefixIter<'a, T>,
    pub col: &'a PrefixColumn<T>,
}

impl<'a, T: hexane::PrefixValue + Val> WalkIter<T> for PrefW<'a, T>
where
    T::Prefix: PfxNum,
{
    fn w_next(&mut self) -> Option<T> {
        self.it.next().map(|pv| T::to_owned(pv.value))
    }
    fn w_nth(&mut self, n: usize) -> Option<T> {
        self.it.nth(n).map(|pv| T::to_owned(pv.value))
    }
    fn w_advance_to(&mut self, t: usize) {
        self.it.advance_to(t)
    }
    fn w_advance_by(&mut self, k: usize) {
        self.it.advance_by(k)
    }
    fn w_set_max(&mut self, m: usize) {
        self.it.set_max(m)
    }
    fn w_shift(&mut self, r: Range<usize>) {
        self.it.shift(r)
    }
    fn w_shift_next(&mut self, r: Range<usize>) -> Option<T> {
        self.it.shift_next(r).map(|pv| T::to_owned(pv.value))
    }
    fn w_next_run(&mut self) -> Option<Vec<T>> {
        self.it.next_run().map(|r| vec![T::to_owned(r.value.value); r.count])
    }
    fn w_pos(&self) -> usize {
        self.it.pos()
    }
    fn w_end(&self) -> usize {
        self.it.end_pos()
    }
    fn w_total(&self) -> Option<i128> {
        Some(self.it.total().to_i128())
    }
    fn w_suspend_resume(self) -> Result<Self, String> {
        let st = self.it.suspend();
        let it = st.try_resume(self.col).map_err(pe)?;
        Ok(PrefW { it, col: self.col })
    }
}

struct PrefSusp<T: hexane::PrefixValue>(hexane::PrefixIterState<T>);

macro_rules! impl_prefix {
    ($t:ty, $name:expr, $unsigned:expr) => {
        impl Resumable<PrefixColumn<$t>> for PrefSusp<$t> {
            fn resume(&self, col: &PrefixColumn<$t>) -> Result<Vec<String>, String> {
                match self.0.try_resume(col) {
                    Ok(it) => Ok(it.map(|pv| <$t as ColumnValueRef>::to_owned(pv.value).show()).collect()),
                    Err(e) => Err(pe(e)),
                }
            }
        }
        impl Tgt for PrefixColumn<$t> {
            type V = $t;
            const NAME: &'static str = $name;
            const FAMILY: Family = Family::Prefix;
            fn new(ms: usize) -> Self {
                PrefixColumn::with_max_segments(ms)
            }
            fn len(&self) -> usize {
                PrefixColumn::len(self)
            }
            fn slab_count(&self) -> usize {
                PrefixColumn::slab_count(self)
            }
            fn get(&self, i: usize) -> Option<$t> {
                self.values().get(i).map(<$t as ColumnValueRef>::to_owned)
            }
            fn to_vec(&self) -> Vec<$t> {
                PrefixColumn::to_vec(self).into_iter().map(<$t as ColumnValueRef>::to_owned).collect()
            }
            fn iter_all(&self) -> Vec<$t> {
                self.iter().map(|pv| <$t as ColumnValueRef>::to_owned(pv.value)).collect()
            }
            fn iter_range(&self, r: Range<usize>) -> Vec<$t> {
                PrefixColumn::iter_range(self, r).map(|pv| <$t as ColumnValueRef>::to_owned(pv.value)).collect()
            }
            fn runs(&self, r: Range<usize>) -> Vec<($t, usize)> {
                PrefixColumn::iter_range(self, r).runs().map(|r| (<$t as ColumnValueRef>::to_owned(r.value), r.count)).collect()
            }
            fn walk(&self, model: &[$t], rng: &mut Rng) -> Result<usize, Mis> {
                if rng.chance(30) {
                    // the plain value iterator of the inner column
                    return walk(model, rng, |r| PlainInnerW { it: self.values().iter_range(r), col: self });
                }
                walk(model, rng, |r| PrefW { it: PrefixColumn::iter_range(self, r), col: self })
            }
            fn suspend_at(&self, at: usize) -> Box<dyn Resumable<Self>> {
                Box::new(PrefSusp::<$t>(PrefixColumn::iter_range(self, at..PrefixColumn::len(self)).suspend()))
            }
            fn insert(&mut self, i: usize, v: $t) {
                PrefixColumn::insert(self, i, v)
            }
            fn remove(&mut self, i: usize) {
                PrefixColumn::remove(self, i)
            }
            fn remove_n(&mut self, i: usize, n: usize) {
                PrefixColumn::remove_n(self, i, n)
            }
            fn push(&mut self, v: $t) {
                PrefixColumn::push(self, v)
            }
            fn clear(&mut self) {
                PrefixColumn::clear(self)
            }
            fn truncate(&mut self, n: usize) {
                PrefixColumn::truncate(self, n)
            }
            fn splice(&mut self, i: usize, del: usize, vals: Vec<$t>) {
                PrefixColumn::splice(self, i, del, vals)
            }
            fn splice_runs(&mut self, i: usize, del: usize, runs: Vec<($t, usize)>) {
                PrefixColumn::splice_runs(self, i, del, runs.into_iter().map(|(value, count)| Run { count, value }))
            }
            fn splice_from(&mut self, i: usize, del: usize, src: &Self, range: Range<usize>) {
                PrefixColumn::splice_runs(self, i, del, PrefixColumn::iter_range(src, range).runs())
            }
            fn copy_ranges(&mut self, src: Self, splices: Vec<Splice>) {
                PrefixColumn::copy_ranges(self, src, splices)
            }
            fn extend(&mut self, vals: Vec<$t>) {
                Extend::extend(self, vals)
            }
            fn edit(&mut self, script: &[EditStep<$t>]) -> Vec<Option<$t>> {
                let mut peeks = vec![];
                let mut e = std::mem::ManuallyDrop::new(PrefixColumn::edit(self));
                for s in script {
                    match s {
                        EditStep::Seek(to) => {
                            e.seek(*to);
                        }
                        EditStep::Advance(n) => {
                            e.advance(*n);
                        }
                        EditStep::Delete(n) => {
                            e.delete(*n);
                        }
                        EditStep::Insert(v) => {
                            e.insert(v.clone());
                        }
                        EditStep::InsertRun(v, n) => {
                            e.insert_run(v.clone(), *n);
                        }
                        EditStep::Peek => peeks.push(e.peek().map(<$t as ColumnValueRef>::to_owned)),
                        EditStep::Replace(v) => {
                            e.replace(|_| v.clone());
                        }
                    }
                }
                e.finish();
                drop(std::mem::ManuallyDrop::into_inner(e));
                peeks
            }
            fn save(&self) -> Vec<u8> {
                PrefixColumn::save(self)
            }
            fn load(bytes: &[u8]) -> Result<Self, String> {
                PrefixColumn::load(bytes).map_err(pe)
            }
            fn load_ms(bytes: &[u8], ms: usize) -> Result<Self, String> {
                PrefixColumn::load_with(bytes, LoadOpts::new().with_max_segments(ms)).map_err(pe)
            }
            fn load_len(bytes: &[u8], len: usize) -> Result<Self, String> {
                PrefixColumn::load_with(bytes, LoadOpts::new().with_length(len)).map_err(pe)
            }
            fn load_stream(bytes: &[u8], pulls: usize) -> Result<Self, String> {
                let mut it = PrefixColumn::<$t>::load_iter(bytes, LoadOpts::new());
                for _ in 0..pulls {
                    match it.try_next_run() {
                        Ok(Some(_)) => {}
                        Ok(None) => break,
                        Err(e) => return Err(pe(e)),
                    }
                }
                it.finalize().map_err(pe)
            }
            fn check_invariants(&self) {}
            fn validate_encoding(&self) -> Result<(), String> {
                self.values().validate_encoding().map_err(pe)
            }
            fn dup(&self) -> Self {
                self.clone()
            }
            fn extra(&self, model: &[$t], dom: Dom, rng: &mut Rng, out: &mut Vec<Mis>, counts: &mut Vec<(&'static str, u64)>) {
                let _ = dom;
                type P = <$t as hexane::PrefixValue>::Prefix;
                let len = model.len();
                let sums = prefix_sums(model);
                let grand = sums[len];
                let mut q = 0u64;
                // get(i): value, prefix, total
                for _ in 0..4.min(len) {
                    let i = rng.below(len);
                    q += 1;
                    match PrefixColumn::get(self, i) {
                        None => out.push(("prefix.get".into(), format!("get({i}) = None, len {len}"))),
                        Some(pv) => {
                            let v = <$t as ColumnValueRef>::to_owned(pv.value);
                            if v != model[i] || pv.prefix().to_i128() != sums[i] || pv.total().to_i128() != sums[i + 1] {
                                out.push((
                                    "prefix.get".into(),
                                    format!("get({i}) = (value {}, prefix {:?}, total {:?}), model (value {}, prefix {}, total {})", v.show(), pv.prefix(), pv.total(), model[i].show(), sums[i], sums[i + 1]),
                                ));
                            }
                        }
                    }
                }
                if PrefixColumn::get(self, len).is_some() {
                    out.push(("prefix.get".into(), format!("get({len}) is Some at len {len}")));
                }
                // get_prefix / get_total / sum_range
                for _ in 0..4 {
                    let i = rng.below(len + 1);
                    q += 1;
                    let got = PrefixColumn::get_prefix(self, i).to_i128();
                    if got != sums[i] {
                        out.push(("get_prefix".into(), format!("get_prefix({i}) = {got}, model {}", sums[i])));
                    }
                    if i < len {
                        let got = PrefixColumn::get_total(self, i).to_i128();
                        if got != sums[i + 1] {
                            out.push(("get_total".into(), format!("get_total({i}) = {got}, model {}", sums[i + 1])));
                        }
                    }
                    let a = rng.below(len + 1);
                    let b = rng.range(a, len);
                    let got = PrefixColumn::sum_range(self, a..b).to_i128();
                    if got != sums[b] - sums[a] {
                        out.push(("sum_range".into(), format!("sum_range({a}..{b}) = {got}, model {}", sums[b] - sums[a])));
                    }
                    // delta(from, to)
                    if len > 0 {
                        let to = rng.below(len);
                        let from = rng.below(to + 1);
                        match PrefixColumn::delta(self, from, to) {
                            None => out.push(("prefix.delta".into(), format!("delta({from},{to}) = None, len {len}"))),
                            Some(s) => {
                                let v = <$t as ColumnValueRef>::to_owned(s.pv.value);
                                if s.pos != to || s.delta.to_i128() != sums[to] - sums[from] || v != model[to] || s.pv.total().to_i128() != sums[to + 1] {
                                    out.push((
                                        "prefix.delta".into(),
                                        format!("delta({from},{to}) = (pos {}, delta {:?}, value {}, total {:?}), model (pos {to}, delta {}, value {}, total {})", s.pos, s.delta, v.show(), s.pv.total(), sums[to] - sums[from], model[to].show(), sums[to + 1]),
                                    ));
                                }
                            }
                        }
                    }
                }
                // full prefixed iteration
                {
                    let mut ok = true;
                    let mut n = 0;
                    for (i, pv) in PrefixColumn::iter(self).enumerate() {
                        n += 1;
                        if i >= len || pv.total().to_i128() != sums[i + 1] || pv.prefix().to_i128() != sums[i] {
                            out.push(("prefix.iter".into(), format!("iter() item {i}: prefix {:?} total {:?}, model prefix {} total {}", pv.prefix(), pv.total(), sums.get(i).copied().unwrap_or(-1), sums.get(i + 1).copied().unwrap_or(-1))));
                            ok = false;
                            break;
                        }
                    }
                    if ok && n != len {
                        out.push(("prefix.iter".into(), format!("iter() yielded {n} items, len {len}")));
                    }
                }
                if $unsigned {
                    // inverse lookups
                    let gip = |t: i128| -> usize {
                        if t <= 0 {
                            return 0;
                        }
                        (1..=len).find(|&i| sums[i] >= t).unwrap_or(len + 1)
                    };
                    for _ in 0..6 {
                        let t: i128 = match rng.below(5) {
                            0 => rng.below(4) as i128,
                            1 => grand + rng.below(3) as i128,
                            2 => (sums[rng.below(len + 1)] + rng.below(3) as i128 - 1).max(0),
                            3 => {
                                if grand > 0 {
                                    (((rng.next() as u128) << 64 | rng.next() as u128) % (grand as u128 + 1)) as i128
                                } else {
                                    0
                                }
                            }
                            _ => sums[rng.below(len + 1)],
                        };
                        q += 1;
                        let got = PrefixColumn::get_index_for_prefix(self, P::from_i128(t));
                        if got != gip(t) {
                            out.push(("get_index_for_prefix".into(), format!("get_index_for_prefix({t}) = {got}, model {}", gip(t))));
                        }
                        let got = PrefixColumn::get_index_for_total(self, P::from_i128(t));
                        let exp = gip(t).saturating_sub(1);
                        if got != exp {
                            out.push(("get_index_for_total".into(), format!("get_index_for_total({t}) = {got}, model {exp}")));
                        }
                    }
                    // advance_prefix from a positioned iterator
                    for _ in 0..3 {
                        let a = rng.below(len + 1);
                        let b = if rng.chance(70) { len } else { rng.range(a, len) };
                        let mut it = PrefixColumn::iter_range(self, a..b);
                        let k = rng.below((b - a).min(4) + 1);
                        for _ in 0..k {
                            it.next();
                        }
                        let p = a + k.min(b - a);
                        let n: i128 = match rng.below(4) {
                            0 => 0,
                            1 => rng.below(5) as i128,
                            2 => (grand - sums[p]) + rng.below(3) as i128 - 1,
                            _ => {
                                let rem = (grand - sums[p]).max(0) as u128;
                                (((rng.next() as u128) << 64 | rng.next() as u128) % (rem + 1)) as i128
                            }
                        }
                        .max(0);
                        q += 1;
                        let got = it.advance_prefix(P::from_i128(n));
                        // the item containing unit n+1 past the current running total
                        let exp = (0..len).find(|&i| sums[i + 1] > sums[p] + n).filter(|&i| i >= p && i < b);
                        match (got, exp) {
                            (None, None) => {}
                            (Some(s), Some(i)) => {
                                let v = <$t as ColumnValueRef>::to_owned(s.pv.value);
                                if s.pos != i || s.delta.to_i128() != sums[i] - sums[p] || v != model[i] || s.pv.total().to_i128() != sums[i + 1] {
                                    out.push((
                                        "advance_prefix".into(),
                                        format!("iter_range({a}..{b})+{k}×next, advance_prefix({n}) = (pos {}, delta {:?}, value {}, total {:?}), model (pos {i}, delta {}, value {}, total {})", s.pos, s.delta, v.show(), s.pv.total(), sums[i] - sums[p], model[i].show(), sums[i + 1]),
                                    ));
                                } else {
                                    let nx = it.next().map(|pv| <$t as ColumnValueRef>::to_owned(pv.value));
                                    let expn = if i + 1 < b { Some(model[i + 1].clone()) } else { None };
                                    if nx != expn {
                                        out.push(("advance_prefix".into(), format!("iter_range({a}..{b})+{k}×next, advance_prefix({n}) then next() = {:?}, model {:?}", nx.map(|v| v.show()), expn.map(|v| v.show()))));
                                    }
                                }
                            }
                            (got, exp) => out.push((
                                "advance_prefix".into(),
                                format!("iter_range({a}..{b})+{k}×next, advance_prefix({n}) = {:?}, model lands on {:?}", got.map(|s| s.pos), exp),
                            )),
                        }
                    }
                }
                counts.push(("prefix_queries", q));
                // scope_to_value on the inner column
                if let Some(w) = sorted_window(model, rng) {
                    let target: $t = model[rng.range(w.start, w.end - 1)].clone();
                    let exp = model_scope(model, w.start, w.end, &target);
                    let got = self.values().scope_to_value(target.clone(), w.clone());
                    counts.push(("scope_queries", 1));
                    if got != exp {
                        out.push(("scope_to_value".into(), format!("values().scope_to_value({}, {w:?}) = {got:?}, model {exp:?}", target.show())));
                    }
                }
            }
        }
    };
}

/// plain `Iter` over the inner column of a PrefixColumn
pub struct PlainInnerW<'a, T: hexane::PrefixValue> {
    pub it: hexane::Iter<'a, T>,
    pub col: &'a PrefixColumn<T>,
}

impl<'a, T: hexane::PrefixValue + Val> WalkIter<T> for PlainInnerW<'a, T> {
    fn w_next(&mut self) -> Option<T> {
        self.it.next().map(T::to_owned)
    }
    fn w_nth(&mut self, n: usize) -> Option<T> {
        self.it.nth(n).map(T::to_owned)
    }
    fn w_advance_to(&mut self, t: usize) {
        self.it.advance_to(t)
    }
    fn w_advance_by(&mut self, k: usize) {
        self.it.advance_by(k)
    }
    fn w_set_max(&mut self, m: usize) {
        self.it.set_max(m)
    }
    fn w_shift(&mut self, r: Range<usize>) {
        self.it.shift(r)
    }
    fn w_shift_next(&mut self, r: Range<usize>) -> Option<T> {
        self.it.shift_next(r).map(T::to_owned)
    }
    fn w_next_run(&mut self) -> Option<Vec<T>> {
        self.it.next_run().map(|r| vec![T::to_owned(r.value); r.count])
    }
    fn w_pos(&self) -> usize {
        self.it.pos()
    }
    fn w_end(&self) -> usize {
        self.it.end_pos()
    }
    fn w_suspend_resume(self) -> Result<Self, String> {
        let st = self.it.suspend();
        let it = st.try_resume(self.col.values()).map_err(pe)?;
        Ok(PlainInnerW { it, col: self.col })
    }
    fn w_scan(&mut self, target: &T) -> Option<Option<usize>> {
        Some(self.it.scan_to_value(AsColumnRef::<T>::as_column_ref(target)))
    }
}

impl_prefix!(u32, "PrefixColumn<u32>", true);
impl_prefix!(u64, "PrefixColumn<u64>", true);
impl_prefix!(bool, "PrefixColumn<bool>", true);
impl_prefix!(Option<u32>, "PrefixColumn<Option<u32>>", true);
impl_prefix!(Option<u64>, "PrefixColumn<Option<u64>>", true);

// ---------------------------------------------------------------------------
// DeltaColumn<T>
// ---------------------------------------------------------------------------

pub trait DeltaVal: hexane::DeltaValue + Val {
    fn from_i64v(v: i64) -> Self;
}
impl DeltaVal for u64 {
    fn from_i64v(v: i64) -> Self {
        v as u64
    }
}
impl DeltaVal for i64 {
    fn from_i64v(v: i64) -> Self {
        v
    }
}
impl DeltaVal for u32 {
    fn from_i64v(v: i64) -> Self {
        v as u32
    }
}
impl DeltaVal for Option<u64> {
    fn from_i64v(v: i64) -> Self {
        Some(v as u64)
    }
}
impl DeltaVal for Option<i64> {
    fn from_i64v(v: i64) -> Self {
        Some(v)
    }
}

pub struct DeltaW<'a, T: hexane::DeltaValue> {
    pub it: hexane::DeltaIter<'a, T>,
    pub col: &'a DeltaColumn<T>,
}

fn expand_delta_run<T: DeltaVal>(r: hexane::DeltaRun) -> Vec<T> {
    match r.delta {
        None => vec![T::null_value(); r.count],
        Some(d) => (1..=r.count as i128).map(|k| T::from_i64v((r.prefix as i128 + d as i128 * k) as i64)).collect(),
    }
}

impl<'a, T: DeltaVal> WalkIter<T> for DeltaW<'a, T> {
    fn w_next(&mut self) -> Option<T> {
        self.it.next()
    }
    fn w_nth(&mut self, n: usize) -> Option<T> {
        self.it.nth(n)
    }
    fn w_advance_to(&mut self, t: usize) {
        self.it.advance_to(t)
    }
    fn w_advance_by(&mut self, k: usize) {
        self.it.advance_by(k)
    }
    fn w_set_max(&mut self, m: usize) {
        self.it.set_max(m)
    }
    fn w_shift(&mut self, r: Range<usize>) {
        self.it.shift(r)
    }
    fn w_shift_next(&mut self, r: Range<usize>) -> Option<T> {
        self.it.shift_next(r)
    }
    fn w_next_run(&mut self) -> Option<Vec<T>> {
        self.it.next_run().map(expand_delta_run::<T>)
    }
    fn w_pos(&self) -> usize {
        self.it.pos()
    }
    fn w_end(&self) -> usize {
        self.it.end_pos()
    }
    fn w_suspend_resume(self) -> Result<Self, String> {
        let st = self.it.suspend();
        let it = st.try_resume(self.col).map_err(pe)?;
        Ok(DeltaW { it, col: self.col })
    }
    fn w_scan(&mut self, target: &T) -> Option<Option<usize>> {
        Some(self.it.scan_to_value(*target))
    }
}

struct DeltaSusp(hexane::DeltaIterState);

/// Signature + text of a query that panicked.
pub fn query_panic(q: &str, call: String, p: String) -> Mis {
    (format!("{q}|{}", amv::fw::panic_sig(&p)), format!("{call} panicked: {p}"))
}

macro_rules! impl_delta {
    ($t:ty, $name:expr, $doms:expr) => {
        impl Resumable<DeltaColumn<$t>> for DeltaSusp {
            fn resume(&self, col: &DeltaColumn<$t>) -> Result<Vec<String>, String> {
                match self.0.try_resume(col) {
                    Ok(it) => Ok(it.map(|v: $t| v.show()).collect()),
                    Err(e) => Err(pe(e)),
                }
            }
        }
        impl Tgt for DeltaColumn<$t> {
            type V = $t;
            const NAME: &'static str = $name;
            const FAMILY: Family = Family::Delta;
            fn doms() -> Vec<Dom> {
                $doms
            }
            fn new(ms: usize) -> Self {
                DeltaColumn::with_max_segments(ms)
            }
            fn len(&self) -> usize {
                DeltaColumn::len(self)
            }
            fn slab_count(&self) -> usize {
                DeltaColumn::slab_count(self)
            }
            fn get(&self, i: usize) -> Option<$t> {
                DeltaColumn::get(self, i)
            }
            fn to_vec(&self) -> Vec<$t> {
                DeltaColumn::to_vec(self)
            }
            fn iter_all(&self) -> Vec<$t> {
                self.iter().collect()
            }
            fn iter_range(&self, r: Range<usize>) -> Vec<$t> {
                DeltaColumn::iter_range(self, r).collect()
            }
            fn runs(&self, r: Range<usize>) -> Vec<($t, usize)> {
                let mut out = vec![];
                for run in DeltaColumn::iter_range(self, r).runs() {
                    for v in expand_delta_run::<$t>(run) {
                        out.push((v, 1));
                    }
                }
                out
            }
            fn walk(&self, model: &[$t], rng: &mut Rng) -> Result<usize, Mis> {
                walk(model, rng, |r| DeltaW { it: DeltaColumn::iter_range(self, r), col: self })
            }
            fn suspend_at(&self, at: usize) -> Box<dyn Resumable<Self>> {
                Box::new(DeltaSusp(DeltaColumn::iter_range(self, at..DeltaColumn::len(self)).suspend()))
            }
            fn insert(&mut self, i: usize, v: $t) {
                DeltaColumn::insert(self, i, v)
            }
            fn remove(&mut self, i: usize) {
                DeltaColumn::remove(self, i)
            }
            fn remove_n(&mut self, i: usize, n: usize) {
                DeltaColumn::remove_n(self, i, n)
            }
            fn push(&mut self, v: $t) {
                DeltaColumn::push(self, v)
            }
            fn clear(&mut self) {
                DeltaColumn::clear(self)
            }
            fn truncate(&mut self, n: usize) {
                DeltaColumn::truncate(self, n)
            }
            fn splice(&mut self, i: usize, del: usize, vals: Vec<$t>) {
                DeltaColumn::splice(self, i, del, vals)
            }
            fn splice_runs(&mut self, i: usize, del: usize, runs: Vec<($t, usize)>) {
                // n copies of v = a run of zero deltas anchored at v
                let runs: Vec<hexane::DeltaRun> = runs
                    .into_iter()
                    .map(|(v, count)| match hexane::DeltaValue::to_i64(v) {
                        None => hexane::DeltaRun { prefix: 0, delta: None, count },
                        Some(x) => hexane::DeltaRun { prefix: x, delta: Some(0), count },
                    })
                    .collect();
                DeltaColumn::splice_runs(self, i, del, runs)
            }
            fn splice_from(&mut self, i: usize, del: usize, src: &Self, range: Range<usize>) {
                DeltaColumn::splice_runs(self, i, del, DeltaColumn::iter_range(src, range).runs())
            }
            fn copy_ranges(&mut self, src: Self, splices: Vec<Splice>) {
                DeltaColumn::copy_ranges(self, src, splices)
            }
            fn extend(&mut self, vals: Vec<$t>) {
                Extend::extend(self, vals)
            }
            fn edit(&mut self, script: &[EditStep<$t>]) -> Vec<Option<$t>> {
                let mut peeks = vec![];
                let mut e = std::mem::ManuallyDrop::new(DeltaColumn::edit(self));
                for s in script {
                    match s {
                        EditStep::Seek(to) => {
                            e.seek(*to);
                        }
                        EditStep::Advance(n) => {
                            e.advance(*n);
                        }
                        EditStep::Delete(n) => {
                            e.delete(*n);
                        }
                        EditStep::Insert(v) => {
                            e.insert(*v);
                        }
                        EditStep::InsertRun(v, n) => {
                            e.insert_run(*v, *n);
                        }
                        EditStep::Peek => peeks.push(e.peek()),
                        EditStep::Replace(v) => {
                            e.replace(|_| *v);
                        }
                    }
                }
                e.finish();
                drop(std::mem::ManuallyDrop::into_inner(e));
                peeks
            }
            fn save(&self) -> Vec<u8> {
                DeltaColumn::save(self)
            }
            fn load(bytes: &[u8]) -> Result<Self, String> {
                DeltaColumn::load(bytes).map_err(pe)
            }
            fn load_ms(bytes: &[u8], ms: usize) -> Result<Self, String> {
                DeltaColumn::load_with(bytes, LoadOpts::new().with_max_segments(ms)).map_err(pe)
            }
            fn load_len(bytes: &[u8], len: usize) -> Result<Self, String> {
                DeltaColumn::load_with(bytes, LoadOpts::new().with_length(len)).map_err(pe)
            }
            fn check_invariants(&self) {
                DeltaColumn::check_invariants(self)
            }
            fn validate_encoding(&self) -> Result<(), String> {
                Ok(())
            }
            fn dup(&self) -> Self {
                self.clone()
            }
            fn extra(&self, model: &[$t], dom: Dom, rng: &mut Rng, out: &mut Vec<Mis>, counts: &mut Vec<(&'static str, u64)>) {
                let _ = dom;
                let len = model.len();
                let mut q = 0u64;
                let present: Vec<i64> = model.iter().filter_map(|v| v.as_i64()).collect();
                let pick_target = |rng: &mut Rng| -> i64 {
                    if !present.is_empty() && rng.chance(70) {
                        let v = present[rng.below(present.len())];
                        match rng.below(6) {
                            0 => v.saturating_add(1),
                            1 => v.saturating_sub(1),
                            _ => v,
                        }
                    } else {
                        <i64 as Val>::batch(rng, 1, dom).pop().unwrap()
                    }
                };
                // find_by_value / find_first
                for _ in 0..4 {
                    let t = pick_target(rng);
                    let tv = <$t as DeltaVal>::from_i64v(t);
                    if tv.as_i64() != Some(t) {
                        continue; // not representable in this type (e.g. negative for unsigned)
                    }
                    let exp: Vec<usize> = (0..len).filter(|&i| model[i].as_i64() == Some(t)).collect();
                    q += 1;
                    match amv::fw::catch(|| {
                        let mut got: Vec<usize> = DeltaColumn::find_by_value(self, tv).collect();
                        got.sort();
                        (got, DeltaColumn::find_first(self, tv))
                    }) {
                        Err(p) => out.push(query_panic("find_by_value", format!("find_by_value({t})"), p)),
                        Ok((got, first)) => {
                            if got != exp {
                                out.push(("find_by_value".into(), format!("find_by_value({t}) = {got:?}, model {exp:?}")));
                            }
                            if first != exp.first().copied() {
                                out.push(("find_first".into(), format!("find_first({t}) = {first:?}, model {:?}", exp.first())));
                            }
                        }
                    }
                }
                // find_by_range, bounds inside the value domain
                for _ in 0..3 {
                    let (mut lo, mut hi) = (pick_target(rng), pick_target(rng));
                    if lo > hi {
                        std::mem::swap(&mut lo, &mut hi);
                    }
                    if rng.chance(50) {
                        hi = hi.saturating_add(rng.range(1, 5) as i64);
                    }
                    let exp: Vec<usize> = (0..len).filter(|&i| model[i].as_i64().map(|v| lo <= v && v < hi).unwrap_or(false)).collect();
                    q += 1;
                    match amv::fw::catch(|| {
                        let mut got: Vec<usize> = DeltaColumn::find_by_range(self, lo..hi).collect();
                        got.sort();
                        got
                    }) {
                        Err(p) => out.push(query_panic("find_by_range", format!("find_by_range({lo}..{hi})"), p)),
                        Ok(got) => {
                            if got != exp {
                                out.push(("find_by_range".into(), format!("find_by_range({lo}..{hi}) = {got:?}, model {exp:?}")));
                            }
                        }
                    }
                }
                // find_by_range with bounds anywhere in i64 (no documented restriction on the bounds)
                if rng.chance(25) {
                    let ext = [i64::MIN, i64::MIN + 1, -(1 << 62), -1, 0, 1, 1 << 62, i64::MAX - 1, i64::MAX];
                    let (mut lo, mut hi) = (*rng.pick(&ext), *rng.pick(&ext));
                    if lo > hi {
                        std::mem::swap(&mut lo, &mut hi);
                    }
                    let exp: Vec<usize> = (0..len).filter(|&i| model[i].as_i64().map(|v| lo <= v && v < hi).unwrap_or(false)).collect();
                    q += 1;
                    match amv::fw::catch(|| {
                        let mut got: Vec<usize> = DeltaColumn::find_by_range(self, lo..hi).collect();
                        got.sort();
                        got
                    }) {
                        Err(p) => out.push(query_panic("find_by_range-wide-bounds", format!("find_by_range({lo}..{hi})"), p)),
                        Ok(got) => {
                            if got != exp {
                                out.push(("find_by_range-wide-bounds".into(), format!("find_by_range({lo}..{hi}) = {got:?}, model {exp:?}")));
                            }
                        }
                    }
                }
                counts.push(("find_queries", q));
                // scope_to_value on a sorted window
                if let Some(w) = sorted_window(model, rng) {
                    let target: $t = if rng.chance(70) {
                        model[rng.range(w.start, w.end - 1)]
                    } else {
                        let t = pick_target(rng);
                        let tv = <$t as DeltaVal>::from_i64v(t);
                        if tv.as_i64() == Some(t) {
                            tv
                        } else {
                            model[w.start]
                        }
                    };
                    let exp = model_scope(model, w.start, w.end, &target);
                    counts.push(("scope_queries", 1));
                    match amv::fw::catch(|| DeltaColumn::scope_to_value(self, target, w.clone())) {
                        Err(p) => out.push(query_panic("scope_to_value", format!("scope_to_value({}, {w:?})", target.show()), p)),
                        Ok(got) => {
                            if got != exp {
                                out.push(("scope_to_value".into(), format!("scope_to_value({}, {w:?}) = {got:?}, model {exp:?}", target.show())));
                            }
                        }
                    }
                }
                // first / last
                if DeltaColumn::first(self) != model.first().copied() || DeltaColumn::last(self) != model.last().copied() {
                    out.push(("first/last".into(), format!("first/last = {:?}/{:?}, model {:?}/{:?}", DeltaColumn::first(self), DeltaColumn::last(self), model.first(), model.last())));
                }
            }
        }
    };
}

const W62: Dom = Dom::new(-(1 << 62), (1 << 62) - 1);
const NONNEG: Dom = Dom::new(0, i64::MAX as i128);
// the running value starts from an implicit 0, so windows contain 0
const NEG: Dom = Dom::new(-(i64::MAX as i128), 0);
const SMALL: Dom = Dom::new(0, 100_000);

impl_delta!(u64, "DeltaColumn<u64>", vec![NONNEG, SMALL]);
impl_delta!(i64, "DeltaColumn<i64>", vec![W62, NONNEG, NEG, SMALL]);
impl_delta!(u32, "DeltaColumn<u32>", vec![Dom::new(0, u32::MAX as i128), SMALL]);
impl_delta!(Option<u64>, "DeltaColumn<Option<u64>>", vec![NONNEG, SMALL]);
impl_delta!(Option<i64>, "DeltaColumn<Option<i64>>", vec![W62, NONNEG, NEG, SMALL]);
