//! RawColumn against a Vec<Vec<u8>> of blobs (all splices at blob boundaries,
//! which is the documented contract that makes `get(range)` of a blob valid).
use amv::fw::*;
use hexane::{RawColumn, Splice};
use serde_json::json;

pub struct RawBuilt {
    pub col: RawColumn,
    pub blobs: Vec<Vec<u8>>,
    pub ops: Vec<String>,
    pub kinds: Vec<&'static str>,
    pub ms: usize,
}

fn blob(rng: &mut Rng, ms: usize) -> Vec<u8> {
    let n = match rng.below(20) {
        0 => 0,
        1 => ms,
        2 => ms + 1,
        3 => ms * 3 + 1,
        4 => ms / 4,
        5 => (ms / 4).saturating_sub(1),
        _ => rng.range(1, 12),
    };
    let b = rng.next() as u8;
    (0..n).map(|i| b.wrapping_add(i as u8)).collect()
}

fn offsets(blobs: &[Vec<u8>]) -> Vec<usize> {
    let mut o = vec![0usize];
    for b in blobs {
        o.push(o.last().unwrap() + b.len());
    }
    o
}

fn detail(b: &RawBuilt) -> serde_json::Value {
    let n = b.ops.len();
    json!({"column_type": "RawColumn", "max_segments": b.ms, "ops_total": n, "ops": b.ops.iter().skip(n.saturating_sub(300)).collect::<Vec<_>>(), "blobs": b.blobs.len()})
}

fn check(cx: &mut Ctx, prop: &str, b: &RawBuilt, rng: &mut Rng) -> usize {
    let off = offsets(&b.blobs);
    let total = *off.last().unwrap();
    let flat: Vec<u8> = b.blobs.concat();
    let col = &b.col;
    let r = catch(|| {
        let mut mis: Vec<(String, String)> = vec![];
        if col.len() != total || col.is_empty() != (total == 0) {
            mis.push(("len".into(), format!("len() = {}, model {total}", col.len())));
        }
        if col.save() != flat {
            mis.push(("save".into(), "save() differs from the concatenation of the blobs".into()));
            return mis;
        }
        // every blob is readable as one contiguous slice
        for (i, bl) in b.blobs.iter().enumerate() {
            match col.try_get(off[i]..off[i + 1]) {
                Ok(s) if s == &bl[..] => {}
                Ok(s) => {
                    mis.push(("get".into(), format!("get({}..{}) = {} bytes differing from blob {i}", off[i], off[i + 1], s.len())));
                    break;
                }
                Err(e) => {
                    mis.push(("get".into(), format!("get({}..{}) of blob {i} (spliced at blob boundaries only) failed: {e}", off[i], off[i + 1])));
                    break;
                }
            }
        }
        // sequential reader over all blobs
        let mut it = col.iter();
        for (i, bl) in b.blobs.iter().enumerate() {
            if it.pos() != off[i] {
                mis.push(("iter.pos".into(), format!("iter().pos() = {} before blob {i}, model {}", it.pos(), off[i])));
                break;
            }
            if it.take(bl.len()) != &bl[..] {
                mis.push(("iter.take".into(), format!("iter().take({}) differs at blob {i}", bl.len())));
                break;
            }
        }
        // positioned readers, skip / seek_to
        if !b.blobs.is_empty() {
            for _ in 0..3 {
                let i = rng.below(b.blobs.len());
                let mut it = col.iter_at(off[i]);
                if it.take(b.blobs[i].len()) != &b.blobs[i][..] {
                    mis.push(("iter_at".into(), format!("iter_at({}).take({}) differs at blob {i}", off[i], b.blobs[i].len())));
                }
                let j = rng.range(i, b.blobs.len() - 1);
                let mut it = col.iter_at(off[i]);
                if rng.chance(50) {
                    it.skip(off[j] - off[i]);
                } else {
                    it.seek_to(off[j]);
                }
                if it.pos() != off[j] || it.take(b.blobs[j].len()) != &b.blobs[j][..] {
                    mis.push(("iter.skip".into(), format!("iter_at({}) skipped to {} then take({}) differs at blob {j}", off[i], off[j], b.blobs[j].len())));
                }
            }
        }
        // out-of-bounds reads are errors, not panics
        if col.try_get(total..total + 1).is_ok() || col.try_get(0..total + 1).is_ok() {
            mis.push(("try_get".into(), "try_get past the end returned Ok".into()));
        }
        mis
    });
    cx.add("raw_reads", b.blobs.len() as u64 + 1);
    match r {
        Err(p) => {
            cx.violation(&format!("{prop}|RawColumn|read|{}", panic_sig(&p)), format!("RawColumn: a read panicked: {p}"), detail(b));
            1
        }
        Ok(mis) => {
            let n = mis.len();
            for (q, t) in mis {
                cx.violation(&format!("{prop}|RawColumn|{q}"), format!("RawColumn: {t}"), detail(b));
            }
            n
        }
    }
}

pub fn drive(cx: &mut Ctx, prop: &str, rng: &mut Rng, nops: usize, checked: bool) -> RawBuilt {
    let ms = *rng.pick(&[1usize, 4, 8, 16, 32, 64, 4096]);
    let mut b = RawBuilt { col: RawColumn::with_max_segments(ms), blobs: vec![], ops: vec![], kinds: vec![], ms };
    for _ in 0..nops {
        let n = b.blobs.len();
        let off = offsets(&b.blobs);
        let kind;
        let text;
        let shrink = n > 400;
        let r = match rng.weighted(&[50, 20, 10, 10, 10]) {
            0 | 1 | 2 => {
                // splice at a blob boundary: delete d blobs, insert k blobs
                let i = match rng.below(4) {
                    0 => n,
                    1 => 0,
                    _ => rng.below(n + 1),
                };
                let d = if shrink { rng.range(0, (n - i).min(200)) } else { rng.below((n - i).min(4) + 1) };
                let k = if shrink { 0 } else { rng.below(4) };
                let new: Vec<Vec<u8>> = (0..k).map(|_| blob(rng, ms)).collect();
                let (at, del) = (off[i], off[i + d] - off[i]);
                let mode = rng.below(3);
                kind = ["splice", "splice_slice", "try_splice"][mode];
                text = format!("{kind}(at={at}, del={del}, blobs {:?})", new.iter().map(|x| x.len()).collect::<Vec<_>>());
                let col = &mut b.col;
                let new2 = new.clone();
                let r = catch(move || match mode {
                    0 => col.splice(at, del, new2.iter()),
                    1 => col.splice_slice(at, del, &new2.concat()),
                    _ => col.try_splice(at, del, new2.iter()).expect("in-bounds try_splice returned Err"),
                });
                b.blobs.splice(i..i + d, new);
                r
            }
            3 => {
                // copy_ranges from another arena
                let sn = rng.below(30);
                let sms = if rng.chance(60) { ms } else { *rng.pick(&[1usize, 4, 16, 64]) };
                let mut src = RawColumn::with_max_segments(sms);
                let sblobs: Vec<Vec<u8>> = (0..sn).map(|_| blob(rng, sms)).collect();
                for (i, s) in sblobs.iter().enumerate() {
                    let at = if i % 3 == 0 { 0 } else { src.len() };
                    src.splice_slice(at, 0, s);
                }
                // src order: blobs with i%3==0 were prepended in reverse
                let mut ordered: Vec<Vec<u8>> = vec![];
                for (i, s) in sblobs.iter().enumerate() {
                    if i % 3 == 0 {
                        ordered.insert(0, s.clone());
                    } else {
                        ordered.push(s.clone());
                    }
                }
                let soff = offsets(&ordered);
                let k = rng.range(1, 3);
                let mut splices = vec![];
                let mut plan = vec![];
                let (mut dpos, mut spos) = (0usize, 0usize);
                for _ in 0..k {
                    let pi = dpos + rng.below(n - dpos + 1);
                    let pd = rng.below((n - pi).min(3) + 1);
                    let si = spos + rng.below(sn - spos + 1);
                    let se = si + rng.below(sn - si + 1);
                    splices.push(Splice { pos: off[pi], delete: off[pi + pd] - off[pi], range: soff[si]..soff[se] });
                    plan.push((pi, pd, si, se));
                    dpos = pi + pd;
                    spos = se;
                }
                kind = "copy_ranges";
                text = format!("copy_ranges(src ms={sms} {} blobs, {:?})", sn, splices);
                let col = &mut b.col;
                let r = catch(move || col.copy_ranges(src, splices));
                for (pi, pd, si, se) in plan.into_iter().rev() {
                    b.blobs.splice(pi..pi + pd, ordered[si..se].iter().cloned());
                }
                r
            }
            _ => {
                // reload
                kind = "reload";
                let lms = if rng.chance(50) { ms } else { 4096 };
                text = format!("load_with_max_segments(save(), {lms})");
                let col = &mut b.col;
                catch(move || {
                    let bytes = col.save();
                    *col = RawColumn::load_with_max_segments(&bytes, lms).expect("RawColumn::load is infallible");
                })
            }
        };
        cx.trace(|| text.clone());
        b.ops.push(text);
        b.kinds.push(kind);
        cx.count("ops_applied");
        if let Err(p) = r {
            cx.violation(&format!("{prop}|RawColumn|op:{kind}|{}", panic_sig(&p)), format!("RawColumn: {kind} at blob boundaries panicked: {p}"), detail(&b));
            return b;
        }
        if checked && check(cx, prop, &b, rng) > 0 {
            return b;
        }
    }
    b
}

pub fn run_c34(cx: &mut Ctx, rng: &mut Rng, counter: &'static str) {
    let nops = if cx.tier == Tier::Thorough { rng.range(20, 600) } else { rng.range(20, 150) };
    let b = drive(cx, "c34", rng, nops, true);
    cx.count(counter);
    let total: usize = b.blobs.iter().map(|x| x.len()).sum();
    if total > b.ms {
        // more bytes than one slab's budget: the arena has split
        let mut s = String::from("RawColumn");
        for k in &b.kinds {
            s.push('|');
            s.push_str(k);
        }
        cx.nontrivial(hash_str(&s));
    }
}
