//! hexv — runtime monitors for the hexane column library (C34, C35).
#![allow(dead_code)]
mod c34;
mod c35;
mod mutate;
mod raw;
mod tgt;
mod vals;

fn main() {
    amv::cli_main(vec![Box::new(c34::C34), Box::new(c35::C35)])
}
