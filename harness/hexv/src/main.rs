fn main() {
    println!("placeholder");
}
