//! C35 — Hexane encodings round-trip and reject bad data safely.
use crate::c34::{drive, pick_ms};
use crate::mutate::*;
use crate::tgt::*;
use crate::vals::*;
use amv::fw::*;
use hexane::{Column, DeltaColumn, PrefixColumn, RawColumn};
use serde_json::json;

pub struct C35;

/// Columns longer than this are read by sampling instead of `to_vec`.
const CAP: usize = 40_000;

#[derive(Clone, Debug)]
pub struct Info {
    /// how the bytes were made
    pub origin: String,
    /// Some(k): k byte-level edits away from a valid encoding
    pub edits: Option<usize>,
    /// the bytes are an untouched valid encoding of this type
    pub valid_for: Option<&'static str>,
}

#[derive(Clone, Debug, PartialEq)]
struct Summary<V> {
    len: usize,
    vals: Option<Vec<V>>,
    samples: Vec<(usize, Option<V>, Vec<V>)>,
}

fn sample_points(len: usize) -> Vec<usize> {
    if len == 0 {
        return vec![0];
    }
    let mut p = vec![0, len - 1, len / 2, len / 3, len / 7, len.saturating_sub(2), 1.min(len - 1), 63.min(len - 1), 64.min(len - 1), 65.min(len - 1)];
    let mut x = len as u64;
    for _ in 0..8 {
        x = x.wrapping_mul(0x9e37_79b9_7f4a_7c15).rotate_left(23) ^ 0x5555;
        p.push((x % len as u64) as usize);
    }
    p.sort();
    p.dedup();
    p
}

/// Read everything (or a deterministic sample of a huge column).
fn summarize<K: Tgt>(col: &K) -> Result<Summary<K::V>, String> {
    let len = col.len();
    let mut s = Summary { len, vals: None, samples: vec![] };
    if len <= CAP {
        let v = col.to_vec();
        if v.len() != len {
            return Err(format!("to_vec() has {} items, len() = {len}", v.len()));
        }
        let it = col.iter_all();
        if it != v {
            return Err("iter() and to_vec() disagree".into());
        }
        let runs = col.runs(0..len);
        let mut flat = Vec::with_capacity(len);
        for (x, n) in runs {
            for _ in 0..n {
                flat.push(x.clone());
                if flat.len() > len {
                    break;
                }
            }
        }
        if flat != v {
            return Err("runs expanded and to_vec() disagree".into());
        }
        for i in sample_points(len) {
            let g = col.get(i);
            if g.as_ref() != v.get(i) {
                return Err(format!("get({i}) = {:?} but to_vec()[{i}] = {:?}", g.map(|x| x.show()), v.get(i).map(|x| x.show())));
            }
        }
        if col.get(len).is_some() {
            return Err(format!("get({len}) is Some at len {len}"));
        }
        s.vals = Some(v);
    } else {
        for i in sample_points(len) {
            let g = col.get(i);
            if g.is_none() {
                return Err(format!("get({i}) = None at len {len}"));
            }
            let w = col.iter_range(i..i.saturating_add(6).min(len));
            if w.first() != g.as_ref() {
                return Err(format!("iter_range({i}..) starts with {:?} but get({i}) = {:?}", w.first().map(|x| x.show()), g.as_ref().map(|x| x.show())));
            }
            s.samples.push((i, g, w));
        }
        if col.get(len).is_some() {
            return Err(format!("get({len}) is Some at len {len}"));
        }
    }
    Ok(s)
}

fn detail<K: Tgt>(bytes: &[u8], info: &Info, extra: serde_json::Value) -> serde_json::Value {
    json!({
        "column_type": K::NAME,
        "input_len": bytes.len(),
        "input_hex": hex::encode(&bytes[..bytes.len().min(600)]),
        "origin": info.origin,
        "edits_from_valid": info.edits,
        "valid_encoding_of": info.valid_for,
        "extra": extra,
    })
}

/// `load` of untrusted bytes: Ok or Err, never a panic; an Ok column reads without
/// panicking and saves to bytes that load to the same values.
pub fn load_fuzz<K: Tgt>(cx: &mut Ctx, bytes: &[u8], info: &Info, counter: &'static str) {
    let utf8_before = hexane::verif_hooks::invalid_utf8_count();
    let calls_before = hexane::verif_hooks::unchecked_calls();
    cx.count(counter);
    let small_ms = 2 + (fnv(bytes) % 7) as usize;
    let pulls = (fnv(bytes) >> 8) as usize % 6;
    for variant in 0..3 {
        let how = match variant {
            0 => "load".to_string(),
            1 => format!("load_with(max_segments={small_ms})"),
            _ => format!("load_iter + {pulls}x try_next_run + finalize"),
        };
        let r = catch(|| match variant {
            0 => K::load(bytes),
            1 => K::load_ms(bytes, small_ms),
            _ => K::load_stream(bytes, pulls),
        });
        let col = match r {
            Err(p) => {
                cx.violation(&format!("c35|{}|load|{}", crate::c34::family_name::<K>(), panic_sig(&p)), format!("{}::{how} panicked on untrusted bytes: {p}", K::NAME), detail::<K>(bytes, info, json!({})));
                continue;
            }
            Ok(Err(e)) => {
                cx.count("loads_err");
                if info.valid_for == Some(K::NAME) {
                    cx.violation(&format!("c35|{}|own-bytes-rejected", crate::c34::family_name::<K>()), format!("{}::{how} rejected bytes written by save() of the same type: {e}", K::NAME), detail::<K>(bytes, info, json!({})));
                }
                continue;
            }
            Ok(Ok(c)) => c,
        };
        cx.count("loads_ok");
        if info.edits.is_some() {
            cx.count("mutated_accepted");
        } else if info.valid_for.is_none() {
            cx.count("crafted_or_arbitrary_accepted");
        }
        cx.max("loaded_len", col.len().min(u64::MAX as usize) as u64);
        let s1 = match catch(|| summarize(&col)) {
            Err(p) => {
                cx.violation(&format!("c35|{}|read-after-load|{}", crate::c34::family_name::<K>(), panic_sig(&p)), format!("reading a column returned by {}::{how} panicked: {p}", K::NAME), detail::<K>(bytes, info, json!({"len": col.len()})));
                continue;
            }
            Ok(Err(e)) => {
                cx.violation(&format!("c35|{}|read-after-load-inconsistent", crate::c34::family_name::<K>()), format!("column returned by {}::{how} reads inconsistently: {e}", K::NAME), detail::<K>(bytes, info, json!({"len": col.len()})));
                continue;
            }
            Ok(Ok(s)) => s,
        };
        if s1.len > CAP {
            cx.count("huge_columns_sampled");
        }
        // save → load → same values
        let saved = match catch(|| col.save()) {
            Err(p) => {
                cx.violation(&format!("c35|{}|save-after-load|{}", crate::c34::family_name::<K>(), panic_sig(&p)), format!("save() of a column returned by {}::{how} panicked: {p}", K::NAME), detail::<K>(bytes, info, json!({})));
                continue;
            }
            Ok(b) => b,
        };
        if saved == bytes {
            cx.count("resave_identical");
        }
        match catch(|| K::load(&saved).map(|c2| summarize(&c2))) {
            Err(p) => cx.violation(&format!("c35|{}|reload|{}", crate::c34::family_name::<K>(), panic_sig(&p)), format!("loading the re-saved bytes of an accepted column panicked: {p}"), detail::<K>(bytes, info, json!({"resaved_hex": hex::encode(&saved[..saved.len().min(600)])}))),
            Ok(Err(e)) => cx.violation(&format!("c35|{}|resave-rejected", crate::c34::family_name::<K>()), format!("{}: {how} accepted the input but load(save()) of that column fails: {e}", K::NAME), detail::<K>(bytes, info, json!({"resaved_hex": hex::encode(&saved[..saved.len().min(600)])}))),
            Ok(Ok(Err(e))) => cx.violation(&format!("c35|{}|read-after-reload-inconsistent", crate::c34::family_name::<K>()), format!("{}: the re-saved column reads inconsistently: {e}", K::NAME), detail::<K>(bytes, info, json!({}))),
            Ok(Ok(Ok(s2))) => {
                if s1 != s2 {
                    cx.violation(&format!("c35|{}|resave-values-differ", crate::c34::family_name::<K>()), format!("{}: load(save(col)) has different values than col (col from {how}); len {} vs {}", K::NAME, s1.len, s2.len), detail::<K>(bytes, info, json!({"resaved_hex": hex::encode(&saved[..saved.len().min(600)])})));
                } else {
                    cx.count("resave_roundtrips");
                }
            }
        }
    }
    let calls = hexane::verif_hooks::unchecked_calls() - calls_before;
    cx.add("unchecked_str_reads", calls);
    if hexane::verif_hooks::invalid_utf8_count() > utf8_before {
        cx.violation(
            "c35|invalid-utf8-reached-unchecked",
            format!("{}: from_utf8_unchecked was handed invalid UTF-8 after load accepted the bytes", K::NAME),
            detail::<K>(bytes, info, json!({"first_invalid": hexane::verif_hooks::first_invalid().map(hex::encode)})),
        );
    }
}

/// (a) columns built by edit sequences round-trip.
fn roundtrip<K: Tgt>(cx: &mut Ctx, rng: &mut Rng, counter: &'static str, es: &[Entry35]) {
    let nops = if cx.tier == Tier::Thorough { rng.range(5, 300) } else { rng.range(5, 80) };
    let b = drive::<K>(cx, "c35", rng, nops, 600, false);
    cx.count(counter);
    if b.dead {
        cx.count("build_abandoned");
        return;
    }
    let model = &b.model;
    let bytes = match catch(|| b.col.save()) {
        Ok(x) => x,
        Err(p) => {
            cx.violation(&format!("c35|{}|save|{}", crate::c34::family_name::<K>(), panic_sig(&p)), format!("save() panicked: {p}"), b.detail(json!({})));
            return;
        }
    };
    let info = Info { origin: format!("save() of a {} built by {} ops", K::NAME, b.ops.len()), edits: None, valid_for: Some(K::NAME) };
    let ms2 = pick_ms(rng);
    let variants: Vec<(String, Box<dyn Fn() -> Result<K, String> + '_>)> = vec![
        ("load".into(), Box::new(|| K::load(&bytes))),
        (format!("load_with(max_segments={ms2})"), Box::new(|| K::load_ms(&bytes, ms2))),
        (format!("load_with(length={})", model.len()), Box::new(|| K::load_len(&bytes, model.len()))),
    ];
    let mut first: Option<K> = None;
    for (how, f) in variants {
        match catch(|| f()) {
            Err(p) => cx.violation(&format!("c35|{}|load|{}", crate::c34::family_name::<K>(), panic_sig(&p)), format!("{}::{how} of its own save() panicked: {p}", K::NAME), b.detail(json!({"bytes": hex::encode(&bytes[..bytes.len().min(600)])}))),
            Ok(Err(e)) => cx.violation(&format!("c35|{}|own-bytes-rejected", crate::c34::family_name::<K>()), format!("{}::{how} rejected the bytes written by save(): {e}", K::NAME), b.detail(json!({"bytes": hex::encode(&bytes[..bytes.len().min(600)])}))),
            Ok(Ok(c)) => {
                cx.count("loads_ok");
                match catch(|| c.to_vec()) {
                    Err(p) => cx.violation(&format!("c35|{}|read-after-load|{}", crate::c34::family_name::<K>(), panic_sig(&p)), format!("to_vec() after {how} panicked: {p}"), b.detail(json!({}))),
                    Ok(v) => {
                        if v != *model {
                            cx.violation(&format!("c35|{}|roundtrip-values-differ", crate::c34::family_name::<K>()), format!("{}: {}", K::NAME, crate::c34::diff_text(&format!("{how}(save(col)).to_vec()"), &v, model)), b.detail(json!({"bytes": hex::encode(&bytes[..bytes.len().min(600)])})));
                        } else {
                            cx.count("roundtrips");
                        }
                    }
                }
                if first.is_none() {
                    first = Some(c);
                }
            }
        }
    }
    // save of the loaded column loads to the same values
    if let Some(c) = first {
        match catch(|| {
            let b2 = c.save();
            (K::load(&b2).map(|c2| c2.to_vec()), b2)
        }) {
            Err(p) => cx.violation(&format!("c35|{}|reload|{}", crate::c34::family_name::<K>(), panic_sig(&p)), format!("save()/load() of a loaded column panicked: {p}"), b.detail(json!({}))),
            Ok((Err(e), b2)) => cx.violation(&format!("c35|{}|resave-rejected", crate::c34::family_name::<K>()), format!("{}: save() of a loaded column does not load: {e}", K::NAME), b.detail(json!({"bytes": hex::encode(&b2[..b2.len().min(600)])}))),
            Ok((Ok(v), b2)) => {
                if v != *model {
                    cx.violation(&format!("c35|{}|resave-values-differ", crate::c34::family_name::<K>()), format!("{}: {}", K::NAME, crate::c34::diff_text("load(save(load(save(col)))).to_vec()", &v, model)), b.detail(json!({})));
                } else {
                    cx.count("resave_roundtrips");
                }
                if b2 == bytes {
                    cx.count("resave_identical");
                }
            }
        }
    }
    cx.nontrivial(fnv(&bytes) ^ hash_str(K::NAME));
    // the same bytes into other column types: any outcome but a panic
    for _ in 0..3 {
        let e = &es[rng.below(es.len())];
        if e.name != K::NAME {
            cx.count("cross_type_loads");
            let info2 = Info { origin: format!("valid save() of {} loaded as {}", K::NAME, e.name), edits: None, valid_for: Some(K::NAME) };
            (e.fuzz)(cx, &bytes, &info2, "cross_type_targets");
        }
    }
    let _ = info;
    cx.sample(|| json!({"kind": "roundtrip", "column_type": K::NAME, "ops": b.ops.len(), "values": model.len(), "bytes": bytes.len()}));
}

/// Valid bytes of a small column of this type.
fn base_bytes<K: Tgt>(rng: &mut Rng) -> Vec<u8> {
    let doms = K::doms();
    let dom = *rng.pick(&doms);
    let n = match rng.below(5) {
        0 => rng.range(1, 3),
        1 => rng.range(60, 200),
        _ => rng.range(2, 30),
    };
    let vals = K::V::batch(rng, n, dom);
    let mut c = K::new(64);
    c.splice(0, 0, vals);
    c.save()
}

pub struct Entry35 {
    pub name: &'static str,
    pub counter: &'static str,
    pub wire: Wire,
    pub delta: bool,
    pub roundtrip: fn(&mut Ctx, &mut Rng, &'static str, &[Entry35]),
    pub fuzz: fn(&mut Ctx, &[u8], &Info, &'static str),
    pub base: fn(&mut Rng) -> Vec<u8>,
}

macro_rules! e35 {
    ($t:ty, $name:expr, $wire:expr, $delta:expr) => {
        Entry35 { name: $name, counter: concat!("type:", $name), wire: $wire, delta: $delta, roundtrip: roundtrip::<$t>, fuzz: load_fuzz::<$t>, base: base_bytes::<$t> }
    };
}

// ---- RawColumn -------------------------------------------------------------

fn raw_fuzz(cx: &mut Ctx, bytes: &[u8], info: &Info, counter: &'static str) {
    cx.count(counter);
    let r = catch(|| {
        let ms = 1 + (fnv(bytes) % 9) as usize;
        let mut problems = vec![];
        for col in [RawColumn::load(bytes), RawColumn::load_with_max_segments(bytes, ms)] {
            match col {
                Err(e) => problems.push(format!("load failed: {e}")),
                Ok(c) => {
                    if c.len() != bytes.len() || c.save() != bytes {
                        problems.push("save(load(bytes)) != bytes".to_string());
                    }
                    match c.try_get(0..bytes.len()) {
                        Ok(s) if s == bytes => {}
                        _ => problems.push("get(0..len) of a freshly loaded arena is not the input".to_string()),
                    }
                    let mut it = c.iter();
                    if it.take(bytes.len()) != bytes {
                        problems.push("iter().take(len) is not the input".to_string());
                    }
                }
            }
        }
        problems
    });
    match r {
        Err(p) => cx.violation(&format!("c35|RawColumn|load|{}", panic_sig(&p)), format!("RawColumn load/read panicked: {p}"), json!({"input_hex": hex::encode(&bytes[..bytes.len().min(600)]), "origin": info.origin})),
        Ok(problems) => {
            cx.count("loads_ok");
            for p in problems {
                cx.violation("c35|RawColumn|roundtrip", format!("RawColumn: {p}"), json!({"input_hex": hex::encode(&bytes[..bytes.len().min(600)]), "origin": info.origin}));
            }
        }
    }
}

fn raw_roundtrip(cx: &mut Ctx, rng: &mut Rng, counter: &'static str, _es: &[Entry35]) {
    let b = crate::raw::drive(cx, "c35", rng, 30, false);
    cx.count(counter);
    let flat: Vec<u8> = b.blobs.concat();
    match catch(|| b.col.save()) {
        Err(p) => cx.violation(&format!("c35|RawColumn|save|{}", panic_sig(&p)), format!("RawColumn::save panicked: {p}"), json!({"ops": b.ops})),
        Ok(bytes) => {
            if bytes != flat {
                // contents are C34's business; only the round trip is judged here
                cx.count("build_abandoned");
                return;
            }
            cx.count("roundtrips");
            cx.nontrivial(fnv(&bytes) ^ hash_str("RawColumn"));
            let info = Info { origin: "save() of a RawColumn".into(), edits: None, valid_for: Some("RawColumn") };
            raw_fuzz(cx, &bytes, &info, "raw_roundtrip_loads");
        }
    }
}

fn raw_base(rng: &mut Rng) -> Vec<u8> {
    let n = rng.below(40);
    rng.bytes(n)
}

pub fn entries() -> Vec<Entry35> {
    use Wire::*;
    vec![
        e35!(Column<u32>, "Column<u32>", Uleb, false),
        e35!(Column<u64>, "Column<u64>", Uleb, false),
        e35!(Column<i64>, "Column<i64>", Sleb, false),
        e35!(Column<usize>, "Column<usize>", Uleb, false),
        e35!(Column<String>, "Column<String>", Str, false),
        e35!(Column<Vec<u8>>, "Column<Vec<u8>>", Bytes, false),
        e35!(Column<bool>, "Column<bool>", Bool, false),
        e35!(Column<Option<u32>>, "Column<Option<u32>>", Uleb, false),
        e35!(Column<Option<u64>>, "Column<Option<u64>>", Uleb, false),
        e35!(Column<Option<i64>>, "Column<Option<i64>>", Sleb, false),
        e35!(Column<Option<usize>>, "Column<Option<usize>>", Uleb, false),
        e35!(Column<Option<String>>, "Column<Option<String>>", Str, false),
        e35!(Column<Option<Vec<u8>>>, "Column<Option<Vec<u8>>>", Bytes, false),
        e35!(PrefixColumn<u32>, "PrefixColumn<u32>", Uleb, false),
        e35!(PrefixColumn<u64>, "PrefixColumn<u64>", Uleb, false),
        e35!(PrefixColumn<bool>, "PrefixColumn<bool>", Bool, false),
        e35!(PrefixColumn<Option<u32>>, "PrefixColumn<Option<u32>>", Uleb, false),
        e35!(PrefixColumn<Option<u64>>, "PrefixColumn<Option<u64>>", Uleb, false),
        e35!(DeltaColumn<u64>, "DeltaColumn<u64>", Sleb, true),
        e35!(DeltaColumn<i64>, "DeltaColumn<i64>", Sleb, true),
        e35!(DeltaColumn<u32>, "DeltaColumn<u32>", Sleb, true),
        e35!(DeltaColumn<Option<u64>>, "DeltaColumn<Option<u64>>", Sleb, true),
        e35!(DeltaColumn<Option<i64>>, "DeltaColumn<Option<i64>>", Sleb, true),
        Entry35 { name: "RawColumn", counter: "type:RawColumn", wire: Raw, delta: false, roundtrip: raw_roundtrip, fuzz: raw_fuzz, base: raw_base },
    ]
}

/// The type a fuzz case targets: string columns get extra weight (UTF-8 tripwire).
fn pick_target(es: &[Entry35], n: u64, rng: &mut Rng) -> usize {
    if rng.chance(20) {
        let strs: Vec<usize> = es.iter().enumerate().filter(|(_, e)| e.wire == Wire::Str).map(|(i, _)| i).collect();
        return *rng.pick(&strs);
    }
    (n % es.len() as u64) as usize
}

impl Check for C35 {
    fn id(&self) -> &'static str {
        "C35"
    }
    fn cases(&self, tier: Tier) -> u64 {
        tier.pick(60_000, 1_400_000)
    }
    fn budget_s(&self, tier: Tier) -> u64 {
        tier.pick(10, 330)
    }
    fn min_nontrivial(&self, tier: Tier) -> u64 {
        tier.pick(1000, 20_000)
    }
    fn panic_is_violation(&self) -> bool {
        true
    }
    fn rule(&self) -> String {
        "case n: n mod 4 = 0: a column of type (n/4) mod 24 is built by 5-80 (thorough: -300) random C34-style edits, saved, loaded with load / load_with(max_segments) / load_with(length) and compared with the Vec, re-saved and re-loaded, and its bytes are fed to 3 other column types; = 1 or 2: a valid encoding of a small column (same type 70%, another type 30%) gets 1-8 byte-level mutations (bit flips, byte sets, truncation, deletions, insertions, LEB overflows ff*10 / 80*9 02 / overlong, null runs, header rewrites, invalid UTF-8) and is loaded; = 3: hand-crafted hostile run streams (count 0/1 runs, mergeable runs, equal literals, huge counts up to i64::MAX, literal counts beyond the data, nulls, invalid UTF-8 and over-long string lengths, delta sums leaving i64 / the type's domain, bool count streams) or arbitrary bytes. Each input is loaded three ways (load, load_with(max_segments 2..8), load_iter with 0-5 runs pulled then finalize). Every load and every later read/save runs under catch_unwind: a panic is a violation; an Ok column must read consistently (to_vec = iter = runs = get; huge columns by deterministic sampling) and its save() must load to the same values; the from_utf8_unchecked tripwire must stay at 0. Non-trivial = load succeeded or the bytes are <= 8 edits from a valid encoding; distinct by (type, input hash).".into()
    }
    fn required_counters(&self) -> Vec<&'static str> {
        let mut v = vec!["loads_ok", "loads_err", "mutated_accepted", "crafted_or_arbitrary_accepted", "roundtrips", "resave_roundtrips", "cross_type_loads", "unchecked_str_reads", "huge_columns_sampled"];
        for e in entries() {
            v.push(e.counter);
        }
        v
    }
    fn assumptions(&self) -> Vec<String> {
        vec!["workers run under RLIMIT_AS (6 GiB): an allocation bomb in load kills the worker and is reported as a crash of that case".into()]
    }
    fn run_case(&self, cx: &mut Ctx, case: u64, rng: &mut Rng) {
        let es = entries();
        let n = case / 4;
        match case % 4 {
            0 => {
                let e = &es[(n % es.len() as u64) as usize];
                (e.roundtrip)(cx, rng, e.counter, &es);
            }
            1 | 2 => {
                let ti = pick_target(&es, n, rng);
                let bi = if rng.chance(70) { ti } else { rng.below(es.len()) };
                let mut bytes = (es[bi].base)(rng);
                let valid = bytes.clone();
                let (desc, k) = mutate(rng, &mut bytes);
                let info = Info { origin: format!("valid {} encoding {} mutated: {desc}", es[bi].name, hex::encode(&valid[..valid.len().min(64)])), edits: Some(k), valid_for: None };
                cx.trace(|| format!("target {} input {} ({})", es[ti].name, hex::encode(&bytes), info.origin));
                (es[ti].fuzz)(cx, &bytes, &info, es[ti].counter);
                cx.nontrivial(fnv(&bytes) ^ hash_str(es[ti].name));
                cx.sample(|| json!({"kind": "mutated", "target": es[ti].name, "base": es[bi].name, "mutation": desc, "input": hex::encode(&bytes[..bytes.len().min(48)])}));
            }
            _ => {
                let ti = pick_target(&es, n, rng);
                let e = &es[ti];
                let (bytes, desc) = match rng.below(10) {
                    0..=1 => {
                        let b = arbitrary(rng);
                        (b, "arbitrary bytes".to_string())
                    }
                    2..=3 if e.delta => craft_delta(rng),
                    4 => {
                        // a stream for some other wire kind
                        let w = *rng.pick(&[Wire::Uleb, Wire::Sleb, Wire::Str, Wire::Bytes, Wire::Bool]);
                        craft(rng, w)
                    }
                    _ => craft(rng, if e.wire == Wire::Raw { Wire::Bytes } else { e.wire }),
                };
                let info = Info { origin: format!("crafted: {desc}"), edits: None, valid_for: None };
                cx.trace(|| format!("target {} input {} ({})", e.name, hex::encode(&bytes), info.origin));
                let before = cx.counters.get("loads_ok").copied().unwrap_or(0);
                (e.fuzz)(cx, &bytes, &info, e.counter);
                if cx.counters.get("loads_ok").copied().unwrap_or(0) > before {
                    cx.nontrivial(fnv(&bytes) ^ hash_str(e.name));
                }
                cx.sample(|| json!({"kind": "crafted", "target": e.name, "what": desc, "input": hex::encode(&bytes[..bytes.len().min(48)])}));
            }
        }
    }
}
