//! G — seeded generator of editing programs over one or more replicas.
use crate::fw::Rng;
use crate::obs::enc_width;
use automerge::marks::{ExpandMark, Mark};
use automerge::transaction::{CommitOptions, Transactable};
use automerge::{
    hydrate, ActorId, AutoCommit, Change, ChangeHash, ObjId, ObjType, ReadDoc, ScalarValue,
    TextEncoding, ROOT,
};
use std::collections::BTreeMap;

/// Deterministic actor ids. Later replicas may sort before earlier ones; some
/// ids are prefixes of others; lengths vary.
pub fn actor(n: usize) -> ActorId {
    let lead = [0x80u8, 0x20, 0xe0, 0x50, 0x10, 0xc0, 0x70, 0x05, 0xf8, 0x40, 0x28, 0xa0];
    let l = lead[n % lead.len()].wrapping_add((n / lead.len()) as u8);
    let mut b = vec![l, (n as u8).wrapping_mul(37).wrapping_add(1)];
    match n % 4 {
        0 => b.extend_from_slice(&[0xaa; 14]),
        1 => b.extend_from_slice(&[0x01, 0x02]),
        2 => {}
        _ => b.extend_from_slice(&[0xff; 30]),
    }
    ActorId::from(b)
}

#[derive(Clone, Debug)]
pub struct Profile {
    pub marks: bool,
    pub blocks: bool,
    pub counters: bool,
    pub text: bool,
    pub lists: bool,
    pub nested: bool,
    pub unicode: bool,
    /// percentage of deliberately invalid calls
    pub invalid_pct: u32,
    /// percentage of text indexes that may fall inside a multi-unit character
    pub misaligned_pct: u32,
    /// exotic scalars (Unknown type codes, NaN, bytes)
    pub exotic: bool,
    /// values are unique (unambiguous histories) or drawn from a tiny pool (runs, repeats)
    pub unique_values: bool,
    pub keys: usize,
    pub bulk: bool,
    /// invalid calls may use indexes near usize::MAX
    pub extreme_indexes: bool,
    /// element-level calls on text objects: put / insert / delete of scalars at a text index
    /// (concurrent puts make conflicted text elements)
    pub text_elem_ops: bool,
    /// scripted contention motifs (two replicas hit the same register/element concurrently, then
    /// merge, then one of them follows up) mixed into `World::step`
    pub motifs: bool,
}

impl Profile {
    pub fn contention() -> Profile {
        Profile {
            marks: true,
            blocks: true,
            counters: true,
            text: true,
            lists: true,
            nested: true,
            unicode: true,
            invalid_pct: 0,
            misaligned_pct: 0,
            exotic: true,
            unique_values: true,
            keys: 3,
            bulk: true,
            extreme_indexes: false,
            text_elem_ops: false,
            motifs: true,
        }
    }
    pub fn with_text_elem_ops() -> Profile {
        Profile { text_elem_ops: true, ..Profile::contention() }
    }
    pub fn no_blocks() -> Profile {
        Profile { blocks: false, ..Profile::contention() }
    }
    pub fn storage() -> Profile {
        Profile { unique_values: false, keys: 6, ..Profile::contention() }
    }
    pub fn with_invalid(pct: u32) -> Profile {
        Profile { invalid_pct: pct, ..Profile::contention() }
    }
}

#[derive(Clone, Debug)]
pub struct GenState {
    pub profile: Profile,
    pub enc: TextEncoding,
    pub counter: u64,
    /// every object any replica created through the generator (ids are global)
    pub objs: Vec<(ObjId, ObjType)>,
    pub op_hist: BTreeMap<&'static str, u64>,
    pub errors_seen: u64,
}

pub const GRAPHEMES: [&str; 18] = [
    "a", "b", "c", "x", "y", " ", "é", "ß", "日", "本", "😀", "e\u{301}", "👨\u{200d}👩\u{200d}👧", "🇩🇪", "👍🏽", "\n", "Z", "ñ",
];

impl GenState {
    pub fn new(profile: Profile, enc: TextEncoding) -> Self {
        GenState { profile, enc, counter: 0, objs: vec![], op_hist: BTreeMap::new(), errors_seen: 0 }
    }
    pub fn next_val(&mut self) -> u64 {
        self.counter += 1;
        self.counter
    }
    fn note(&mut self, k: &'static str) {
        *self.op_hist.entry(k).or_insert(0) += 1;
    }

    pub fn rand_text(&mut self, rng: &mut Rng, max_units: usize) -> String {
        let n = rng.range(1, max_units.max(1));
        let mut s = String::new();
        for _ in 0..n {
            let g = if self.profile.unicode && rng.chance(35) {
                *rng.pick(&GRAPHEMES[6..])
            } else {
                *rng.pick(&GRAPHEMES[..6])
            };
            s.push_str(g);
        }
        s
    }

    pub fn rand_scalar(&mut self, rng: &mut Rng) -> ScalarValue {
        let uniq = self.profile.unique_values;
        let n = if uniq { self.next_val() as i64 } else { rng.below(3) as i64 };
        match rng.below(if self.profile.exotic { 16 } else { 9 }) {
            0 | 1 | 2 => ScalarValue::Int(n),
            3 | 4 => ScalarValue::Str(format!("s{n}").into()),
            5 => ScalarValue::Uint(n as u64),
            6 => ScalarValue::Boolean(n % 2 == 0),
            7 => ScalarValue::Null,
            8 => ScalarValue::F64(n as f64 + 0.5),
            9 => ScalarValue::Timestamp(1_600_000_000_000 + n),
            10 => ScalarValue::Bytes(vec![n as u8, 0, 0xff, (n >> 8) as u8]),
            11 => ScalarValue::Str(if uniq { format!("{}{n}", self.rand_text(rng, 3)) } else { String::new() }.into()),
            12 => rng
                .pick(&[
                    ScalarValue::F64(f64::NAN),
                    ScalarValue::F64(-0.0),
                    ScalarValue::F64(f64::INFINITY),
                    ScalarValue::F64(f64::MIN_POSITIVE),
                    ScalarValue::Int(i64::MIN),
                    ScalarValue::Int(i64::MAX),
                    ScalarValue::Uint(u64::MAX),
                    ScalarValue::Timestamp(i64::MIN),
                ])
                .clone(),
            13 => ScalarValue::Str("".into()),
            14 => ScalarValue::Bytes(vec![]),
            _ => ScalarValue::Int(-n),
        }
    }

    pub fn rand_hydrate(&mut self, rng: &mut Rng, depth: usize) -> hydrate::Value {
        let k = if depth == 0 { rng.below(3) } else { rng.below(7) };
        match k {
            0..=2 => hydrate::Value::Scalar(self.rand_scalar(rng)),
            3 => {
                let n = rng.below(3);
                let mut m: Vec<(String, hydrate::Value)> = vec![];
                for i in 0..n {
                    m.push((format!("h{i}"), self.rand_hydrate(rng, depth - 1)));
                }
                hydrate::Value::Map(hydrate::Map::from(m.into_iter().collect::<std::collections::HashMap<String, hydrate::Value>>()))
            }
            4 => {
                let n = rng.below(3);
                let v: Vec<hydrate::Value> = (0..n).map(|_| self.rand_hydrate(rng, depth - 1)).collect();
                hydrate::Value::List(hydrate::List::from(v))
            }
            _ => {
                let t = self.rand_text(rng, 4);
                hydrate::Value::Text(hydrate::Text::new(self.enc, t))
            }
        }
    }

    fn key(&mut self, rng: &mut Rng) -> String {
        let k = rng.below(self.profile.keys.max(1));
        if self.profile.unicode && k == 2 {
            "ключ😀".to_string()
        } else {
            format!("k{k}")
        }
    }

    /// choose a target object that exists in this document
    pub fn pick_obj<D: ReadDoc>(&mut self, d: &D, rng: &mut Rng) -> (ObjId, ObjType) {
        if !self.objs.is_empty() && rng.chance(75) {
            for _ in 0..4 {
                // bias to recent objects and to the first few (shared) ones
                let i = if rng.chance(50) { rng.below(self.objs.len().min(4)) } else { rng.below(self.objs.len()) };
                let (id, t) = self.objs[i].clone();
                if d.object_type(&id).is_ok() {
                    return (id, t);
                }
            }
        }
        (ROOT, ObjType::Map)
    }

    /// element boundaries (start index of every element in encoding units, plus the length) of a sequence
    pub fn boundaries<D: ReadDoc>(d: &D, obj: &ObjId) -> Vec<usize> {
        let len = d.length(obj);
        let is_text = matches!(d.object_type(obj), Ok(ObjType::Text));
        if !is_text {
            return (0..=len).collect();
        }
        let enc = d.text_encoding();
        let mut v: Vec<usize> = vec![];
        let mut at = 0usize;
        while at < len {
            v.push(at);
            let w = match d.get(obj, at) {
                Ok(Some((automerge::Value::Scalar(s), _))) => match s.as_ref() {
                    ScalarValue::Str(s) => enc_width(enc, s),
                    _ => enc_width(enc, "\u{fffc}"),
                },
                Ok(Some(_)) => enc_width(enc, "\u{fffc}"),
                _ => 1,
            };
            at += w.max(1);
        }
        v.push(len);
        v
    }

    fn text_index<D: ReadDoc>(&mut self, d: &D, obj: &ObjId, rng: &mut Rng) -> usize {
        let len = d.length(obj);
        if self.profile.misaligned_pct > 0 && rng.chance(self.profile.misaligned_pct) {
            return rng.below(len + 1);
        }
        if matches!(self.enc, TextEncoding::Utf8CodeUnit | TextEncoding::Utf16CodeUnit) {
            let b = Self::boundaries(d, obj);
            *rng.pick(&b)
        } else {
            rng.below(len + 1)
        }
    }
}

#[derive(Debug, Clone)]
pub struct Edit {
    pub kind: &'static str,
    pub desc: String,
    pub ok: bool,
    pub err: Option<String>,
    pub obj: ObjId,
    pub obj_type: ObjType,
    pub intended_invalid: bool,
}

fn oid(o: &ObjId) -> String {
    crate::obs::exid_str(o)
}

/// Perform one random editing call on `d`.
pub fn random_edit<D: Transactable>(d: &mut D, rng: &mut Rng, gs: &mut GenState) -> Edit {
    let invalid = gs.profile.invalid_pct > 0 && rng.chance(gs.profile.invalid_pct);
    if invalid {
        return invalid_edit(d, rng, gs);
    }
    let (obj, typ) = gs.pick_obj(d, rng);
    let p = gs.profile.clone();
    let mut kind: &'static str;
    let desc: String;
    let r: Result<(), automerge::AutomergeError>;
    match typ {
        ObjType::Map | ObjType::Table => {
            let key = gs.key(rng);
            let w = [
                35,
                if p.nested { 14 } else { 0 },
                12,
                if p.counters { 8 } else { 0 },
                if p.counters { 5 } else { 0 },
                if p.bulk { 3 } else { 0 },
            ];
            match rng.weighted(&w) {
                0 => {
                    kind = "put";
                    let v = gs.rand_scalar(rng);
                    desc = format!("put({}, {key:?}, {v:?})", oid(&obj));
                    r = d.put(&obj, key, v);
                }
                1 => {
                    kind = "put_object";
                    let t = *rng.pick(&[
                        ObjType::Map,
                        if p.lists { ObjType::List } else { ObjType::Map },
                        if p.text { ObjType::Text } else { ObjType::Map },
                        if p.text { ObjType::Text } else { ObjType::List },
                    ]);
                    desc = format!("put_object({}, {key:?}, {t:?})", oid(&obj));
                    r = d.put_object(&obj, key, t).map(|id| {
                        gs.objs.push((id, t));
                    });
                }
                2 => {
                    kind = "delete";
                    desc = format!("delete({}, {key:?})", oid(&obj));
                    r = d.delete(&obj, key);
                }
                3 => {
                    kind = "increment";
                    let by = rng.range(1, 9) as i64 - 3;
                    // only increment where a counter is visible, otherwise put a counter
                    let has_counter = d
                        .get_all(&obj, key.as_str())
                        .map(|vs| vs.iter().any(|(v, _)| matches!(v, automerge::Value::Scalar(s) if matches!(s.as_ref(), ScalarValue::Counter(_)))))
                        .unwrap_or(false);
                    if has_counter {
                        if std::env::var("VERIF_DUMP").is_ok() {
                            eprintln!("  ? pre-increment get_all({}, {key:?}) = {:?}", oid(&obj), d.get_all(&obj, key.as_str()).map(|v| v.iter().map(|(v, id)| format!("{}={}", oid(id), v)).collect::<Vec<_>>()));
                        }
                        desc = format!("increment({}, {key:?}, {by})", oid(&obj));
                        r = d.increment(&obj, key, by);
                    } else {
                        kind = "put_counter";
                        let n = gs.next_val() as i64;
                        desc = format!("put({}, {key:?}, counter {n})", oid(&obj));
                        r = d.put(&obj, key, ScalarValue::counter(n));
                    }
                }
                4 => {
                    kind = "put_counter";
                    let n = gs.next_val() as i64;
                    desc = format!("put({}, {key:?}, counter {n})", oid(&obj));
                    r = d.put(&obj, key, ScalarValue::counter(n));
                }
                _ => {
                    kind = "update_object";
                    let v = gs.rand_hydrate(rng, 2);
                    // update_object wants a map for a map
                    let mut m: Vec<(String, hydrate::Value)> = vec![];
                    for i in 0..rng.below(3) {
                        m.push((format!("k{i}"), gs.rand_hydrate(rng, 1)));
                    }
                    let _ = v;
                    let hv = hydrate::Value::Map(hydrate::Map::from(m.into_iter().collect::<std::collections::HashMap<String, hydrate::Value>>()));
                    desc = format!("update_object({}, {hv:?})", oid(&obj));
                    r = d.update_object(&obj, &hv).map_err(|_| automerge::AutomergeError::Fail);
                }
            }
        }
        ObjType::List => {
            let len = d.length(&obj);
            let w = [
                28,
                if p.nested { 8 } else { 0 },
                if len > 0 { 12 } else { 0 },
                if len > 0 { 15 } else { 0 },
                if p.counters && len > 0 { 5 } else { 0 },
                if p.bulk { 8 } else { 0 },
                if p.nested && len > 0 { 4 } else { 0 },
            ];
            match rng.weighted(&w) {
                6 => {
                    // overwrite an element with a new object (concurrently with scalar overwrites this
                    // leaves object-vs-scalar conflicts on one element)
                    kind = "put_object_seq";
                    let i = hot_index(rng, len);
                    let t = *rng.pick(&[ObjType::Map, ObjType::List, if p.text { ObjType::Text } else { ObjType::Map }, if p.text { ObjType::Text } else { ObjType::List }]);
                    desc = format!("put_object({}, {i}, {t:?})", oid(&obj));
                    r = d.put_object(&obj, i, t).map(|id| gs.objs.push((id, t)));
                }
                0 => {
                    kind = "insert";
                    let i = rng.below(len + 1);
                    let v = if p.counters && rng.chance(10) { ScalarValue::counter(gs.next_val() as i64) } else { gs.rand_scalar(rng) };
                    desc = format!("insert({}, {i}, {v:?})", oid(&obj));
                    r = d.insert(&obj, i, v);
                }
                1 => {
                    kind = "insert_object";
                    let i = rng.below(len + 1);
                    let t = *rng.pick(&[ObjType::Map, ObjType::List, if p.text { ObjType::Text } else { ObjType::Map }]);
                    desc = format!("insert_object({}, {i}, {t:?})", oid(&obj));
                    r = d.insert_object(&obj, i, t).map(|id| gs.objs.push((id, t)));
                }
                2 => {
                    kind = "put_seq";
                    let i = hot_index(rng, len);
                    let v = gs.rand_scalar(rng);
                    desc = format!("put({}, {i}, {v:?})", oid(&obj));
                    r = d.put(&obj, i, v);
                }
                3 => {
                    kind = "delete_seq";
                    let i = hot_index(rng, len);
                    desc = format!("delete({}, {i})", oid(&obj));
                    r = d.delete(&obj, i);
                }
                4 => {
                    let i = hot_index(rng, len);
                    let has_counter = d
                        .get_all(&obj, i)
                        .map(|vs| vs.iter().any(|(v, _)| matches!(v, automerge::Value::Scalar(s) if matches!(s.as_ref(), ScalarValue::Counter(_)))))
                        .unwrap_or(false);
                    if has_counter {
                        kind = "increment_seq";
                        let by = rng.range(1, 5) as i64;
                        desc = format!("increment({}, {i}, {by})", oid(&obj));
                        r = d.increment(&obj, i, by);
                    } else {
                        kind = "put_counter_seq";
                        let n = gs.next_val() as i64;
                        desc = format!("put({}, {i}, counter {n})", oid(&obj));
                        r = d.put(&obj, i, ScalarValue::counter(n));
                    }
                }
                _ => {
                    kind = "splice";
                    let i = rng.below(len + 1);
                    let del = rng.below((len - i).min(3) + 1) as isize;
                    let n = rng.below(4);
                    let vals: Vec<hydrate::Value> = (0..n).map(|_| gs.rand_hydrate(rng, if p.nested { 2 } else { 0 })).collect();
                    desc = format!("splice({}, {i}, {del}, {vals:?})", oid(&obj));
                    r = d.splice(&obj, i, del, vals);
                }
            }
        }
        ObjType::Text => {
            let len = d.length(&obj);
            let w = [
                32,
                if len > 0 { 16 } else { 0 },
                if len > 0 { 8 } else { 0 },
                if p.marks && len > 0 { 12 } else { 0 },
                if p.marks && len > 0 { 5 } else { 0 },
                if p.blocks { 3 } else { 0 },
                if p.blocks && len > 0 { 2 } else { 0 },
                if p.bulk { 2 } else { 0 },
                if p.text_elem_ops && len > 0 { 10 } else { 0 },
                if p.text_elem_ops { 3 } else { 0 },
                if p.text_elem_ops && len > 0 { 4 } else { 0 },
            ];
            match rng.weighted(&w) {
                8 => {
                    // overwrite one text element (concurrent overwrites conflict)
                    kind = "put_text_elem";
                    let b = GenState::boundaries(d, &obj);
                    // contention: most element-level calls go to the first few elements
                    let span = if rng.chance(60) { b.len().saturating_sub(1).clamp(1, 3) } else { b.len().saturating_sub(1).max(1) };
                    let i = b[rng.below(span)].min(len.saturating_sub(1));
                    let s = if rng.chance(70) { rng.pick(&GRAPHEMES).to_string() } else { gs.rand_text(rng, 2) };
                    desc = format!("put({}, {i}, {s:?}) [text element]", oid(&obj));
                    r = d.put(&obj, i, s.as_str());
                }
                9 => {
                    kind = "insert_text_elem";
                    let i = gs.text_index(d, &obj, rng);
                    let s = rng.pick(&GRAPHEMES).to_string();
                    desc = format!("insert({}, {i}, {s:?}) [text element]", oid(&obj));
                    r = d.insert(&obj, i, s.as_str());
                }
                10 => {
                    kind = "delete_text_elem";
                    let b = GenState::boundaries(d, &obj);
                    let span = if rng.chance(60) { b.len().saturating_sub(1).clamp(1, 3) } else { b.len().saturating_sub(1).max(1) };
                    let i = b[rng.below(span)].min(len.saturating_sub(1));
                    desc = format!("delete({}, {i}) [text element]", oid(&obj));
                    r = d.delete(&obj, i);
                }
                0 => {
                    kind = "splice_text_ins";
                    let i = gs.text_index(d, &obj, rng);
                    let s = gs.rand_text(rng, 5);
                    desc = format!("splice_text({}, {i}, 0, {s:?})", oid(&obj));
                    r = d.splice_text(&obj, i, 0, &s);
                }
                1 => {
                    kind = "splice_text_del";
                    let (i, del) = text_range(d, &obj, rng, gs);
                    let neg = rng.chance(15) && del > 0;
                    if neg {
                        desc = format!("splice_text({}, {}, -{del}, \"\")", oid(&obj), i + del);
                        r = d.splice_text(&obj, i + del, -(del as isize), "");
                    } else {
                        desc = format!("splice_text({}, {i}, {del}, \"\")", oid(&obj));
                        r = d.splice_text(&obj, i, del as isize, "");
                    }
                }
                2 => {
                    kind = "splice_text_repl";
                    let (i, del) = text_range(d, &obj, rng, gs);
                    let s = gs.rand_text(rng, 3);
                    desc = format!("splice_text({}, {i}, {del}, {s:?})", oid(&obj));
                    r = d.splice_text(&obj, i, del as isize, &s);
                }
                3 => {
                    kind = "mark";
                    let (i, n) = text_range(d, &obj, rng, gs);
                    let name = *rng.pick(&["bold", "link", "it"]);
                    let ex = *rng.pick(&[ExpandMark::Before, ExpandMark::After, ExpandMark::Both, ExpandMark::None]);
                    let v = if rng.chance(60) { ScalarValue::Boolean(true) } else { ScalarValue::Str(format!("u{}", gs.next_val()).into()) };
                    desc = format!("mark({}, {i}..{}, {name}, {v:?}, {ex:?})", oid(&obj), i + n);
                    r = d.mark(&obj, Mark::new(name.to_string(), v, i, i + n), ex);
                }
                4 => {
                    kind = "unmark";
                    let (i, n) = text_range(d, &obj, rng, gs);
                    let name = *rng.pick(&["bold", "link", "it"]);
                    let ex = *rng.pick(&[ExpandMark::Before, ExpandMark::After, ExpandMark::Both, ExpandMark::None]);
                    desc = format!("unmark({}, {name}, {i}..{}, {ex:?})", oid(&obj), i + n);
                    r = d.unmark(&obj, name, i, i + n, ex);
                }
                5 => {
                    kind = "split_block";
                    let i = gs.text_index(d, &obj, rng);
                    desc = format!("split_block({}, {i})", oid(&obj));
                    r = d.split_block(&obj, i).map(|id| gs.objs.push((id, ObjType::Map)));
                }
                6 => {
                    // join_block on an actual block if there is one, else plain delete
                    let blocks: Vec<usize> = d
                        .list_range(&obj, ..)
                        .filter(|i| matches!(i.value, automerge::ValueRef::Object(_)))
                        .map(|i| i.index)
                        .collect();
                    if let Some(i) = blocks.first().copied() {
                        kind = "join_block";
                        desc = format!("join_block({}, {i})", oid(&obj));
                        r = d.join_block(&obj, i);
                    } else {
                        kind = "splice_text_del";
                        let (i, del) = text_range(d, &obj, rng, gs);
                        desc = format!("splice_text({}, {i}, {del}, \"\")", oid(&obj));
                        r = d.splice_text(&obj, i, del as isize, "");
                    }
                }
                _ => {
                    kind = "update_text";
                    // small edit of the current text
                    let cur = d.text(&obj).unwrap_or_default();
                    let has_block = cur.contains('\u{fffc}');
                    let mut gr: Vec<&str> = unicode_segmentation::UnicodeSegmentation::graphemes(cur.as_str(), true).collect();
                    let ins = gs.rand_text(rng, 3);
                    if !gr.is_empty() && rng.chance(50) {
                        let k = rng.below(gr.len());
                        gr.remove(k);
                    }
                    let k = rng.below(gr.len() + 1);
                    let mut s: String = gr[..k].concat();
                    s.push_str(&ins);
                    s.push_str(&gr[k..].concat());
                    if has_block {
                        kind = "splice_text_ins";
                        let i = gs.text_index(d, &obj, rng);
                        desc = format!("splice_text({}, {i}, 0, {ins:?})", oid(&obj));
                        r = d.splice_text(&obj, i, 0, &ins);
                    } else {
                        desc = format!("update_text({}, {s:?})", oid(&obj));
                        r = d.update_text(&obj, &s);
                    }
                }
            }
        }
    }
    gs.note(kind);
    let ok = r.is_ok();
    if !ok {
        gs.errors_seen += 1;
    }
    Edit { kind, desc, ok, err: r.err().map(|e| e.to_string()), obj, obj_type: typ, intended_invalid: false }
}

/// contention: half of the element-level calls on a sequence go to its first three elements
fn hot_index(rng: &mut Rng, len: usize) -> usize {
    if rng.chance(50) {
        rng.below(len.clamp(1, 3))
    } else {
        rng.below(len.max(1))
    }
}

/// a (start, len) range on element boundaries (or arbitrary if misalignment is enabled)
fn text_range<D: ReadDoc>(d: &D, obj: &ObjId, rng: &mut Rng, gs: &mut GenState) -> (usize, usize) {
    let b = GenState::boundaries(d, obj);
    if gs.profile.misaligned_pct > 0 && rng.chance(gs.profile.misaligned_pct) {
        let len = *b.last().unwrap_or(&0);
        let i = rng.below(len + 1);
        let n = rng.below((len - i).min(4) + 1);
        return (i, n);
    }
    let a = rng.below(b.len());
    let e = (a + rng.below(4)).min(b.len() - 1);
    (b[a], b[e] - b[a])
}

/// A deliberately invalid call; must return Err and change nothing.
pub fn invalid_edit<D: Transactable>(d: &mut D, rng: &mut Rng, gs: &mut GenState) -> Edit {
    let (obj, typ) = gs.pick_obj(d, rng);
    let len = d.length(&obj);
    let bogus = ObjId::Id(9_999_999, actor(200), 0);
    let kind: &'static str;
    let desc: String;
    let r: Result<(), automerge::AutomergeError>;
    match rng.below(12) {
        0 => {
            kind = "inv_unknown_obj_put";
            desc = format!("put({}, \"k\", 1) [unknown object]", oid(&bogus));
            r = d.put(&bogus, "k", 1);
        }
        1 => {
            kind = "inv_unknown_obj_insert";
            desc = format!("insert({}, 0, 1) [unknown object]", oid(&bogus));
            r = d.insert(&bogus, 0, 1);
        }
        2 if typ != ObjType::Map && typ != ObjType::Table => {
            kind = "inv_map_key_on_seq";
            desc = format!("put({}, \"k\", 1) [map key on sequence]", oid(&obj));
            r = d.put(&obj, "k", 1);
        }
        2 | 3 if typ == ObjType::Map || typ == ObjType::Table => {
            kind = "inv_index_on_map";
            desc = format!("put({}, 0, 1) [index on map]", oid(&obj));
            r = d.put(&obj, 0usize, 1);
        }
        3 | 4 if typ != ObjType::Map && typ != ObjType::Table => {
            kind = "inv_insert_out_of_range";
            let i = if !gs.profile.extreme_indexes || rng.chance(50) { len + 1 + rng.below(3) } else { *rng.pick(&[usize::MAX, usize::MAX - 1, usize::MAX / 2 + 1]) };
            desc = format!("insert({}, {i}, 1) [index > len {len}]", oid(&obj));
            r = d.insert(&obj, i, 1);
        }
        5 if typ == ObjType::List => {
            kind = "inv_put_out_of_range";
            let i = len + rng.below(3);
            desc = format!("put({}, {i}, 1) [index >= len {len}]", oid(&obj));
            r = d.put(&obj, i, 1);
        }
        6 if typ == ObjType::List => {
            kind = "inv_delete_out_of_range";
            let i = len + rng.below(3);
            desc = format!("delete({}, {i}) [index >= len {len}]", oid(&obj));
            r = d.delete(&obj, i);
        }
        7 if typ == ObjType::Map || typ == ObjType::Table => {
            // increment of a non-counter (only when the key holds no counter)
            let key = gs.key(rng);
            let has_counter = d
                .get_all(&obj, key.as_str())
                .map(|vs| vs.iter().any(|(v, _)| matches!(v, automerge::Value::Scalar(s) if matches!(s.as_ref(), ScalarValue::Counter(_)))))
                .unwrap_or(true);
            if has_counter {
                kind = "inv_unknown_obj_put";
                desc = format!("put({}, \"k\", 1) [unknown object]", oid(&bogus));
                r = d.put(&bogus, "k", 1);
            } else {
                kind = "inv_increment_non_counter";
                desc = format!("increment({}, {key:?}, 1) [no counter there]", oid(&obj));
                r = d.increment(&obj, key, 1);
            }
        }
        8 if typ == ObjType::Text => {
            kind = "inv_splice_text_out_of_range";
            let i = len + 1 + rng.below(3);
            desc = format!("splice_text({}, {i}, 0, \"zz\") [index > len {len}]", oid(&obj));
            r = d.splice_text(&obj, i, 0, "zz");
        }
        9 if typ == ObjType::Text && len > 0 => {
            kind = "inv_mark_end_out_of_range";
            let s = rng.below(len);
            let e = len + 1 + rng.below(3);
            desc = format!("mark({}, {s}..{e}, bold) [end > len {len}]", oid(&obj));
            r = d.mark(&obj, Mark::new("bold".to_string(), true, s, e), ExpandMark::After);
        }
        10 if typ != ObjType::Text => {
            kind = "inv_splice_text_on_non_text";
            desc = format!("splice_text({}, 0, 0, \"zz\") [not a text]", oid(&obj));
            r = d.splice_text(&obj, 0, 0, "zz");
        }
        _ => {
            kind = "inv_unknown_obj_delete";
            desc = format!("delete({}, \"k\") [unknown object]", oid(&bogus));
            r = d.delete(&bogus, "k");
        }
    }
    gs.note(kind);
    Edit { kind, desc, ok: r.is_ok(), err: r.err().map(|e| e.to_string()), obj, obj_type: typ, intended_invalid: true }
}

// ---------------------------------------------------------------------------
// World: several replicas, a ledger of every change, and the head sets seen
// ---------------------------------------------------------------------------
pub struct World {
    pub enc: TextEncoding,
    pub docs: Vec<AutoCommit>,
    pub gs: GenState,
    pub ledger: BTreeMap<ChangeHash, Change>,
    pub head_sets: Vec<Vec<ChangeHash>>,
    pub log: Vec<String>,
    pub time: i64,
    pub merges: u64,
    pub concurrent_merges: u64,
    pub next_actor: usize,
    pub verbose: bool,
}

pub fn new_doc(enc: TextEncoding, a: usize) -> AutoCommit {
    AutoCommit::new_with_encoding(enc).with_actor(actor(a))
}

impl World {
    /// `n` replicas forked from a common base that already holds one object of each kind.
    pub fn new(rng: &mut Rng, n: usize, enc: TextEncoding, profile: Profile) -> World {
        let mut gs = GenState::new(profile, enc);
        let mut base = new_doc(enc, 0);
        if gs.profile.text {
            let t = base.put_object(ROOT, "t", ObjType::Text).unwrap();
            base.splice_text(&t, 0, 0, "hello").unwrap();
            gs.objs.push((t, ObjType::Text));
        }
        if gs.profile.lists {
            let l = base.put_object(ROOT, "l", ObjType::List).unwrap();
            base.insert(&l, 0, 1).unwrap();
            gs.objs.push((l, ObjType::List));
        }
        let m = base.put_object(ROOT, "m", ObjType::Map).unwrap();
        gs.objs.push((m, ObjType::Map));
        if gs.profile.counters {
            base.put(ROOT, "c", ScalarValue::counter(10)).unwrap();
        }
        base.commit_with(CommitOptions::default().with_time(0).with_message("base"));
        let mut docs = vec![];
        for i in 1..n {
            let f = base.fork().with_actor(actor(i));
            docs.push(f);
        }
        docs.insert(0, base);
        let _ = rng;
        let mut w = World {
            enc,
            docs,
            gs,
            ledger: BTreeMap::new(),
            head_sets: vec![],
            log: vec![],
            time: 1,
            merges: 0,
            concurrent_merges: 0,
            next_actor: n,
            verbose: false,
        };
        w.record(0);
        w
    }

    pub fn logln(&mut self, s: String) {
        if self.verbose {
            eprintln!("  | {s}");
        }
        self.log.push(s);
    }

    /// record changes and heads of replica r
    pub fn record(&mut self, r: usize) {
        let d = &mut self.docs[r];
        let heads = d.get_heads();
        if !self.head_sets.contains(&heads) {
            self.head_sets.push(heads);
        }
        if let Some(c) = d.get_last_local_change() {
            self.ledger.entry(c.hash()).or_insert(c);
        }
    }

    pub fn commit(&mut self, r: usize) -> Option<ChangeHash> {
        self.time += 1;
        let t = self.time;
        let h = self.docs[r].commit_with(CommitOptions::default().with_time(t).with_message(format!("r{r}t{t}")));
        if h.is_some() {
            self.logln(format!("R{r}: commit -> {}", h.map(|h| h.to_string()).unwrap_or_default()));
            self.record(r);
        }
        h
    }

    pub fn edit(&mut self, r: usize, rng: &mut Rng) -> Edit {
        let e = random_edit(&mut self.docs[r], rng, &mut self.gs);
        self.logln(format!("R{r}: {} -> {}", e.desc, if e.ok { "ok".to_string() } else { format!("Err({})", e.err.clone().unwrap_or_default()) }));
        e
    }

    pub fn merge(&mut self, a: usize, b: usize) {
        if a == b {
            return;
        }
        self.commit(a);
        self.commit(b);
        let (x, y) = if a < b {
            let (l, r) = self.docs.split_at_mut(b);
            (&mut l[a], &mut r[0])
        } else {
            let (l, r) = self.docs.split_at_mut(a);
            (&mut r[0], &mut l[b])
        };
        let hx = x.get_heads();
        let hy = y.get_heads();
        if self.verbose {
            eprintln!("  | R{a} <- merge R{b} …");
            if std::env::var("VERIF_DUMP").is_ok() {
                let _ = std::fs::create_dir_all("/verif/out/dump");
                let _ = std::fs::write("/verif/out/dump/a.bin", x.save());
                let _ = std::fs::write("/verif/out/dump/b.bin", y.save());
            }
        }
        let r = x.merge(y);
        self.merges += 1;
        if hx != hy && !hx.is_empty() && !hy.is_empty() {
            self.concurrent_merges += 1;
        }
        self.logln(format!("R{a} <- merge R{b}: {}", match &r { Ok(h) => format!("ok {} new heads", h.len()), Err(e) => format!("Err({e})") }));
        let heads = self.docs[a].get_heads();
        if !self.head_sets.contains(&heads) {
            self.head_sets.push(heads);
        }
    }

    /// A scripted contention motif between two replicas that already share the target object:
    /// both act on the same register / element without seeing each other, they merge, and one of
    /// them follows up (increment, delete, overwrite) — the situations fixed random programs rarely
    /// line up. Every call goes through the public API; errors are ignored.
    pub fn motif(&mut self, rng: &mut Rng) {
        let n = self.docs.len();
        if n < 2 {
            return;
        }
        let a = rng.below(n);
        let b = (a + 1 + rng.below(n - 1)) % n;
        // a shared object both replicas can see
        let cands: Vec<(ObjId, ObjType)> = self.gs.objs.iter().filter(|(id, _)| self.docs[a].object_type(id).is_ok() && self.docs[b].object_type(id).is_ok()).cloned().collect();
        let (obj, typ) = if cands.is_empty() || rng.chance(25) { (ROOT, ObjType::Map) } else { rng.pick(&cands).clone() };
        let p = self.gs.profile.clone();
        let v1 = self.gs.next_val() as i64;
        let v2 = self.gs.next_val() as i64;
        let kind = rng.below(8);
        self.gs.note("motif");
        self.logln(format!("motif {kind} between R{a} and R{b} on {}", oid(&obj)));
        match typ {
            ObjType::Map | ObjType::Table => {
                let key = self.gs.key(rng);
                match kind {
                    0 | 1 if p.counters => {
                        // concurrent counters on one key; merge; increment the conflicted register
                        let _ = self.docs[a].put(&obj, key.as_str(), ScalarValue::counter(v1));
                        let _ = self.docs[b].put(&obj, key.as_str(), ScalarValue::counter(v2));
                        self.merge(a, b);
                        let _ = self.docs[a].increment(&obj, key.as_str(), 3);
                        if kind == 1 {
                            self.merge(b, a);
                            let _ = self.docs[b].increment(&obj, key.as_str(), 4);
                        }
                    }
                    2 if p.counters => {
                        // counter vs plain value, then increment while the conflict is visible
                        let _ = self.docs[a].put(&obj, key.as_str(), ScalarValue::counter(v1));
                        let _ = self.docs[b].put(&obj, key.as_str(), format!("s{v2}"));
                        self.merge(a, b);
                        let _ = self.docs[a].increment(&obj, key.as_str(), 2);
                    }
                    3 => {
                        // put vs delete
                        let _ = self.docs[a].put(&obj, key.as_str(), v1);
                        self.merge(b, a);
                        let _ = self.docs[a].put(&obj, key.as_str(), v2);
                        let _ = self.docs[b].delete(&obj, key.as_str());
                    }
                    4 => {
                        // object vs scalar on one key
                        let t = if p.text { ObjType::Text } else { ObjType::Map };
                        if let Ok(id) = self.docs[a].put_object(&obj, key.as_str(), t) {
                            self.gs.objs.push((id, t));
                        }
                        let _ = self.docs[b].put(&obj, key.as_str(), v2);
                    }
                    _ => {
                        // plain concurrent puts, then the loser's author deletes without having seen the winner
                        let _ = self.docs[a].put(&obj, key.as_str(), v1);
                        let _ = self.docs[b].put(&obj, key.as_str(), v2);
                        self.commit(a);
                        self.commit(b);
                        let _ = self.docs[a].delete(&obj, key.as_str());
                    }
                }
            }
            ObjType::List | ObjType::Text => {
                let la = self.docs[a].length(&obj);
                let lb = self.docs[b].length(&obj);
                let is_text = typ == ObjType::Text;
                // an element both replicas have (the shared prefix is the common case)
                let i = if la.min(lb) == 0 { 0 } else { rng.below(la.min(lb).min(3)) };
                let aligned = |d: &AutoCommit, i: usize| -> usize {
                    let bnd = GenState::boundaries(d, &obj);
                    bnd.iter().copied().filter(|x| *x <= i).max().unwrap_or(0)
                };
                match kind {
                    0 | 1 if la.min(lb) > 0 && (!is_text || p.text_elem_ops) => {
                        // concurrent overwrites of one element; one author deletes its own value unseen
                        let (ia, ib) = (aligned(&self.docs[a], i), aligned(&self.docs[b], i));
                        if is_text {
                            let _ = self.docs[a].put(&obj, ia, *rng.pick(&GRAPHEMES));
                            let _ = self.docs[b].put(&obj, ib, *rng.pick(&GRAPHEMES));
                        } else {
                            let _ = self.docs[a].put(&obj, ia, v1);
                            let _ = self.docs[b].put(&obj, ib, v2);
                        }
                        self.commit(a);
                        self.commit(b);
                        if kind == 0 {
                            let _ = self.docs[b].delete(&obj, ib);
                        } else {
                            self.merge(a, b);
                            let _ = self.docs[b].delete(&obj, ib);
                        }
                    }
                    5 if !is_text && p.nested && la.min(lb) > 0 => {
                        // object vs scalar overwrite of one element
                        let t = if p.text { ObjType::Text } else { ObjType::Map };
                        if let Ok(id) = self.docs[a].put_object(&obj, i, t) {
                            if t == ObjType::Text {
                                let _ = self.docs[a].splice_text(&id, 0, 0, "nested");
                            }
                            self.gs.objs.push((id, t));
                        }
                        let _ = self.docs[b].put(&obj, i, v2);
                    }
                    2 if !is_text && p.counters && la.min(lb) > 0 => {
                        // concurrent counters on one element, merge, increment
                        let _ = self.docs[a].put(&obj, i, ScalarValue::counter(v1));
                        let _ = self.docs[b].put(&obj, i, ScalarValue::counter(v2));
                        self.merge(a, b);
                        let _ = self.docs[a].increment(&obj, i, 5);
                    }
                    3 if !is_text && p.counters && la.min(lb) > 0 => {
                        // counter vs plain value on one element, then increment
                        let _ = self.docs[a].put(&obj, i, ScalarValue::counter(v1));
                        let _ = self.docs[b].put(&obj, i, format!("s{v2}"));
                        self.merge(a, b);
                        let _ = self.docs[a].increment(&obj, i, 2);
                    }
                    4 => {
                        // concurrent inserts at one position
                        let (ia, ib) = (aligned(&self.docs[a], i), aligned(&self.docs[b], i));
                        if is_text {
                            let _ = self.docs[a].splice_text(&obj, ia, 0, "A1");
                            let _ = self.docs[b].splice_text(&obj, ib, 0, "B2");
                        } else {
                            let _ = self.docs[a].insert(&obj, ia.min(la), v1);
                            let _ = self.docs[b].insert(&obj, ib.min(lb), v2);
                        }
                    }
                    _ if la.min(lb) > 0 => {
                        // delete vs overwrite / delete vs delete of one element
                        let (ia, ib) = (aligned(&self.docs[a], i), aligned(&self.docs[b], i));
                        let _ = self.docs[a].delete(&obj, ia);
                        if rng.chance(50) {
                            let _ = self.docs[b].delete(&obj, ib);
                        } else if is_text {
                            if p.text_elem_ops {
                                let _ = self.docs[b].put(&obj, ib, "w");
                            } else {
                                let _ = self.docs[b].splice_text(&obj, ib, 0, "w");
                            }
                        } else {
                            let _ = self.docs[b].put(&obj, ib, v2);
                        }
                    }
                    _ => {}
                }
            }
        }
    }

    /// A change made in a transaction scoped to older heads (isolate → edits → commit → integrate)
    /// while the replica already holds later ops: its first op counter lies above "highest op of
    /// its deps + 1".
    pub fn isolated_commit(&mut self, rng: &mut Rng) {
        let r = rng.below(self.docs.len());
        self.commit(r);
        let known: std::collections::BTreeSet<ChangeHash> = self.docs[r].get_changes(&[]).iter().map(|c| c.hash()).collect();
        let cands: Vec<Vec<ChangeHash>> = self.head_sets.iter().filter(|h| h.iter().all(|x| known.contains(x))).cloned().collect();
        if cands.is_empty() {
            return;
        }
        let h = rng.pick(&cands).clone();
        self.docs[r].isolate(&h);
        self.gs.note("isolated_commit");
        self.logln(format!("R{r}: isolate({} heads) + edits + commit + integrate", h.len()));
        for _ in 0..rng.range(1, 3) {
            let _ = random_edit(&mut self.docs[r], rng, &mut self.gs);
        }
        self.commit(r);
        self.docs[r].integrate();
        self.record(r);
        // get_last_local_change does not show changes made under isolation: take them from the
        // document right away (they were created by this replica just now)
        for c in self.docs[r].get_changes(&[]) {
            self.ledger.entry(c.hash()).or_insert(c);
        }
    }

    /// one random step: mostly edits, sometimes commit / merge
    pub fn step(&mut self, rng: &mut Rng) {
        let n = self.docs.len();
        if self.gs.profile.motifs && n > 1 && rng.chance(5) {
            self.motif(rng);
            return;
        }
        if self.gs.profile.motifs && rng.chance(2) {
            self.isolated_commit(rng);
            return;
        }
        let r = rng.below(n);
        match rng.below(100) {
            0..=69 => {
                self.edit(r, rng);
            }
            70..=84 => {
                self.commit(r);
            }
            _ => {
                if n > 1 {
                    let mut b = rng.below(n);
                    if b == r {
                        b = (b + 1) % n;
                    }
                    self.merge(r, b);
                }
            }
        }
    }

    pub fn run(&mut self, rng: &mut Rng, steps: usize) {
        for _ in 0..steps {
            self.step(rng);
        }
        for r in 0..self.docs.len() {
            self.commit(r);
        }
        self.collect();
    }

    /// pull every change of every replica into the ledger
    pub fn collect(&mut self) {
        for d in self.docs.iter_mut() {
            for c in d.get_changes(&[]) {
                self.ledger.entry(c.hash()).or_insert(c);
            }
        }
    }

    /// a fresh document holding every change (merged in replica order)
    pub fn merged(&mut self) -> AutoCommit {
        let mut m = self.docs[0].fork().with_actor(actor(90));
        for i in 1..self.docs.len() {
            let _ = m.merge(&mut self.docs[i]);
        }
        m
    }

    pub fn all_changes(&self) -> Vec<Change> {
        self.ledger.values().cloned().collect()
    }

    /// changes in a causal (topological) order, deterministic
    pub fn topo_changes(&self) -> Vec<Change> {
        topo_sort(&self.all_changes())
    }
}

pub fn topo_sort(changes: &[Change]) -> Vec<Change> {
    let mut done: std::collections::BTreeSet<ChangeHash> = Default::default();
    let all: std::collections::BTreeSet<ChangeHash> = changes.iter().map(|c| c.hash()).collect();
    let mut out = vec![];
    let mut rest: Vec<&Change> = changes.iter().collect();
    rest.sort_by_key(|c| (c.start_op(), c.hash()));
    while !rest.is_empty() {
        let mut next = vec![];
        let mut progressed = false;
        for c in rest {
            if c.deps().iter().all(|d| done.contains(d) || !all.contains(d)) {
                done.insert(c.hash());
                out.push(c.clone());
                progressed = true;
            } else {
                next.push(c);
            }
        }
        rest = next;
        if !progressed {
            break;
        }
    }
    out
}

/// ancestors (inclusive) of `heads` within `changes`
pub fn ancestors(changes: &BTreeMap<ChangeHash, Change>, heads: &[ChangeHash]) -> std::collections::BTreeSet<ChangeHash> {
    let mut seen = std::collections::BTreeSet::new();
    let mut stack: Vec<ChangeHash> = heads.to_vec();
    while let Some(h) = stack.pop() {
        if seen.insert(h) {
            if let Some(c) = changes.get(&h) {
                stack.extend(c.deps().iter().copied());
            }
        }
    }
    seen
}

pub fn widths(enc: TextEncoding, s: &str) -> usize {
    enc_width(enc, s)
}
