//! VIEW — an independent materialised view maintained only from patches.
//!
//! Own tree type with conflict flags, counters, text as a sequence of elements
//! measured in encoding units, and per-element mark sets. `apply` resolves the
//! patch path against the view itself, so a wrong path, a wrong object id, an
//! index that is out of range or not on an element boundary is a refutation.
use crate::obs::{canon_marks, enc_width, exid_str, scalar_repr};
use automerge::{ObjType, Patch, PatchAction, Prop, ScalarValue, TextEncoding, Value};
use serde_json::{json, Map, Value as J};
use std::collections::BTreeMap;
use unicode_segmentation::UnicodeSegmentation;

#[derive(Clone, Debug)]
pub enum VNode {
    Scalar(J),
    Map { id: String, table: bool, m: BTreeMap<String, (VNode, bool)> },
    List { id: String, l: Vec<(VNode, bool)> },
    Text { id: String, t: Vec<TEl> },
}

#[derive(Clone, Debug)]
pub struct TEl {
    /// the string piece of a character element, or None for an embedded object / non-string value
    pub piece: Option<String>,
    pub node: Option<Box<VNode>>,
    pub conflict: bool,
    pub marks: BTreeMap<String, J>,
}

impl TEl {
    fn width(&self, enc: TextEncoding) -> usize {
        enc_width(enc, self.piece.as_deref().unwrap_or("\u{fffc}"))
    }
}

fn new_obj(t: ObjType, id: String) -> VNode {
    match t {
        ObjType::Map => VNode::Map { id, table: false, m: BTreeMap::new() },
        ObjType::Table => VNode::Map { id, table: true, m: BTreeMap::new() },
        ObjType::List => VNode::List { id, l: vec![] },
        ObjType::Text => VNode::Text { id, t: vec![] },
    }
}

fn from_value(v: &Value<'_>, id: &automerge::ObjId) -> VNode {
    match v {
        Value::Object(t) => new_obj(*t, exid_str(id)),
        Value::Scalar(s) => VNode::Scalar(scalar_repr(s.as_ref())),
    }
}

impl VNode {
    pub fn id(&self) -> Option<&str> {
        match self {
            VNode::Scalar(_) => None,
            VNode::Map { id, .. } | VNode::List { id, .. } | VNode::Text { id, .. } => Some(id),
        }
    }

    /// build the view of an OBS snapshot (winners + conflict flags + marks)
    pub fn from_snapshot(o: &J) -> VNode {
        let entry = |es: &J| -> (VNode, bool) {
            let a = es.as_array().cloned().unwrap_or_default();
            let w = a.last().cloned().unwrap_or(J::Null);
            let n = match w.get("o") {
                Some(oo) => VNode::from_snapshot(oo),
                None => VNode::Scalar(w.get("v").cloned().unwrap_or(J::Null)),
            };
            (n, a.len() > 1)
        };
        let id = o["id"].as_str().unwrap_or("").to_string();
        match o["type"].as_str().unwrap_or("") {
            "map" | "table" => VNode::Map {
                id,
                table: o["type"] == "table",
                m: o["map"].as_object().map(|m| m.iter().map(|(k, v)| (k.clone(), entry(v))).collect()).unwrap_or_default(),
            },
            "list" => VNode::List { id, l: o["seq"].as_array().map(|a| a.iter().map(&entry).collect()).unwrap_or_default() },
            _ => {
                let marks: Vec<(usize, usize, String, J)> = o["marks"]
                    .as_array()
                    .map(|a| a.iter().map(|m| (m[0].as_u64().unwrap_or(0) as usize, m[1].as_u64().unwrap_or(0) as usize, m[2].as_str().unwrap_or("").to_string(), m[3].clone())).collect())
                    .unwrap_or_default();
                let mut t = vec![];
                for e in o["seq"].as_array().cloned().unwrap_or_default() {
                    let at = e["at"].as_u64().unwrap_or(0) as usize;
                    let (n, c) = entry(&e["vals"]);
                    let mut mm = BTreeMap::new();
                    for (s, en, name, v) in &marks {
                        if *s <= at && at < *en {
                            mm.insert(name.clone(), v.clone());
                        }
                    }
                    let (piece, node) = match &n {
                        VNode::Scalar(v) if v.get("str").is_some() => (v["str"].as_str().map(|s| s.to_string()), None),
                        // a non-string scalar inside a text reads as U+FFFC, like in text()
                        VNode::Scalar(_) => (None, None),
                        other => (None, Some(Box::new(other.clone()))),
                    };
                    t.push(TEl { piece, node, conflict: c, marks: mm });
                }
                VNode::Text { id, t }
            }
        }
    }

    /// JSON image: maps/lists with {"val","conflict"}; text as {"text", "marks"}
    pub fn to_json(&self, enc: TextEncoding) -> J {
        match self {
            VNode::Scalar(v) => v.clone(),
            VNode::Map { m, .. } => {
                let mm: Map<String, J> = m.iter().map(|(k, (v, c))| (k.clone(), json!({"val": v.to_json(enc), "conflict": c}))).collect();
                json!({"map": mm})
            }
            VNode::List { l, .. } => json!({"list": l.iter().map(|(v, c)| json!({"val": v.to_json(enc), "conflict": c})).collect::<Vec<_>>()}),
            VNode::Text { t, .. } => {
                let mut s = String::new();
                let mut per_pos: Vec<Map<String, J>> = vec![];
                let mut embedded = vec![];
                for el in t {
                    s.push_str(el.piece.as_deref().unwrap_or("\u{fffc}"));
                    // Marks are compared over the characters only: an Insert patch cannot say
                    // whether an embedded object lies inside a mark, while marks() reports
                    // ranges that run across it. Positions are those of the text without
                    // embedded elements.
                    if el.piece.is_some() {
                        let mm: Map<String, J> = el.marks.iter().map(|(k, v)| (k.clone(), v.clone())).collect();
                        for _ in 0..el.width(enc) {
                            per_pos.push(mm.clone());
                        }
                    }
                    if let Some(n) = &el.node {
                        embedded.push(n.to_json(enc));
                    }
                }
                json!({"text": s, "marks": canon_marks(&per_pos), "embedded": embedded})
            }
        }
    }

    fn child_mut(&mut self, prop: &Prop, enc: TextEncoding) -> Result<&mut VNode, String> {
        match (self, prop) {
            (VNode::Map { m, .. }, Prop::Map(k)) => m.get_mut(k).map(|x| &mut x.0).ok_or_else(|| format!("path names key {k:?} which the view does not have")),
            (VNode::List { l, .. }, Prop::Seq(i)) => {
                let n = l.len();
                l.get_mut(*i).map(|x| &mut x.0).ok_or_else(|| format!("path names index {i} of a list of {n}"))
            }
            (VNode::Text { t, .. }, Prop::Seq(i)) => {
                let mut at = 0;
                for el in t.iter_mut() {
                    if at == *i {
                        return el.node.as_deref_mut().ok_or_else(|| format!("path names text index {i} which holds a character, not an object"));
                    }
                    at += el.width(enc);
                }
                Err(format!("path names text index {i} which is not an element start"))
            }
            (_, p) => Err(format!("path component {p:?} does not fit the object kind in the view")),
        }
    }

    /// apply one patch; Err = the patch cannot be applied to this view (a refutation)
    pub fn apply(&mut self, p: &Patch, enc: TextEncoding) -> Result<(), String> {
        let mut node: &mut VNode = self;
        for (oid, prop) in &p.path {
            if node.id() != Some(exid_str(oid).as_str()) {
                return Err(format!("path step names object {} but the view has {:?} there", exid_str(oid), node.id()));
            }
            node = node.child_mut(prop, enc)?;
        }
        if node.id() != Some(exid_str(&p.obj).as_str()) {
            return Err(format!("patch targets object {} but the path leads to {:?}", exid_str(&p.obj), node.id()));
        }
        match (&p.action, node) {
            (PatchAction::PutMap { key, value, conflict }, VNode::Map { m, .. }) => {
                m.insert(key.clone(), (from_value(&value.0, &value.1), *conflict));
                Ok(())
            }
            (PatchAction::PutSeq { index, value, conflict }, VNode::List { l, .. }) => {
                let n = l.len();
                match l.get_mut(*index) {
                    Some(slot) => {
                        *slot = (from_value(&value.0, &value.1), *conflict);
                        Ok(())
                    }
                    None => Err(format!("PutSeq at index {index} of a list of {n}")),
                }
            }
            (PatchAction::PutSeq { index, value, conflict }, VNode::Text { t, .. }) => {
                let k = text_pos(t, *index, enc, false)?;
                let n = from_value(&value.0, &value.1);
                let (piece, node) = match &n {
                    VNode::Scalar(v) if v.get("str").is_some() => (v["str"].as_str().map(|s| s.to_string()), None),
                    VNode::Scalar(_) => (None, None),
                    other => (None, Some(Box::new(other.clone()))),
                };
                let marks = t[k].marks.clone();
                t[k] = TEl { piece, node, conflict: *conflict, marks };
                Ok(())
            }
            (PatchAction::Insert { index, values }, VNode::List { l, .. }) => {
                if *index > l.len() {
                    return Err(format!("Insert at index {index} of a list of {}", l.len()));
                }
                let new: Vec<(VNode, bool)> = values.iter().map(|(v, id, c)| (from_value(v, id), *c)).collect();
                l.splice(*index..*index, new);
                Ok(())
            }
            (PatchAction::Insert { index, values }, VNode::Text { t, .. }) => {
                let k = text_pos(t, *index, enc, true)?;
                let new: Vec<TEl> = values
                    .iter()
                    .map(|(v, id, c)| {
                        let n = from_value(v, id);
                        let (piece, node) = match &n {
                            VNode::Scalar(x) if x.get("str").is_some() => (x["str"].as_str().map(|s| s.to_string()), None),
                            VNode::Scalar(_) => (None, None),
                            other => (None, Some(Box::new(other.clone()))),
                        };
                        TEl { piece, node, conflict: *c, marks: BTreeMap::new() }
                    })
                    .collect();
                t.splice(k..k, new);
                Ok(())
            }
            (PatchAction::SpliceText { index, value, marks }, VNode::Text { t, .. }) => {
                let k = text_pos(t, *index, enc, true)?;
                let s = value.make_string();
                let mm: BTreeMap<String, J> = marks
                    .as_ref()
                    .map(|ms| ms.iter().filter(|(_, v)| !matches!(v, ScalarValue::Null)).map(|(k, v)| (k.to_string(), scalar_repr(v))).collect())
                    .unwrap_or_default();
                let pieces: Vec<String> = match enc {
                    TextEncoding::GraphemeCluster => s.graphemes(true).map(|g| g.to_string()).collect(),
                    _ => s.chars().map(|c| c.to_string()).collect(),
                };
                let new: Vec<TEl> = pieces.into_iter().map(|g| TEl { piece: if g == "\u{fffc}" { None } else { Some(g) }, node: None, conflict: false, marks: mm.clone() }).collect();
                t.splice(k..k, new);
                Ok(())
            }
            (PatchAction::Increment { prop, value }, n) => {
                let target = n.child_mut(prop, enc)?;
                match target {
                    VNode::Scalar(v) if v.get("counter").is_some() => {
                        let c = v["counter"].as_i64().unwrap_or(0);
                        *v = json!({"counter": c.wrapping_add(*value)});
                        Ok(())
                    }
                    other => Err(format!("Increment at {prop:?} but the view holds {:?}, not a counter", other.to_json(enc))),
                }
            }
            (PatchAction::Conflict { prop }, n) => match (n, prop) {
                (VNode::Map { m, .. }, Prop::Map(k)) => m.get_mut(k).map(|x| x.1 = true).ok_or_else(|| format!("Conflict on missing key {k:?}")),
                (VNode::List { l, .. }, Prop::Seq(i)) => l.get_mut(*i).map(|x| x.1 = true).ok_or_else(|| format!("Conflict on missing index {i}")),
                (VNode::Text { t, .. }, Prop::Seq(i)) => {
                    let k = text_pos(t, *i, enc, false)?;
                    t[k].conflict = true;
                    Ok(())
                }
                (_, p) => Err(format!("Conflict with prop {p:?} on a mismatching object")),
            },
            (PatchAction::DeleteMap { key }, VNode::Map { m, .. }) => m.remove(key).map(|_| ()).ok_or_else(|| format!("DeleteMap of key {key:?} which the view does not have")),
            (PatchAction::DeleteSeq { index, length }, VNode::List { l, .. }) => {
                if index + length > l.len() {
                    return Err(format!("DeleteSeq {index}+{length} on a list of {}", l.len()));
                }
                l.drain(*index..index + length);
                Ok(())
            }
            (PatchAction::DeleteSeq { index, length }, VNode::Text { t, .. }) => {
                let a = text_pos(t, *index, enc, false)?;
                let mut b = a;
                let mut w = 0;
                while w < *length {
                    match t.get(b) {
                        Some(el) => {
                            w += el.width(enc);
                            b += 1;
                        }
                        None => return Err(format!("DeleteSeq {index}+{length} runs past the end of the text")),
                    }
                }
                if w != *length {
                    return Err(format!("DeleteSeq {index}+{length} does not end on an element boundary"));
                }
                t.drain(a..b);
                Ok(())
            }
            (PatchAction::Mark { marks }, VNode::Text { t, .. }) => {
                for mk in marks {
                    let mut at = 0;
                    for el in t.iter_mut() {
                        let w = el.width(enc);
                        if at >= mk.start && at < mk.end {
                            if matches!(mk.value(), ScalarValue::Null) {
                                el.marks.remove(mk.name());
                            } else {
                                el.marks.insert(mk.name().to_string(), scalar_repr(mk.value()));
                            }
                        } else if at < mk.end && at + w > mk.start {
                            return Err(format!("Mark {}..{} cuts through the element at {at} (width {w})", mk.start, mk.end));
                        }
                        at += w;
                    }
                    if mk.end > at {
                        return Err(format!("Mark {}..{} ends beyond the text length {at}", mk.start, mk.end));
                    }
                }
                Ok(())
            }
            (a, n) => Err(format!("patch action {} does not fit a {:?}", action_name(a), n.id())),
        }
    }
}

pub fn action_name(a: &PatchAction) -> &'static str {
    match a {
        PatchAction::PutMap { .. } => "PutMap",
        PatchAction::PutSeq { .. } => "PutSeq",
        PatchAction::Insert { .. } => "Insert",
        PatchAction::SpliceText { .. } => "SpliceText",
        PatchAction::Increment { .. } => "Increment",
        PatchAction::Conflict { .. } => "Conflict",
        PatchAction::DeleteMap { .. } => "DeleteMap",
        PatchAction::DeleteSeq { .. } => "DeleteSeq",
        PatchAction::Mark { .. } => "Mark",
    }
}

/// element position for a unit index; `allow_end` for insert positions
fn text_pos(t: &[TEl], index: usize, enc: TextEncoding, allow_end: bool) -> Result<usize, String> {
    let mut at = 0;
    for (k, el) in t.iter().enumerate() {
        if at == index {
            return Ok(k);
        }
        at += el.width(enc);
    }
    if at == index && allow_end {
        return Ok(t.len());
    }
    Err(format!("text index {index} is not an element boundary of the view (text has {at} units)"))
}

/// apply a patch list; returns the first refutation
pub fn apply_all(v: &mut VNode, patches: &[Patch], enc: TextEncoding) -> Result<(), String> {
    for (i, p) in patches.iter().enumerate() {
        v.apply(p, enc).map_err(|e| format!("patch #{i} ({} on {}): {e}", action_name(&p.action), exid_str(&p.obj)))?;
    }
    Ok(())
}
