//! Small helpers shared by the checks.
use crate::fw::{Ctx, Rng};
use crate::gen::actor;
use automerge::sync::{self, SyncDoc};
use automerge::{AutoCommit, Change, ChangeHash, LoadOptions, TextEncoding};
use serde_json::json;
use std::collections::BTreeSet;

pub fn fresh(enc: TextEncoding, a: usize) -> AutoCommit {
    AutoCommit::new_with_encoding(enc).with_actor(actor(a))
}

pub fn load_enc(bytes: &[u8], enc: TextEncoding) -> Result<AutoCommit, automerge::AutomergeError> {
    AutoCommit::load_with_options(bytes, LoadOptions::new().text_encoding(enc))
}

pub fn heads_sorted(d: &mut AutoCommit) -> Vec<ChangeHash> {
    let mut h = d.get_heads();
    h.sort();
    h
}

pub fn hashes_sorted(d: &mut AutoCommit) -> Vec<ChangeHash> {
    let mut h: Vec<ChangeHash> = d.get_changes(&[]).iter().map(|c| c.hash()).collect();
    h.sort();
    h
}

/// a uniformly random-ish topological order of a change set
pub fn random_topo(rng: &mut Rng, changes: &[Change]) -> Vec<Change> {
    let all: BTreeSet<ChangeHash> = changes.iter().map(|c| c.hash()).collect();
    let mut done: BTreeSet<ChangeHash> = BTreeSet::new();
    let mut rest: Vec<Change> = changes.to_vec();
    let mut out = vec![];
    while !rest.is_empty() {
        let ready: Vec<usize> = rest
            .iter()
            .enumerate()
            .filter(|(_, c)| c.deps().iter().all(|d| done.contains(d) || !all.contains(d)))
            .map(|(i, _)| i)
            .collect();
        if ready.is_empty() {
            break;
        }
        let i = ready[rng.below(ready.len())];
        let c = rest.swap_remove(i);
        done.insert(c.hash());
        out.push(c);
    }
    out
}

/// H3 invariant walk; a failure is reported under the running property
pub fn check_h3(cx: &mut Ctx, d: &AutoCommit, label: &str) -> bool {
    cx.count("h3_walks");
    match d.verif_check_invariants() {
        Ok(()) => true,
        Err(e) => {
            let class: String = e.split(':').next().unwrap_or("").to_string();
            cx.violation(&format!("h3|{class}"), format!("internal invariant broken on {label}: {e}"), json!({"label": label}));
            false
        }
    }
}

/// run a reliable in-order sync session between two documents until quiet; returns rounds used or None if not quiet within `max_rounds`
pub fn sync_until_quiet(a: &mut AutoCommit, b: &mut AutoCommit, max_rounds: usize) -> Option<usize> {
    let mut sa = sync::State::new();
    let mut sb = sync::State::new();
    for round in 0..max_rounds {
        let ma = a.sync().generate_sync_message(&mut sa);
        let mb = b.sync().generate_sync_message(&mut sb);
        if ma.is_none() && mb.is_none() {
            return Some(round);
        }
        if let Some(m) = ma {
            let m = sync::Message::decode(&m.encode()).ok()?;
            b.sync().receive_sync_message(&mut sb, m).ok()?;
        }
        if let Some(m) = mb {
            let m = sync::Message::decode(&m.encode()).ok()?;
            a.sync().receive_sync_message(&mut sa, m).ok()?;
        }
    }
    None
}

pub fn enc_for(rng: &mut Rng) -> TextEncoding {
    *rng.pick(&crate::obs::ENCODINGS)
}

pub fn hash_hex(h: &[ChangeHash]) -> Vec<String> {
    h.iter().map(|x| x.to_string()).collect()
}

pub fn tail(log: &[String], n: usize) -> Vec<String> {
    log.iter().rev().take(n).rev().cloned().collect()
}

/// Observational equality of two documents: heads, change hashes, OBS snapshot,
/// missing deps. Returns a description of the first difference.
pub fn docs_differ(a: &mut AutoCommit, b: &mut AutoCommit) -> Option<String> {
    let (ha, hb) = (heads_sorted(a), heads_sorted(b));
    if ha != hb {
        return Some(format!("heads differ: {:?} vs {:?}", hash_hex(&ha), hash_hex(&hb)));
    }
    let (ca, cb) = (hashes_sorted(a), hashes_sorted(b));
    if ca != cb {
        return Some(format!("change sets differ: {} vs {} changes", ca.len(), cb.len()));
    }
    let (mut ma, mut mb) = (a.get_missing_deps(&[]), b.get_missing_deps(&[]));
    ma.sort();
    mb.sort();
    if ma != mb {
        return Some(format!("missing deps differ: {:?} vs {:?}", hash_hex(&ma), hash_hex(&mb)));
    }
    let oa = crate::obs::observe_opts(a, None, false);
    let ob = crate::obs::observe_opts(b, None, false);
    if let Some(e) = oa.core_errors().first() {
        return Some(format!("left document reads inconsistently: {e}"));
    }
    if let Some(e) = ob.core_errors().first() {
        return Some(format!("right document reads inconsistently: {e}"));
    }
    crate::obs::first_diff(&oa.snap, &ob.snap).map(|d| format!("state differs {d}"))
}

/// the changes held in the pending (out-of-order) queue: the extra chunks that
/// save{retain_orphans:true} writes after the document chunk
pub fn queued_changes(d: &mut AutoCommit) -> Vec<Change> {
    let with = d.save_with_options(automerge::SaveOptions { deflate: false, retain_orphans: true });
    let (chunks, _) = crate::chunks::parse_chunks(&with);
    let mut out = vec![];
    for c in chunks.iter().skip(1) {
        if let Ok(ch) = Change::from_bytes(with[c.start..c.end].to_vec()) {
            out.push(ch);
        }
    }
    out
}
