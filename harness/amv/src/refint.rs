//! REF — an independent op-based interpreter of a set of changes.
//!
//! Input: `Change::decode()` of every change (actor, seq, startOp, deps, ops
//! with obj/key/insert/pred/action). Output: a snapshot of the same shape OBS
//! produces. Written from the property statements (C02, C25) and the binary
//! format description; shares no code with the library.
//!
//! Rules:
//! * ops are applied in (counter, actor-bytes) order (a causal order);
//! * every map key / list element is a multi-value register holding the put and
//!   make ops written to it; an op is *visible* unless a later delete, put/make
//!   or an increment-of-a-non-counter names it as predecessor;
//! * a counter's value is its initial value plus every increment naming it;
//! * winner = greatest (counter, actor) id; get_all order = ascending id;
//! * sequences are RGA trees: children of an element ordered by descending id,
//!   depth first;
//! * marks: walking the sequence (tombstones and mark anchors included), a mark
//!   is active between its begin and end anchor; at a visible position the value
//!   of a name is that of the highest-id active mark; null = unmarked.
use crate::obs::{canon_marks, enc_width, objtype_name, scalar_repr};
use automerge::legacy::{ElementId, Key, ObjectId, OpId as LOpId, OpType};
use automerge::{ExpandedChange, ObjType, ScalarValue, TextEncoding};
use serde_json::{json, Map, Value as J};
use std::collections::{BTreeMap, HashMap};

type Id = (u64, Vec<u8>);

fn lid(o: &LOpId) -> Id {
    (o.0, o.1.to_bytes().to_vec())
}
fn id_str(i: &Id) -> String {
    format!("{}@{}", i.0, hex::encode(&i.1))
}

#[derive(Debug)]
enum Kind {
    Put(ScalarValue),
    Make(ObjType),
    MarkBegin { name: String, value: ScalarValue },
    MarkEnd,
}

#[derive(Debug)]
struct ROp {
    id: Id,
    kind: Kind,
    /// successors that hide this op
    hidden: bool,
    /// sum of increments naming this op (meaningful for counters)
    inc: i64,
    is_counter: bool,
}

#[derive(Default, Debug)]
struct Elem {
    /// ops in this element's register: the insert op itself and later puts
    ops: Vec<usize>,
    /// children (elements inserted after this one), kept sorted by descending id
    children: Vec<Id>,
    /// the element this one was inserted after (None = head)
    parent: Option<Id>,
}

#[derive(Debug)]
struct RObj {
    typ: ObjType,
    map: BTreeMap<String, Vec<usize>>,
    elems: HashMap<Id, Elem>,
    head_children: Vec<Id>,
}

#[derive(Clone, Debug)]
pub struct SeqElem {
    pub id: String,
    pub parent: Option<String>,
    pub visible: bool,
    pub width: usize,
    pub is_mark: bool,
}

pub struct Ref {
    ops: Vec<ROp>,
    by_id: HashMap<Id, usize>,
    objs: HashMap<Option<Id>, RObj>,
    enc: TextEncoding,
    pub errors: Vec<String>,
    pub stats: RefStats,
}

#[derive(Default, Debug, Clone)]
pub struct RefStats {
    pub ops: u64,
    pub conflicted_registers: u64,
    pub concurrent_sibling_inserts: u64,
    pub deletes_of_conflicted: u64,
    pub increments_on_conflicted: u64,
    pub object_replacements: u64,
    pub mark_ops: u64,
}

fn insert_desc(v: &mut Vec<Id>, id: Id) -> bool {
    // descending order by id; returns true when the new element has siblings
    let pos = v.iter().position(|x| *x < id).unwrap_or(v.len());
    v.insert(pos, id);
    v.len() > 1
}

impl Ref {
    pub fn build(changes: &[ExpandedChange], enc: TextEncoding) -> Ref {
        let mut all: Vec<(Id, &automerge::legacy::Op)> = vec![];
        for c in changes {
            let actor = c.actor_id.to_bytes().to_vec();
            for (i, op) in c.operations.iter().enumerate() {
                all.push(((c.start_op.get() + i as u64, actor.clone()), op));
            }
        }
        all.sort_by(|a, b| a.0.cmp(&b.0));
        let mut r = Ref {
            ops: vec![],
            by_id: HashMap::new(),
            objs: HashMap::new(),
            enc,
            errors: vec![],
            stats: RefStats::default(),
        };
        r.objs.insert(
            None,
            RObj { typ: ObjType::Map, map: BTreeMap::new(), elems: HashMap::new(), head_children: vec![] },
        );
        for (id, op) in all {
            r.apply(id, op);
        }
        r
    }

    fn err(&mut self, s: String) {
        if self.errors.len() < 10 {
            self.errors.push(s);
        }
    }

    fn apply(&mut self, id: Id, op: &automerge::legacy::Op) {
        self.stats.ops += 1;
        let objkey: Option<Id> = match &op.obj {
            ObjectId::Root => None,
            ObjectId::Id(o) => Some(lid(o)),
        };
        if !self.objs.contains_key(&objkey) {
            self.err(format!("op {} targets unknown object {:?}", id_str(&id), objkey.as_ref().map(id_str)));
            return;
        }
        // successors
        let preds: Vec<Id> = op.pred.iter().map(lid).collect();
        let visible_preds = preds
            .iter()
            .filter(|p| self.by_id.get(*p).map(|i| !self.ops[*i].hidden).unwrap_or(false))
            .count();
        match &op.action {
            OpType::Increment(n) => {
                if visible_preds > 1 {
                    self.stats.increments_on_conflicted += 1;
                }
                for p in &preds {
                    match self.by_id.get(p).copied() {
                        Some(i) => {
                            if self.ops[i].is_counter {
                                self.ops[i].inc = self.ops[i].inc.wrapping_add(*n);
                            } else {
                                self.ops[i].hidden = true;
                            }
                        }
                        None => self.err(format!("increment {} names unknown pred {}", id_str(&id), id_str(p))),
                    }
                }
                return;
            }
            OpType::Delete => {
                if visible_preds > 1 {
                    self.stats.deletes_of_conflicted += 1;
                }
                for p in &preds {
                    match self.by_id.get(p).copied() {
                        Some(i) => self.ops[i].hidden = true,
                        None => self.err(format!("delete {} names unknown pred {}", id_str(&id), id_str(p))),
                    }
                }
                return;
            }
            _ => {}
        }
        for p in &preds {
            match self.by_id.get(p).copied() {
                Some(i) => {
                    if matches!(self.ops[i].kind, Kind::Make(_)) && !self.ops[i].hidden {
                        self.stats.object_replacements += 1;
                    }
                    self.ops[i].hidden = true
                }
                None => self.err(format!("op {} names unknown pred {}", id_str(&id), id_str(p))),
            }
        }
        let kind = match &op.action {
            OpType::Put(v) => Kind::Put(v.clone()),
            OpType::Make(t) => Kind::Make(*t),
            OpType::MarkBegin(m) => {
                self.stats.mark_ops += 1;
                Kind::MarkBegin { name: m.name.to_string(), value: m.value.clone() }
            }
            OpType::MarkEnd(_) => Kind::MarkEnd,
            _ => unreachable!(),
        };
        if let Kind::Make(t) = &kind {
            self.objs.insert(
                Some(id.clone()),
                RObj { typ: *t, map: BTreeMap::new(), elems: HashMap::new(), head_children: vec![] },
            );
        }
        let is_counter = matches!(&kind, Kind::Put(ScalarValue::Counter(_)));
        let idx = self.ops.len();
        self.ops.push(ROp { id: id.clone(), kind, hidden: false, inc: 0, is_counter });
        self.by_id.insert(id.clone(), idx);
        let mut errs = vec![];
        let mut sibling = false;
        {
            let obj = self.objs.get_mut(&objkey).unwrap();
            match &op.key {
                Key::Map(k) => {
                    if op.insert {
                        errs.push(format!("op {} is an insert with a map key", id_str(&id)));
                    }
                    obj.map.entry(k.to_string()).or_default().push(idx);
                }
                Key::Seq(e) => {
                    if op.insert {
                        let had = match e {
                            ElementId::Head => insert_desc(&mut obj.head_children, id.clone()),
                            ElementId::Id(p) => match obj.elems.get_mut(&lid(p)) {
                                Some(pe) => insert_desc(&mut pe.children, id.clone()),
                                None => {
                                    errs.push(format!("insert {} after unknown element {}", id_str(&id), id_str(&lid(p))));
                                    false
                                }
                            },
                        };
                        sibling = had;
                        let parent = match e {
                            ElementId::Head => None,
                            ElementId::Id(p) => Some(lid(p)),
                        };
                        obj.elems.insert(id.clone(), Elem { ops: vec![idx], children: vec![], parent });
                    } else {
                        match e {
                            ElementId::Head => errs.push(format!("non-insert op {} on HEAD", id_str(&id))),
                            ElementId::Id(p) => match obj.elems.get_mut(&lid(p)) {
                                Some(pe) => pe.ops.push(idx),
                                None => errs.push(format!("op {} on unknown element {}", id_str(&id), id_str(&lid(p)))),
                            },
                        }
                    }
                }
            }
        }
        if sibling {
            self.stats.concurrent_sibling_inserts += 1;
        }
        for e in errs {
            self.err(e);
        }
    }

    fn visible(&self, ops: &[usize]) -> Vec<usize> {
        let mut v: Vec<usize> = ops
            .iter()
            .copied()
            .filter(|i| !self.ops[*i].hidden && matches!(self.ops[*i].kind, Kind::Put(_) | Kind::Make(_)))
            .collect();
        v.sort_by(|a, b| self.ops[*a].id.cmp(&self.ops[*b].id));
        v
    }

    fn value_of(&self, i: usize) -> ScalarValue {
        match &self.ops[i].kind {
            Kind::Put(ScalarValue::Counter(c)) => {
                let start: i64 = i64::from(c);
                ScalarValue::counter(start.wrapping_add(self.ops[i].inc))
            }
            Kind::Put(v) => v.clone(),
            _ => ScalarValue::Null,
        }
    }

    fn entries(&mut self, vis: &[usize], depth: usize) -> J {
        if vis.len() > 1 {
            self.stats.conflicted_registers += 1;
        }
        let mut out = vec![];
        for i in vis {
            let id = self.ops[*i].id.clone();
            match &self.ops[*i].kind {
                Kind::Make(t) => {
                    let t = *t;
                    let o = self.object(Some(id.clone()), t, depth + 1);
                    out.push(json!({"id": id_str(&id), "o": o}));
                }
                _ => out.push(json!({"id": id_str(&id), "v": scalar_repr(&self.value_of(*i))})),
            }
        }
        J::Array(out)
    }

    /// depth-first RGA order of all element ids of an object
    fn order(&self, obj: &RObj) -> Vec<Id> {
        let mut out = vec![];
        let mut stack: Vec<Id> = obj.head_children.iter().rev().cloned().collect();
        while let Some(e) = stack.pop() {
            if let Some(el) = obj.elems.get(&e) {
                for c in el.children.iter().rev() {
                    stack.push(c.clone());
                }
            }
            out.push(e);
        }
        out
    }

    fn object(&mut self, key: Option<Id>, typ: ObjType, depth: usize) -> J {
        let mut m = Map::new();
        m.insert("type".into(), json!(objtype_name(typ)));
        m.insert("id".into(), json!(key.as_ref().map(id_str).unwrap_or("_root".into())));
        if depth > 64 {
            m.insert("too_deep".into(), json!(true));
            return J::Object(m);
        }
        let obj = match self.objs.remove(&key) {
            Some(o) => o,
            None => return J::Object(m),
        };
        match typ {
            ObjType::Map | ObjType::Table => {
                let mut mm = Map::new();
                for (k, ops) in &obj.map {
                    let vis = self.visible(ops);
                    if !vis.is_empty() {
                        let e = self.entries(&vis, depth);
                        mm.insert(k.clone(), e);
                    }
                }
                m.insert("map".into(), J::Object(mm));
            }
            ObjType::List => {
                let mut seq = vec![];
                for e in self.order(&obj) {
                    let vis = self.visible(&obj.elems[&e].ops);
                    if !vis.is_empty() {
                        seq.push(self.entries(&vis, depth));
                    }
                }
                m.insert("seq".into(), J::Array(seq));
            }
            ObjType::Text => {
                let mut text = String::new();
                let mut seq = vec![];
                let mut pos = 0usize;
                let mut per_pos: Vec<Map<String, J>> = vec![];
                // active marks: begin id -> (name, value)
                let mut active: BTreeMap<Id, (String, ScalarValue)> = BTreeMap::new();
                for e in self.order(&obj) {
                    let first = obj.elems[&e].ops[0];
                    match &self.ops[first].kind {
                        Kind::MarkBegin { name, value } => {
                            active.insert(e.clone(), (name.clone(), value.clone()));
                            continue;
                        }
                        Kind::MarkEnd => {
                            // pairs with the begin whose id is (counter-1, same actor)
                            let b = (e.0 - 1, e.1.clone());
                            active.remove(&b);
                            continue;
                        }
                        _ => {}
                    }
                    let vis = self.visible(&obj.elems[&e].ops);
                    if vis.is_empty() {
                        continue;
                    }
                    let w_op = *vis.last().unwrap();
                    let piece = match &self.ops[w_op].kind {
                        Kind::Put(ScalarValue::Str(s)) => s.to_string(),
                        _ => "\u{fffc}".to_string(),
                    };
                    let w = enc_width(self.enc, &piece);
                    let mut here: BTreeMap<String, (Id, ScalarValue)> = BTreeMap::new();
                    for (bid, (name, value)) in &active {
                        match here.get(name) {
                            Some((oid, _)) if oid > bid => {}
                            _ => {
                                here.insert(name.clone(), (bid.clone(), value.clone()));
                            }
                        }
                    }
                    let mut pm = Map::new();
                    for (name, (_, v)) in here {
                        if !matches!(v, ScalarValue::Null) {
                            pm.insert(name, scalar_repr(&v));
                        }
                    }
                    for _ in 0..w {
                        per_pos.push(pm.clone());
                    }
                    let ent = self.entries(&vis, depth);
                    seq.push(json!({"at": pos, "vals": ent}));
                    pos += w;
                    text.push_str(&piece);
                }
                m.insert("text".into(), json!(text));
                m.insert("len".into(), json!(pos));
                m.insert("seq".into(), J::Array(seq));
                m.insert("marks".into(), canon_marks(&per_pos));
            }
        }
        self.objs.insert(key, obj);
        J::Object(m)
    }

    /// the full sequence of an object in RGA order, tombstones included
    pub fn seq_layout(&self, obj_id: &str) -> Option<Vec<SeqElem>> {
        let key = self.objs.keys().find(|k| k.as_ref().map(id_str).as_deref() == Some(obj_id))?.clone();
        let obj = self.objs.get(&key)?;
        let is_text = obj.typ == ObjType::Text;
        let mut out = vec![];
        for e in self.order(obj) {
            let el = &obj.elems[&e];
            let first = el.ops[0];
            let is_mark = matches!(self.ops[first].kind, Kind::MarkBegin { .. } | Kind::MarkEnd);
            let vis = if is_mark { vec![] } else { self.visible(&el.ops) };
            let width = if vis.is_empty() {
                0
            } else if is_text {
                let piece = match &self.ops[*vis.last().unwrap()].kind {
                    Kind::Put(ScalarValue::Str(s)) => s.to_string(),
                    _ => "\u{fffc}".to_string(),
                };
                enc_width(self.enc, &piece)
            } else {
                1
            };
            out.push(SeqElem { id: id_str(&e), parent: el.parent.as_ref().map(id_str), visible: !vis.is_empty(), width, is_mark });
        }
        Some(out)
    }

    pub fn snapshot(&mut self) -> J {
        self.object(None, ObjType::Map, 0)
    }
}

pub fn build_ref(changes: &[automerge::Change], enc: TextEncoding) -> Ref {
    let ex: Vec<ExpandedChange> = changes.iter().map(|c| c.decode()).collect();
    Ref::build(&ex, enc)
}

/// REF over a set of changes
pub fn ref_snapshot(changes: &[automerge::Change], enc: TextEncoding) -> (J, Vec<String>, RefStats) {
    let ex: Vec<ExpandedChange> = changes.iter().map(|c| c.decode()).collect();
    let mut r = Ref::build(&ex, enc);
    let s = r.snapshot();
    (s, r.errors.clone(), r.stats.clone())
}
