//! Framework: deterministic RNG, per-worker context, sharded coordinator,
//! crash containment, three-valued verdicts, known findings, evidence files.
use serde_json::{json, Map, Value as J};
use std::cell::RefCell;
use std::collections::{BTreeMap, BTreeSet, HashSet};
use std::io::Write;
use std::path::{Path, PathBuf};
use std::time::{Duration, Instant};

pub const VERIF_ROOT: &str = "/verif";

// ---------------------------------------------------------------------------
// RNG (xoshiro256**, seeded via splitmix64)
// ---------------------------------------------------------------------------
#[derive(Clone, Debug)]
pub struct Rng {
    s: [u64; 4],
}

fn splitmix(x: &mut u64) -> u64 {
    *x = x.wrapping_add(0x9e37_79b9_7f4a_7c15);
    let mut z = *x;
    z = (z ^ (z >> 30)).wrapping_mul(0xbf58_476d_1ce4_e5b9);
    z = (z ^ (z >> 27)).wrapping_mul(0x94d0_49bb_1331_11eb);
    z ^ (z >> 31)
}

pub fn fnv(bytes: &[u8]) -> u64 {
    let mut h: u64 = 0xcbf2_9ce4_8422_2325;
    for b in bytes {
        h ^= *b as u64;
        h = h.wrapping_mul(0x0000_0100_0000_01b3);
    }
    h
}

pub fn hash_str(s: &str) -> u64 {
    fnv(s.as_bytes())
}

impl Rng {
    pub fn new(seed: u64) -> Self {
        let mut x = seed;
        Rng {
            s: [
                splitmix(&mut x),
                splitmix(&mut x),
                splitmix(&mut x),
                splitmix(&mut x),
            ],
        }
    }
    pub fn for_case(seed: u64, prop: &str, case: u64) -> Self {
        Rng::new(seed ^ hash_str(prop).rotate_left(17) ^ case.wrapping_mul(0x2545_f491_4f6c_dd1d))
    }
    pub fn next(&mut self) -> u64 {
        let r = self.s[1].wrapping_mul(5).rotate_left(7).wrapping_mul(9);
        let t = self.s[1] << 17;
        self.s[2] ^= self.s[0];
        self.s[3] ^= self.s[1];
        self.s[1] ^= self.s[2];
        self.s[0] ^= self.s[3];
        self.s[2] ^= t;
        self.s[3] = self.s[3].rotate_left(45);
        r
    }
    /// uniform in 0..n (n>0)
    pub fn below(&mut self, n: usize) -> usize {
        if n == 0 {
            0
        } else {
            (self.next() % n as u64) as usize
        }
    }
    pub fn range(&mut self, lo: usize, hi_incl: usize) -> usize {
        lo + self.below(hi_incl - lo + 1)
    }
    pub fn chance(&mut self, pct: u32) -> bool {
        (self.next() % 100) < pct as u64
    }
    pub fn pick<'a, T>(&mut self, v: &'a [T]) -> &'a T {
        &v[self.below(v.len())]
    }
    pub fn weighted(&mut self, w: &[u32]) -> usize {
        let tot: u32 = w.iter().sum();
        if tot == 0 {
            return 0;
        }
        let mut x = (self.next() % tot as u64) as u32;
        for (i, wi) in w.iter().enumerate() {
            if x < *wi {
                return i;
            }
            x -= wi;
        }
        w.len() - 1
    }
    pub fn shuffle<T>(&mut self, v: &mut [T]) {
        for i in (1..v.len()).rev() {
            let j = self.below(i + 1);
            v.swap(i, j);
        }
    }
    pub fn bytes(&mut self, n: usize) -> Vec<u8> {
        (0..n).map(|_| self.next() as u8).collect()
    }
    pub fn fork(&mut self) -> Rng {
        Rng::new(self.next())
    }
}

// ---------------------------------------------------------------------------
// Tier
// ---------------------------------------------------------------------------
#[derive(Clone, Copy, Debug, PartialEq, Eq)]
pub enum Tier {
    Quick,
    Thorough,
}
impl Tier {
    pub fn name(&self) -> &'static str {
        match self {
            Tier::Quick => "quick",
            Tier::Thorough => "thorough",
        }
    }
    pub fn parse(s: &str) -> Tier {
        if s == "thorough" {
            Tier::Thorough
        } else {
            Tier::Quick
        }
    }
    pub fn pick<T>(&self, q: T, t: T) -> T {
        match self {
            Tier::Quick => q,
            Tier::Thorough => t,
        }
    }
}

// ---------------------------------------------------------------------------
// Per-worker context
// ---------------------------------------------------------------------------
#[derive(Clone, Debug)]
pub struct Violation {
    pub sig: String,
    pub what: String,
    pub case: u64,
    pub detail: J,
}

pub struct Ctx {
    pub prop: String,
    pub tier: Tier,
    pub seed: u64,
    pub case: u64,
    pub verbose: bool,
    pub counters: BTreeMap<String, u64>,
    pub distinct: HashSet<u64>,
    pub samples: Vec<J>,
    pub violations: Vec<Violation>,
    pub escaped_panics: Vec<(u64, String)>,
    pub log: Vec<String>,
    pub evaluations: u64,
}

pub const MAX_VIOLATIONS_KEPT: usize = 600;

impl Ctx {
    pub fn new(prop: &str, tier: Tier, seed: u64) -> Ctx {
        Ctx {
            prop: prop.to_string(),
            tier,
            seed,
            case: 0,
            verbose: false,
            counters: BTreeMap::new(),
            distinct: HashSet::new(),
            samples: Vec::new(),
            violations: Vec::new(),
            escaped_panics: Vec::new(),
            log: Vec::new(),
            evaluations: 0,
        }
    }
    pub fn count(&mut self, k: &str) {
        self.add(k, 1)
    }
    pub fn add(&mut self, k: &str, n: u64) {
        *self.counters.entry(k.to_string()).or_insert(0) += n;
    }
    pub fn max(&mut self, k: &str, n: u64) {
        let e = self.counters.entry(format!("max_{k}")).or_insert(0);
        if n > *e {
            *e = n;
        }
    }
    /// record a distinct non-trivial case signature
    pub fn nontrivial(&mut self, sig: u64) {
        self.distinct.insert(sig);
    }
    pub fn sample(&mut self, v: impl FnOnce() -> J) {
        if self.samples.len() < 3 {
            let s = v();
            self.samples.push(s);
        }
    }
    pub fn violation(&mut self, sig: &str, what: impl Into<String>, detail: J) {
        let what = what.into();
        if self.verbose {
            eprintln!("[violation] {sig}: {what}\n{}", serde_json::to_string_pretty(&detail).unwrap_or_default());
        }
        self.count("violations_raw");
        if self.violations.len() < MAX_VIOLATIONS_KEPT {
            // keep at most 3 per signature
            let n = self.violations.iter().filter(|v| v.sig == sig).count();
            if n < 3 {
                self.violations.push(Violation {
                    sig: sig.to_string(),
                    what,
                    case: self.case,
                    detail,
                });
            }
        }
    }
    /// trace line (kept only in verbose/replay mode)
    pub fn trace(&mut self, f: impl FnOnce() -> String) {
        if self.verbose {
            let s = f();
            eprintln!("  | {s}");
        }
    }
}

// ---------------------------------------------------------------------------
// Check trait
// ---------------------------------------------------------------------------
pub trait Check: Sync {
    fn id(&self) -> &'static str;
    fn level(&self) -> &'static str {
        "exploration"
    }
    /// total number of cases for the tier (may be cut short by the time budget)
    fn cases(&self, tier: Tier) -> u64;
    /// soft wall-clock budget for the workers (seconds); not a verdict input
    fn budget_s(&self, tier: Tier) -> u64 {
        tier.pick(25, 420)
    }
    fn run_case(&self, cx: &mut Ctx, case: u64, rng: &mut Rng);
    fn rule(&self) -> String;
    fn assumptions(&self) -> Vec<String> {
        vec![]
    }
    /// minimum number of distinct non-trivial cases below which the run is inconclusive
    fn min_nontrivial(&self, tier: Tier) -> u64 {
        tier.pick(20, 100)
    }
    /// counters that must be non-zero for the run to be conclusive
    fn required_counters(&self) -> Vec<&'static str> {
        vec![]
    }
    /// true when a panic/abort of the code under test is itself a violation of this property
    fn panic_is_violation(&self) -> bool {
        false
    }
    fn exhaustive(&self) -> bool {
        false
    }
    /// signature of a panic text (override with `panic_sig_fn` for function-precise signatures)
    fn panic_sig_of(&self, text: &str) -> String {
        panic_sig(text)
    }
    /// true when a worker killed by the allocation cap (one request >= 1 GiB) or by the address-space
    /// limit violates this property even if panics do not
    fn alloc_death_is_violation(&self) -> bool {
        self.panic_is_violation()
    }
    /// percentage of cases that may be lost to panics / worker deaths of the code under test (which
    /// other properties report) before the run is INCONCLUSIVE
    fn max_aborted_pct(&self) -> u64 {
        5
    }
    /// CPU seconds one case may use before the worker is aborted (reported like an allocation death)
    fn case_cpu_limit_s(&self) -> u64 {
        300
    }
    /// whether C37's panic watch should also drive this check's workload
    fn in_panic_watch(&self) -> bool {
        true
    }
}

// ---------------------------------------------------------------------------
// Panic capture
// ---------------------------------------------------------------------------
static PANIC_SIDE_FILE: std::sync::OnceLock<PathBuf> = std::sync::OnceLock::new();

/// every panic text is also written to this file (overwritten each time), so that the
/// coordinator can attribute a worker that dies in a double panic / abort
pub fn set_panic_side_file(p: PathBuf) {
    let _ = PANIC_SIDE_FILE.set(p);
}

thread_local! {
    static LAST_PANIC: RefCell<Option<String>> = const { RefCell::new(None) };
    static QUIET_PANICS: RefCell<bool> = const { RefCell::new(true) };
}

pub fn install_panic_hook() {
    std::panic::set_hook(Box::new(|info| {
        let loc = info
            .location()
            .map(|l| format!("{}:{}", l.file(), l.line()))
            .unwrap_or_else(|| "?".into());
        let msg = if let Some(s) = info.payload().downcast_ref::<&str>() {
            s.to_string()
        } else if let Some(s) = info.payload().downcast_ref::<String>() {
            s.clone()
        } else {
            "<non-string panic>".into()
        };
        let (sfile, sfn) = in_repo_frame();
        let text = if sfn.is_empty() { format!("{loc}: {msg}") } else { format!("{loc}: {msg} @fn={sfile}#{sfn}") };
        let quiet = QUIET_PANICS.with(|q| *q.borrow());
        if !quiet {
            eprintln!("[panic] {text}");
        }
        if let Some(f) = PANIC_SIDE_FILE.get() {
            // keep the previous panic as well: an abort is preceded by the runtime's own
            // "panic in a destructor during cleanup"
            let prev = LAST_PANIC.with(|p| p.borrow().clone()).unwrap_or_default();
            let _ = std::fs::write(f, format!("{}\n{}", prev.replace('\n', " "), text.replace('\n', " ")));
        }
        LAST_PANIC.with(|p| *p.borrow_mut() = Some(text));
    }));
}

/// Innermost function of the code under test (a frame whose source lies under /repo/rust/) on
/// the current stack, as `Type::method` / `module::function` (generics, closures and hashes stripped).
pub fn in_repo_site() -> String {
    in_repo_frame().1
}

/// (source file basename, function) of the innermost frame of the code under test
pub fn in_repo_frame() -> (String, String) {
    let bt = std::backtrace::Backtrace::force_capture().to_string();
    if std::env::var_os("AMV_DEBUG_BT").is_some() {
        eprintln!("{bt}");
    }
    let lines: Vec<&str> = bt.lines().collect();
    for i in 1..lines.len() {
        let l = lines[i].trim_start();
        if let Some(path) = l.strip_prefix("at ") {
            if path.starts_with("/repo/rust/") {
                // the symbol is on the previous line: "  NN: path::to::function" (inlined frames
                // carry the bare function name only); closures are skipped in favour of the
                // function that contains them
                let sym = lines[i - 1].trim_start();
                let sym = sym.split_once(": ").map(|x| x.1).unwrap_or(sym);
                let f = short_fn(sym);
                if !f.is_empty() {
                    let file = path.split(':').next().unwrap_or(path).rsplit('/').next().unwrap_or("").to_string();
                    return (file, f);
                }
            }
        }
    }
    (String::new(), String::new())
}

pub fn short_fn(sym: &str) -> String {
    // "<Type as Trait>::method" / "<Type>::method": keep the type
    let mut prefix = String::new();
    let mut rest = sym;
    if let Some(inner) = sym.strip_prefix('<') {
        let mut depth = 1i32;
        let mut end = None;
        for (i, c) in inner.char_indices() {
            match c {
                '<' => depth += 1,
                '>' => {
                    depth -= 1;
                    if depth == 0 {
                        end = Some(i);
                        break;
                    }
                }
                _ => {}
            }
        }
        if let Some(e) = end {
            let ty = &inner[..e];
            let ty = ty.split(" as ").next().unwrap_or(ty);
            prefix = short_fn(ty.trim_start_matches('&').trim_start_matches("mut "));
            prefix = prefix.rsplit("::").next().unwrap_or("").to_string();
            rest = &inner[e + 1..];
        }
    }
    // strip generic arguments
    let mut out = String::new();
    let mut depth = 0i32;
    for c in rest.chars() {
        match c {
            '<' => depth += 1,
            '>' => depth -= 1,
            _ if depth == 0 => out.push(c),
            _ => {}
        }
    }
    let mut segs: Vec<String> = out
        .split("::")
        .filter(|s| !s.is_empty() && !s.starts_with('{') && !(s.len() == 17 && s.starts_with('h')))
        .map(|s| s.to_string())
        .collect();
    if !prefix.is_empty() && !segs.is_empty() {
        segs.insert(0, prefix);
    }
    let n = segs.len();
    if n >= 2 {
        format!("{}::{}", segs[n - 2], segs[n - 1])
    } else {
        segs.join("::")
    }
}

/// Like `panic_sig` but with the innermost in-repo function: `panic|file.rs#Type::method|message class`.
pub fn panic_sig_fn(text: &str) -> String {
    let (body, site) = match text.rfind(" @fn=") {
        Some(i) => (&text[..i], &text[i + 5..]),
        None => (text, ""),
    };
    let base = panic_sig(body);
    let site = site.rsplit('#').next().unwrap_or(site);
    if site.is_empty() {
        return base;
    }
    let mut parts: Vec<String> = base.splitn(3, '|').map(|s| s.to_string()).collect();
    if parts.len() == 3 {
        parts[1] = format!("{}#{}", parts[1], site);
    }
    parts.join("|")
}

/// Region-level signature of a panic: `panic|<crate>|<file>` of the innermost frame of the code
/// under test (no function, no message). Used where the unchanged tree has a known missing
/// validation layer and every consequence of it would otherwise need its own entry.
pub fn panic_sig_file(text: &str) -> String {
    let (body, site) = match text.rfind(" @fn=") {
        Some(i) => (&text[..i], &text[i + 5..]),
        None => (text, ""),
    };
    let loc = body.split(": ").next().unwrap_or("");
    let path = loc.rsplit_once(':').map(|x| x.0).unwrap_or(loc);
    let (krate, file) = if let Some(rest) = path.strip_prefix("/repo/rust/") {
        let krate = rest.split('/').next().unwrap_or("?");
        (krate.to_string(), rest.rsplit('/').next().unwrap_or("?").to_string())
    } else {
        // the panic location is inside the standard library: use the calling frame's file
        let file = site.split('#').next().unwrap_or("?");
        ("repo".to_string(), file.to_string())
    };
    format!("panic|{krate}|{file}")
}

pub fn set_quiet_panics(q: bool) {
    QUIET_PANICS.with(|c| *c.borrow_mut() = q);
}

/// Run `f`, returning Err(panic description "file:line: msg") if it panicked.
pub fn catch<T>(f: impl FnOnce() -> T) -> Result<T, String> {
    LAST_PANIC.with(|p| *p.borrow_mut() = None);
    match std::panic::catch_unwind(std::panic::AssertUnwindSafe(f)) {
        Ok(v) => Ok(v),
        Err(_) => Err(LAST_PANIC
            .with(|p| p.borrow_mut().take())
            .unwrap_or_else(|| "?: panic".into())),
    }
}

/// Coarse, line-shift-stable signature of a panic text: file basename + message class
pub fn panic_sig(text: &str) -> String {
    // text = "path/file.rs:LINE: message[ @fn=site]"
    let text = match text.rfind(" @fn=") {
        Some(i) => &text[..i],
        None => text,
    };
    let (loc, msg) = match text.find(": ") {
        Some(i) => (&text[..i], &text[i + 2..]),
        None => (text, ""),
    };
    let file = loc.rsplit('/').next().unwrap_or(loc);
    let file = file.split(':').next().unwrap_or(file);
    // message class: letters only, first 6 words, digits stripped
    let mut words = vec![];
    for w in msg.split(|c: char| !c.is_ascii_alphabetic()) {
        if w.len() >= 2 {
            words.push(w.to_ascii_lowercase());
        }
        if words.len() >= 6 {
            break;
        }
    }
    format!("panic|{file}|{}", words.join(" "))
}

// ---------------------------------------------------------------------------
// Known findings
// ---------------------------------------------------------------------------
#[derive(Clone, Debug)]
pub struct Known {
    pub status: String,
    pub property: String,
    pub sig: String,
    pub what: String,
}

/// `pattern` equals `sig`, or matches it field by field (fields separated by `|`) where a
/// pattern field `*` matches any single field
pub fn sig_matches(pattern: &str, sig: &str) -> bool {
    if pattern == sig {
        return true;
    }
    let (p, s): (Vec<&str>, Vec<&str>) = (pattern.split('|').collect(), sig.split('|').collect());
    p.len() == s.len() && p.iter().zip(s.iter()).all(|(a, b)| *a == "*" || a == b)
}

pub fn load_known() -> Vec<Known> {
    let p = Path::new(VERIF_ROOT).join("known_findings.jsonl");
    let mut out = vec![];
    if let Ok(s) = std::fs::read_to_string(p) {
        for l in s.lines() {
            let l = l.trim();
            if l.is_empty() || l.starts_with('#') {
                continue;
            }
            if let Ok(v) = serde_json::from_str::<J>(l) {
                out.push(Known {
                    status: v["status"].as_str().unwrap_or("").to_string(),
                    property: v["property"].as_str().unwrap_or("").to_string(),
                    sig: v["sig"].as_str().unwrap_or("").to_string(),
                    what: v["what"].as_str().unwrap_or("").to_string(),
                });
            }
        }
    }
    out
}

// ---------------------------------------------------------------------------
// Worker
// ---------------------------------------------------------------------------
pub struct WorkerArgs {
    pub tier: Tier,
    pub seed: u64,
    pub shard: u64,
    pub of: u64,
    pub out: PathBuf,
    pub budget_s: u64,
    pub only_case: Option<u64>,
    pub verbose: bool,
    /// skip cases <= this one (used when a shard is respawned after a crash)
    pub resume_after: Option<u64>,
}

pub fn out_dir() -> PathBuf {
    let p = Path::new(VERIF_ROOT).join("out");
    let _ = std::fs::create_dir_all(&p);
    p
}

/// Cap the address space of this process so that a runaway allocation kills
/// the worker (a recorded crash) instead of the machine.
pub fn limit_address_space(gib: u64) {
    unsafe {
        let lim = libc::rlimit {
            rlim_cur: gib << 30,
            rlim_max: gib << 30,
        };
        libc::setrlimit(libc::RLIMIT_AS, &lim);
        // no core files
        let z = libc::rlimit { rlim_cur: 0, rlim_max: 0 };
        libc::setrlimit(libc::RLIMIT_CORE, &z);
    }
}

static CASE_CPU_START_NS: std::sync::atomic::AtomicU64 = std::sync::atomic::AtomicU64::new(u64::MAX);

fn process_cpu_ns() -> u64 {
    let mut ts = libc::timespec { tv_sec: 0, tv_nsec: 0 };
    unsafe {
        libc::clock_gettime(libc::CLOCK_PROCESS_CPUTIME_ID, &mut ts);
    }
    ts.tv_sec as u64 * 1_000_000_000 + ts.tv_nsec as u64
}

/// Per-case CPU watchdog (CPU time, not wall time: independent of machine load). A case that burns
/// more than `limit_s` seconds of CPU aborts the worker with a line the coordinator recognises.
pub fn start_cpu_watchdog(limit_s: u64) {
    use std::sync::atomic::Ordering;
    std::thread::spawn(move || loop {
        std::thread::sleep(Duration::from_millis(500));
        let start = CASE_CPU_START_NS.load(Ordering::Relaxed);
        if start == u64::MAX {
            continue;
        }
        let used = process_cpu_ns().saturating_sub(start);
        if used > limit_s * 1_000_000_000 {
            let line = format!("amv-cpu-cap: one case used more than {limit_s} s of CPU\n");
            unsafe {
                libc::write(2, line.as_ptr() as *const libc::c_void, line.len());
                libc::abort();
            }
        }
    });
}

pub fn run_worker(check: &dyn Check, a: &WorkerArgs) -> Ctx {
    let mut cx = Ctx::new(check.id(), a.tier, a.seed);
    start_cpu_watchdog(check.case_cpu_limit_s());
    cx.verbose = a.verbose;
    let total = check.cases(a.tier);
    // the budget is CPU time of this worker, not wall time: on a loaded machine a run takes longer
    // but executes the same cases (the coordinator's wall-clock watchdog is separate and generous)
    let start_cpu = process_cpu_ns();
    let budget_ns = a.budget_s.saturating_mul(1_000_000_000);
    let cur_path = a.out.with_extension("cur");
    if a.only_case.is_none() && check.panic_is_violation() {
        set_panic_side_file(a.out.with_extension("lastpanic"));
    }
    let cases: Box<dyn Iterator<Item = u64>> = match a.only_case {
        Some(c) => Box::new(std::iter::once(c)),
        None => Box::new((a.shard..total).step_by(a.of as usize)),
    };
    let mut last_flush = Instant::now();
    for case in cases {
        if let Some(r) = a.resume_after {
            if case <= r {
                continue;
            }
        }
        if a.only_case.is_none() && last_flush.elapsed() > Duration::from_millis(1500) {
            let _ = std::fs::write(&a.out, serde_json::to_string(&ctx_to_json(&cx)).unwrap());
            last_flush = Instant::now();
        }
        if a.only_case.is_none() && process_cpu_ns().saturating_sub(start_cpu) > budget_ns {
            cx.count("stopped_by_budget");
            break;
        }
        if a.only_case.is_none() {
            let _ = std::fs::write(&cur_path, format!("{case}"));
        }
        cx.case = case;
        cx.evaluations += 1;
        CASE_CPU_START_NS.store(process_cpu_ns(), std::sync::atomic::Ordering::Relaxed);
        let mut rng = Rng::for_case(a.seed, check.id(), case);
        let r = {
            let cxr = &mut cx;
            catch(move || check.run_case(cxr, case, &mut rng))
        };
        if let Err(p) = r {
            if check.panic_is_violation() {
                let sig = check.panic_sig_of(&p);
                cx.violation(&sig, format!("panic escaped: {p}"), json!({"panic": p}));
            } else {
                cx.count("aborted_by_panic");
                if cx.escaped_panics.len() < 10 {
                    cx.escaped_panics.push((case, p.clone()));
                }
                if a.verbose {
                    eprintln!("[escaped panic] case {case}: {p}");
                }
            }
        }
    }
    CASE_CPU_START_NS.store(u64::MAX, std::sync::atomic::Ordering::Relaxed);
    let _ = std::fs::remove_file(&cur_path);
    cx
}

pub fn ctx_to_json(cx: &Ctx) -> J {
    json!({
        "evaluations": cx.evaluations,
        "counters": cx.counters,
        "distinct": cx.distinct.iter().collect::<Vec<_>>(),
        "samples": cx.samples,
        "violations": cx.violations.iter().map(|v| json!({"sig": v.sig, "what": v.what, "case": v.case, "detail": v.detail})).collect::<Vec<_>>(),
        "escaped_panics": cx.escaped_panics.iter().map(|(c,p)| json!({"case": c, "panic": p})).collect::<Vec<_>>(),
    })
}

// ---------------------------------------------------------------------------
// Coordinator
// ---------------------------------------------------------------------------
pub struct RunArgs {
    pub tier: Tier,
    pub seed: u64,
    pub workers: u64,
    pub budget_s: Option<u64>,
}

fn env_u64(k: &str) -> Option<u64> {
    std::env::var(k).ok().and_then(|s| s.parse().ok())
}

pub fn coordinator(check: &dyn Check, a: &RunArgs) -> i32 {
    let id = check.id();
    let t0 = Instant::now();
    let work = out_dir().join("work").join(id);
    let _ = std::fs::remove_dir_all(&work);
    std::fs::create_dir_all(&work).unwrap();
    let replay_dir = out_dir().join("replay").join(id);
    let _ = std::fs::remove_dir_all(&replay_dir);
    std::fs::create_dir_all(&replay_dir).unwrap();
    let exe = std::env::current_exe().unwrap();
    let budget = a
        .budget_s
        .or_else(|| env_u64("VERIF_BUDGET_S"))
        .unwrap_or_else(|| check.budget_s(a.tier));
    let total = check.cases(a.tier);
    let workers = a.workers.min(total.max(1));
    let spawn = |i: u64, attempt: u32, resume_after: Option<u64>| {
        let out = work.join(format!("shard{i}.a{attempt}.json"));
        // a respawned shard only gets what is left of the budget
        let budget = if attempt > 0 { budget.saturating_sub(t0.elapsed().as_secs()).max(1) } else { budget };
        let mut cmd = std::process::Command::new(&exe);
        cmd.arg("worker")
            .arg(id)
            .arg("--tier")
            .arg(a.tier.name())
            .arg("--seed")
            .arg(a.seed.to_string())
            .arg("--shard")
            .arg(i.to_string())
            .arg("--of")
            .arg(workers.to_string())
            .arg("--budget")
            .arg(budget.to_string())
            .arg("--out")
            .arg(&out);
        if let Some(r) = resume_after {
            cmd.arg("--resume-after").arg(r.to_string());
        }
        let child = cmd
            .stdout(std::process::Stdio::null())
            .stderr(std::process::Stdio::from(
                std::fs::File::create(work.join(format!("shard{i}.a{attempt}.stderr"))).unwrap(),
            ))
            .spawn()
            .expect("spawn worker");
        (i, attempt, out, child)
    };
    let mut active = vec![];
    for i in 0..workers {
        active.push(spawn(i, 0, None));
    }
    // watchdog: generous (budget*6 + 300 s); firing = inconclusive
    let deadline = Instant::now() + Duration::from_secs(budget * 20 + 900);
    let mut merged_counters: BTreeMap<String, u64> = BTreeMap::new();
    let mut distinct: HashSet<u64> = HashSet::new();
    let mut samples: Vec<J> = vec![];
    let mut violations: Vec<Violation> = vec![];
    let mut escaped: Vec<J> = vec![];
    let mut evaluations = 0u64;
    let mut inconclusive: Vec<String> = vec![];
    let mut crashes: Vec<(u64, String)> = vec![];
    let mut outs: Vec<PathBuf> = vec![];
    while !active.is_empty() {
        let mut still = vec![];
        let mut respawn = vec![];
        for (i, attempt, out, mut child) in active {
            let status = match child.try_wait() {
                Ok(Some(s)) => Some(Some(s)),
                Ok(None) => {
                    if Instant::now() > deadline {
                        let _ = child.kill();
                        let _ = child.wait();
                        Some(None)
                    } else {
                        None
                    }
                }
                Err(_) => Some(None),
            };
            let Some(status) = status else {
                still.push((i, attempt, out, child));
                continue;
            };
            let cur = std::fs::read_to_string(out.with_extension("cur")).ok();
            outs.push(out.clone());
            match status {
                None => inconclusive.push(format!(
                    "worker {i} exceeded the wall-clock watchdog (case {:?})",
                    cur
                )),
                Some(s) if !s.success() => {
                    let case = cur.and_then(|c| c.trim().parse::<u64>().ok());
                    let tail = std::fs::read_to_string(work.join(format!("shard{i}.a{attempt}.stderr")))
                        .unwrap_or_default();
                    let tail: String = tail
                        .lines()
                        .rev()
                        .take(12)
                        .collect::<Vec<_>>()
                        .into_iter()
                        .rev()
                        .collect::<Vec<_>>()
                        .join("\n");
                    let lastpanic = std::fs::read_to_string(out.with_extension("lastpanic")).ok();
                    let _ = std::fs::remove_file(out.with_extension("lastpanic"));
                    let tail = match &lastpanic {
                        Some(p) => {
                            // newest last; skip the runtime's own abort message
                            let pick = p.lines().rev().find(|l| !l.trim().is_empty() && !l.contains("panicking.rs")).unwrap_or("");
                            format!("last panic before death: {pick}\n{tail}")
                        }
                        None => tail,
                    };
                    match case {
                        Some(c) => {
                            crashes.push((c, format!("worker {i} died with {s} while running case {c}; stderr tail:\n{tail}")));
                            if attempt < 60 {
                                respawn.push((i, attempt + 1, c));
                            } else {
                                inconclusive.push(format!("shard {i} crashed more than 60 times; rest of the shard not run"));
                            }
                        }
                        None => inconclusive.push(format!("worker {i} died with {s} outside any case; stderr tail:\n{tail}")),
                    }
                }
                Some(_) => {}
            }
        }
        active = still;
        for (i, attempt, c) in respawn {
            active.push(spawn(i, attempt, Some(c)));
        }
        if !active.is_empty() {
            std::thread::sleep(Duration::from_millis(15));
        }
    }
    for out in outs {
        if let Ok(txt) = std::fs::read_to_string(&out) {
            if let Ok(v) = serde_json::from_str::<J>(&txt) {
                evaluations += v["evaluations"].as_u64().unwrap_or(0);
                if let Some(m) = v["counters"].as_object() {
                    for (k, n) in m {
                        let n = n.as_u64().unwrap_or(0);
                        if k.starts_with("max_") {
                            let e = merged_counters.entry(k.clone()).or_insert(0);
                            if n > *e {
                                *e = n;
                            }
                        } else {
                            *merged_counters.entry(k.clone()).or_insert(0) += n;
                        }
                    }
                }
                if let Some(d) = v["distinct"].as_array() {
                    for x in d {
                        if let Some(x) = x.as_u64() {
                            distinct.insert(x);
                        }
                    }
                }
                if let Some(s) = v["samples"].as_array() {
                    for x in s {
                        if samples.len() < 4 {
                            samples.push(x.clone());
                        }
                    }
                }
                if let Some(vs) = v["violations"].as_array() {
                    for x in vs {
                        violations.push(Violation {
                            sig: x["sig"].as_str().unwrap_or("").to_string(),
                            what: x["what"].as_str().unwrap_or("").to_string(),
                            case: x["case"].as_u64().unwrap_or(0),
                            detail: x["detail"].clone(),
                        });
                    }
                }
                if let Some(es) = v["escaped_panics"].as_array() {
                    for x in es {
                        if escaped.len() < 10 {
                            escaped.push(x.clone());
                        }
                    }
                }
            }
        }
    }
    // crashes of a worker process
    for (case, what) in crashes {
        let alloc_cap = what.contains("amv-alloc-cap:");
        let cpu_cap = what.contains("amv-cpu-cap:");
        let alloc_fail = what.contains("memory allocation of") || cpu_cap;
        if check.panic_is_violation() || ((alloc_cap || alloc_fail) && check.alloc_death_is_violation()) {
            let sig = if alloc_cap {
                let site = what.split("site=").nth(1).and_then(|r| r.lines().next()).unwrap_or("?").trim().to_string();
                format!("crash|worker-died|single-allocation-request>=1GiB|{site}")
            } else if cpu_cap {
                "crash|worker-died|cpu-limit-per-case-exceeded".to_string()
            } else if alloc_fail {
                "crash|worker-died|allocation-failed-under-RLIMIT_AS".to_string()
            } else {
                match what.split("last panic before death: ").nth(1) {
                    Some(rest) => format!("crash|worker-died|{}", check.panic_sig_of(rest.lines().next().unwrap_or(""))),
                    None => "crash|worker-died".to_string(),
                }
            };
            violations.push(Violation { sig, what, case, detail: J::Null });
        } else {
            // not this property's business (C15/C17/C37 report it): counted, and the run only goes
            // inconclusive when too many cases were lost this way
            *merged_counters.entry("aborted_by_worker_death".into()).or_insert(0) += 1;
            if escaped.len() < 10 {
                escaped.push(json!({"case": case, "worker_death": first_line(&what)}));
            }
        }
    }
    // known findings
    let known = load_known();
    let mut reported: Vec<Violation> = vec![];
    let mut known_hit: BTreeMap<String, (String, u64)> = BTreeMap::new();
    for v in violations {
        if let Some(k) = known
            .iter()
            .find(|k| k.status == "known" && k.property == id && sig_matches(&k.sig, &v.sig))
        {
            let e = known_hit
                .entry(k.sig.clone())
                .or_insert((k.what.clone(), 0));
            e.1 += 1;
        } else {
            reported.push(v);
        }
    }
    for (sig, (what, n)) in &known_hit {
        println!("KNOWN-FINDING: property={id} {what} [sig={sig}; seen {n}x this run]");
    }
    let mut replay_paths = vec![];
    let mut seen_sig: BTreeSet<String> = BTreeSet::new();
    for v in &reported {
        let first = seen_sig.insert(v.sig.clone());
        let path = replay_dir.join(format!("{}-{}-{}.json", a.seed, a.tier.name(), v.case));
        let body = json!({
            "property": id, "tier": a.tier.name(), "seed": a.seed, "case": v.case,
            "sig": v.sig, "what": v.what, "detail": v.detail,
        });
        let _ = std::fs::write(&path, serde_json::to_string_pretty(&body).unwrap());
        if first {
            println!("VIOLATION property={id} replay={}", path.display());
            println!("  sig={} :: {}", v.sig, first_line(&v.what));
            replay_paths.push(path);
        }
    }
    let aborted = merged_counters.get("aborted_by_panic").copied().unwrap_or(0) + merged_counters.get("aborted_by_worker_death").copied().unwrap_or(0);
    if evaluations > 0 && aborted * 100 > evaluations * check.max_aborted_pct() {
        inconclusive.push(format!(
            "{aborted} of {evaluations} cases were aborted by a panic of the code under test (reported by C37): {}",
            escaped.first().map(|e| e.to_string()).unwrap_or_default()
        ));
    }
    let nontrivial = distinct.len() as u64;
    if nontrivial < check.min_nontrivial(a.tier) && reported.is_empty() {
        inconclusive.push(format!(
            "only {nontrivial} distinct non-trivial cases observed (minimum {})",
            check.min_nontrivial(a.tier)
        ));
    }
    for k in check.required_counters() {
        if merged_counters.get(k).copied().unwrap_or(0) == 0 && reported.is_empty() {
            inconclusive.push(format!("required observation `{k}` never happened"));
        }
    }
    let wall = t0.elapsed().as_secs_f64();
    // evidence
    let mut coverage = Map::new();
    coverage.insert("evaluations".into(), json!(evaluations));
    coverage.insert("distinct_nontrivial".into(), json!(nontrivial));
    coverage.insert("rule".into(), json!(check.rule()));
    if samples.is_empty() {
        samples.push(json!("(no sample recorded)"));
    }
    coverage.insert("samples".into(), J::Array(samples));
    coverage.insert("exhaustive".into(), json!(check.exhaustive()));
    coverage.insert("planned_cases".into(), json!(total));
    coverage.insert("workers".into(), json!(workers));
    coverage.insert("observed".into(), json!(merged_counters));
    coverage.insert("escaped_panics".into(), J::Array(escaped));
    coverage.insert(
        "known_findings_hit".into(),
        json!(known_hit.iter().map(|(k, v)| (k.clone(), v.1)).collect::<BTreeMap<_, _>>()),
    );
    coverage.insert("inconclusive_reasons".into(), json!(inconclusive));
    let verdict = if !reported.is_empty() {
        "violated"
    } else if !inconclusive.is_empty() {
        "inconclusive"
    } else {
        "held_on_observed"
    };
    coverage.insert("verdict".into(), json!(verdict));
    let mut assumptions = check.assumptions();
    if let Ok(n) = std::env::var("VERIF_EXTRA_NOTE") {
        if !n.is_empty() {
            assumptions.push(format!("extra build flavours run before this one in the thorough tier — {n}"));
        }
    }
    let ev = json!({
        "property_id": id,
        "tier": a.tier.name(),
        "seed": a.seed,
        "level": check.level(),
        "coverage": coverage,
        "assumptions": assumptions,
        "wall_s": wall,
        "violations": reported.len(),
    });
    // VERIF_EVIDENCE_DIR redirects the evidence file (used when running against a seeded change, so
    // that the committed evidence always describes the unchanged tree)
    let evdir = std::env::var_os("VERIF_EVIDENCE_DIR").map(PathBuf::from).unwrap_or_else(|| Path::new(VERIF_ROOT).join("evidence"));
    let _ = std::fs::create_dir_all(&evdir);
    let mut f = std::fs::File::create(evdir.join(format!("{id}.json"))).unwrap();
    f.write_all(serde_json::to_string_pretty(&ev).unwrap().as_bytes())
        .unwrap();
    println!(
        "{id} {}: verdict={verdict} evaluations={evaluations} distinct_nontrivial={nontrivial} wall={wall:.1}s seed={}",
        a.tier.name(),
        a.seed
    );
    let mut keys: Vec<_> = merged_counters.iter().collect();
    keys.sort();
    let line: Vec<String> = keys.iter().map(|(k, v)| format!("{k}={v}")).collect();
    println!("  observed: {}", line.join(" "));
    if !reported.is_empty() {
        1
    } else if !inconclusive.is_empty() {
        for r in &inconclusive {
            println!("INCONCLUSIVE property={id} {}", first_line(r));
        }
        2
    } else {
        0
    }
}

fn first_line(s: &str) -> String {
    let l = s.lines().next().unwrap_or("");
    if l.len() > 300 {
        format!("{}…", &l[..l.char_indices().take_while(|(i, _)| *i < 300).last().map(|(i, _)| i).unwrap_or(0)])
    } else {
        l.to_string()
    }
}

pub fn replay(check: &dyn Check, path: &Path) -> i32 {
    let txt = std::fs::read_to_string(path).expect("read replay file");
    let v: J = serde_json::from_str(&txt).expect("parse replay file");
    let tier = Tier::parse(v["tier"].as_str().unwrap_or("quick"));
    let seed = v["seed"].as_u64().unwrap_or(1);
    let case = v["case"].as_u64().unwrap_or(0);
    set_quiet_panics(false);
    limit_address_space(6);
    crate::res::enable_cap(true);
    let a = WorkerArgs {
        tier,
        seed,
        shard: 0,
        of: 1,
        out: out_dir().join("replay.tmp"),
        budget_s: 3600,
        only_case: Some(case),
        verbose: true,
        resume_after: None,
    };
    let cx = run_worker(check, &a);
    println!(
        "replayed {} case {case} seed {seed}: {} violation(s), {} escaped panic(s)",
        check.id(),
        cx.violations.len(),
        cx.escaped_panics.len()
    );
    for v in &cx.violations {
        println!("  {} :: {}", v.sig, v.what);
    }
    if cx.violations.is_empty() {
        0
    } else {
        1
    }
}
