//! OBS — canonical observation of a document through the public read API only.
//!
//! `observe` walks from ROOT and produces (a) a *core* snapshot: a plain JSON
//! tree with every multi-value register (all conflicting values tagged with
//! replica-independent op ids), list/text order, text content and per-position
//! marks; this is what "observably equal" means everywhere, and it is the shape
//! REF produces; and (b) a list of *read-consistency errors*: disagreements
//! between different read calls on the same document (get vs get_all, keys vs
//! map_range, length vs list_range, text vs spans, marks vs get_marks …).
use automerge::iter::Span;
use automerge::marks::MarkSet;
use automerge::{
    hydrate, ChangeHash, ObjId, ObjType, Prop, ReadDoc, ScalarValue, TextEncoding, Value, ROOT,
};
use serde_json::{json, Map, Value as J};
use unicode_segmentation::UnicodeSegmentation;

pub fn enc_width(enc: TextEncoding, s: &str) -> usize {
    match enc {
        TextEncoding::UnicodeCodePoint => s.chars().count(),
        TextEncoding::Utf8CodeUnit => s.len(),
        TextEncoding::Utf16CodeUnit => s.encode_utf16().count(),
        TextEncoding::GraphemeCluster => s.graphemes(true).count(),
    }
}

pub fn enc_name(enc: TextEncoding) -> &'static str {
    match enc {
        TextEncoding::UnicodeCodePoint => "codepoint",
        TextEncoding::Utf8CodeUnit => "utf8",
        TextEncoding::Utf16CodeUnit => "utf16",
        TextEncoding::GraphemeCluster => "grapheme",
    }
}

pub const ENCODINGS: [TextEncoding; 4] = [
    TextEncoding::UnicodeCodePoint,
    TextEncoding::Utf8CodeUnit,
    TextEncoding::Utf16CodeUnit,
    TextEncoding::GraphemeCluster,
];

pub fn exid_str(id: &ObjId) -> String {
    match id {
        ObjId::Root => "_root".to_string(),
        ObjId::Id(c, a, _) => format!("{}@{}", c, hex::encode(a.to_bytes())),
    }
}

pub fn scalar_repr(s: &ScalarValue) -> J {
    match s {
        ScalarValue::Bytes(b) => json!({"bytes": hex::encode(b)}),
        ScalarValue::Str(s) => json!({"str": s.as_str()}),
        ScalarValue::Int(i) => json!({"int": i}),
        ScalarValue::Uint(u) => json!({"uint": u}),
        ScalarValue::F64(f) => json!({"f64": format!("{:#018x}", f.to_bits())}),
        ScalarValue::Counter(c) => json!({"counter": i64::from(c)}),
        ScalarValue::Timestamp(t) => json!({"ts": t}),
        ScalarValue::Boolean(b) => json!({"bool": b}),
        ScalarValue::Unknown { type_code, bytes } => {
            json!({"unknown": format!("{type_code}:{}", hex::encode(bytes))})
        }
        ScalarValue::Null => json!({"null": null}),
    }
}

pub fn value_repr(v: &Value<'_>) -> J {
    match v {
        Value::Object(t) => json!({"objtype": objtype_name(*t)}),
        Value::Scalar(s) => scalar_repr(s.as_ref()),
    }
}

pub fn objtype_name(t: ObjType) -> &'static str {
    match t {
        ObjType::Map => "map",
        ObjType::List => "list",
        ObjType::Text => "text",
        ObjType::Table => "table",
    }
}

pub struct Obs {
    pub snap: J,
    /// read-consistency errors; those starting with "[marks]" are disagreements
    /// between marks(), spans() and get_marks() (C25's business)
    pub errors: Vec<String>,
    pub objects: Vec<(ObjId, ObjType)>,
    pub stats: ObsStats,
}

#[derive(Default, Clone, Debug)]
pub struct ObsStats {
    pub conflicts: u64,
    pub objects: u64,
    pub text_objs: u64,
    pub marks: u64,
    pub counters: u64,
    pub list_elems: u64,
    pub multi_unit_chars: u64,
    pub blocks: u64,
}

struct Walker<'a, D: ReadDoc> {
    d: &'a D,
    h: Option<&'a [ChangeHash]>,
    errors: Vec<String>,
    objects: Vec<(ObjId, ObjType)>,
    stats: ObsStats,
    deep_checks: bool,
    depth: usize,
}

impl<'a, D: ReadDoc> Walker<'a, D> {
    fn err(&mut self, s: String) {
        if self.errors.len() < 20 {
            self.errors.push(s);
        }
    }
    fn get_all(&mut self, obj: &ObjId, prop: Prop) -> Vec<(Value<'a>, ObjId)> {
        let r = match self.h {
            Some(h) => self.d.get_all_at(obj, prop.clone(), h),
            None => self.d.get_all(obj, prop.clone()),
        };
        match r {
            Ok(v) => v,
            Err(e) => {
                self.err(format!("get_all({}, {prop:?}) failed: {e}", exid_str(obj)));
                vec![]
            }
        }
    }
    fn get(&mut self, obj: &ObjId, prop: Prop) -> Option<(Value<'a>, ObjId)> {
        let r = match self.h {
            Some(h) => self.d.get_at(obj, prop.clone(), h),
            None => self.d.get(obj, prop.clone()),
        };
        match r {
            Ok(v) => v,
            Err(e) => {
                self.err(format!("get({}, {prop:?}) failed: {e}", exid_str(obj)));
                None
            }
        }
    }
    fn length(&self, obj: &ObjId) -> usize {
        match self.h {
            Some(h) => self.d.length_at(obj, h),
            None => self.d.length(obj),
        }
    }

    fn entries(&mut self, obj: &ObjId, prop: Prop, vals: Vec<(Value<'a>, ObjId)>) -> J {
        // get must be the last of get_all
        let g = self.get(obj, prop.clone());
        match (&g, vals.last()) {
            (Some((gv, gid)), Some((lv, lid))) => {
                if gid != lid || value_repr(gv) != value_repr(lv) {
                    self.err(format!(
                        "get({}, {prop:?}) = {} differs from the last of get_all = {}",
                        exid_str(obj),
                        exid_str(gid),
                        exid_str(lid)
                    ));
                }
            }
            (None, None) => {}
            (a, b) => self.err(format!(
                "get({}, {prop:?}) present={} but get_all has {} values",
                exid_str(obj),
                a.is_some(),
                if b.is_some() { vals.len() } else { 0 }
            )),
        }
        if vals.len() > 1 {
            self.stats.conflicts += 1;
        }
        let mut out = vec![];
        let mut last: Option<(u64, Vec<u8>)> = None;
        for (v, id) in vals {
            // get_all is documented/observed to be in ascending op id order
            if let ObjId::Id(c, a, _) = &id {
                let k = (*c, a.to_bytes().to_vec());
                if let Some(l) = &last {
                    if *l >= k {
                        self.err(format!(
                            "get_all({}, {prop:?}) is not in ascending op-id order",
                            exid_str(obj)
                        ));
                    }
                }
                last = Some(k);
            }
            match v {
                Value::Scalar(s) => {
                    if matches!(s.as_ref(), ScalarValue::Counter(_)) {
                        self.stats.counters += 1;
                    }
                    out.push(json!({"id": exid_str(&id), "v": scalar_repr(s.as_ref())}));
                }
                Value::Object(t) => {
                    let o = self.object(&id, t);
                    out.push(json!({"id": exid_str(&id), "o": o}));
                }
            }
        }
        J::Array(out)
    }

    fn object(&mut self, obj: &ObjId, typ: ObjType) -> J {
        self.stats.objects += 1;
        self.objects.push((obj.clone(), typ));
        self.depth += 1;
        if self.depth > 64 {
            self.depth -= 1;
            return json!({"type": objtype_name(typ), "id": exid_str(obj), "too_deep": true});
        }
        match self.d.object_type(obj) {
            Ok(t) if t == typ => {}
            Ok(t) => self.err(format!(
                "object_type({}) = {t:?} but the value that holds it says {typ:?}",
                exid_str(obj)
            )),
            Err(e) => self.err(format!("object_type({}) failed: {e}", exid_str(obj))),
        }
        let mut m = Map::new();
        m.insert("type".into(), json!(objtype_name(typ)));
        m.insert("id".into(), json!(exid_str(obj)));
        match typ {
            ObjType::Map | ObjType::Table => {
                let keys: Vec<String> = match self.h {
                    Some(h) => self.d.keys_at(obj, h).collect(),
                    None => self.d.keys(obj).collect(),
                };
                let len = self.length(obj);
                if len != keys.len() {
                    self.err(format!(
                        "length({}) = {len} but keys() yields {}",
                        exid_str(obj),
                        keys.len()
                    ));
                }
                let mut sorted = keys.clone();
                sorted.sort();
                sorted.dedup();
                if sorted != keys {
                    self.err(format!("keys({}) not sorted/unique: {keys:?}", exid_str(obj)));
                }
                let mut mm = Map::new();
                for k in &keys {
                    if std::str::from_utf8(k.as_bytes()).is_err() {
                        self.err(format!("key of {} is not valid UTF-8", exid_str(obj)));
                    }
                    let vals = self.get_all(obj, Prop::Map(k.clone()));
                    if vals.is_empty() {
                        self.err(format!("keys({}) lists {k:?} but get_all is empty", exid_str(obj)));
                    }
                    let e = self.entries(obj, Prop::Map(k.clone()), vals);
                    mm.insert(k.clone(), e);
                }
                if self.deep_checks {
                    self.check_map_range(obj, &keys, &mm);
                }
                m.insert("map".into(), J::Object(mm));
            }
            ObjType::List => {
                let len = self.length(obj);
                let mut seq = vec![];
                for i in 0..len {
                    let vals = self.get_all(obj, Prop::Seq(i));
                    if vals.is_empty() {
                        self.err(format!("length({}) = {len} but get_all({i}) is empty", exid_str(obj)));
                    }
                    self.stats.list_elems += 1;
                    seq.push(self.entries(obj, Prop::Seq(i), vals));
                }
                // one past the end must be empty
                let past = self.get_all(obj, Prop::Seq(len));
                if !past.is_empty() {
                    self.err(format!("get_all({}, {len}) beyond length {len} returns values", exid_str(obj)));
                }
                if self.deep_checks {
                    self.check_list_range(obj, &seq, false);
                }
                m.insert("seq".into(), J::Array(seq));
            }
            ObjType::Text => {
                self.stats.text_objs += 1;
                self.text_object(obj, &mut m);
            }
        }
        self.depth -= 1;
        J::Object(m)
    }

    fn check_map_range(&mut self, obj: &ObjId, keys: &[String], mm: &Map<String, J>) {
        let items: Vec<(String, J, bool, String)> = {
            let it = match self.h {
                Some(h) => self.d.map_range_at(obj, .., h),
                None => self.d.map_range(obj, ..),
            };
            it.map(|i| {
                let v = match &i.value {
                    automerge::ValueRef::Object(t) => json!({"objtype": objtype_name(*t)}),
                    automerge::ValueRef::Scalar(s) => scalar_repr(&s.to_owned().into()),
                };
                (i.key.to_string(), v, i.conflict, exid_str(&i.id()))
            })
            .collect()
        };
        let rk: Vec<&String> = items.iter().map(|i| &i.0).collect();
        if rk != keys.iter().collect::<Vec<_>>() {
            self.err(format!("map_range({}) keys {rk:?} differ from keys() {keys:?}", exid_str(obj)));
            return;
        }
        for (k, v, conflict, id) in &items {
            if let Some(J::Array(es)) = mm.get(k) {
                if let Some(w) = es.last() {
                    if w["id"].as_str() != Some(id) {
                        self.err(format!("map_range({}) item {k:?} id {id} is not the winner {}", exid_str(obj), w["id"]));
                    }
                    if let Some(sv) = w.get("v") {
                        if sv != v {
                            self.err(format!("map_range({}) item {k:?} value {v} differs from get {sv}", exid_str(obj)));
                        }
                    }
                    if *conflict != (es.len() > 1) {
                        self.err(format!("map_range({}) item {k:?} conflict flag {conflict} but get_all has {} values", exid_str(obj), es.len()));
                    }
                }
            }
        }
    }

    /// list_range must yield, per element, the winner of get_all with the right index and conflict flag
    fn check_list_range(&mut self, obj: &ObjId, seq: &[J], is_text: bool) {
        let items: Vec<(usize, J, bool, String)> = {
            let it = match self.h {
                Some(h) => self.d.list_range_at(obj, .., h),
                None => self.d.list_range(obj, ..),
            };
            it.map(|i| {
                let v = match &i.value {
                    automerge::ValueRef::Object(t) => json!({"objtype": objtype_name(*t)}),
                    automerge::ValueRef::Scalar(s) => scalar_repr(&s.to_owned().into()),
                };
                (i.index, v, i.conflict, exid_str(&i.id()))
            })
            .collect()
        };
        if is_text {
            return;
        }
        if items.len() != seq.len() {
            self.err(format!("list_range({}) yields {} items, length is {}", exid_str(obj), items.len(), seq.len()));
            return;
        }
        for (n, (idx, v, conflict, id)) in items.iter().enumerate() {
            if *idx != n {
                self.err(format!("list_range({}) item {n} has index {idx}", exid_str(obj)));
            }
            if let J::Array(es) = &seq[n] {
                if let Some(w) = es.last() {
                    if w["id"].as_str() != Some(id) {
                        self.err(format!("list_range({}) item {n} id {id} is not the winner {}", exid_str(obj), w["id"]));
                    }
                    if let Some(sv) = w.get("v") {
                        if sv != v {
                            self.err(format!("list_range({}) item {n} value {v} differs from get {sv}", exid_str(obj)));
                        }
                    }
                    if *conflict != (es.len() > 1) {
                        self.err(format!("list_range({}) item {n} conflict flag {conflict} but get_all has {} values", exid_str(obj), es.len()));
                    }
                }
            }
        }
    }

    fn text_object(&mut self, obj: &ObjId, m: &mut Map<String, J>) {
        let enc = self.d.text_encoding();
        let text = match self.h {
            Some(h) => self.d.text_at(obj, h),
            None => self.d.text(obj),
        };
        let text = match text {
            Ok(t) => t,
            Err(e) => {
                self.err(format!("text({}) failed: {e}", exid_str(obj)));
                String::new()
            }
        };
        let len = self.length(obj);
        m.insert("text".into(), json!(text));
        m.insert("len".into(), json!(len));
        // elements: step through the text by index, one element at a time, using
        // get_all only (list_range on a text object uses list numbering and also
        // yields mark anchors, so it is not used here).
        let mut seq = vec![];
        let mut expect_index = 0usize;
        let mut concat = String::new();
        let mut guard = 0usize;
        while expect_index < len && guard <= len {
            guard += 1;
            let idx = expect_index;
            let vals = self.get_all(obj, Prop::Seq(idx));
            if vals.is_empty() {
                self.err(format!("text {}: index {idx} < length {len} but get_all is empty", exid_str(obj)));
                break;
            }
            let piece = match &vals.last().unwrap().0 {
                Value::Scalar(s) => match s.as_ref() {
                    ScalarValue::Str(s) => s.to_string(),
                    _ => "\u{fffc}".to_string(),
                },
                Value::Object(_) => {
                    self.stats.blocks += 1;
                    "\u{fffc}".to_string()
                }
            };
            let w = enc_width(enc, &piece);
            if w > 1 {
                self.stats.multi_unit_chars += 1;
            }
            if w == 0 {
                self.err(format!("text {}: element at index {idx} has zero width", exid_str(obj)));
                break;
            }
            let e = self.entries(obj, Prop::Seq(idx), vals);
            seq.push(json!({"at": idx, "vals": e}));
            expect_index += w;
            concat.push_str(&piece);
        }
        if expect_index != len {
            self.err(format!(
                "text {}: length() = {len} but the widths of the elements sum to {expect_index}",
                exid_str(obj)
            ));
        }
        if concat != text {
            self.err(format!(
                "text {}: text() = {text:?} but the elements concatenate to {concat:?}",
                exid_str(obj)
            ));
        }
        m.insert("seq".into(), J::Array(seq));
        // marks
        let marks = match self.h {
            Some(h) => self.d.marks_at(obj, h),
            None => self.d.marks(obj),
        };
        let mut per_pos: Vec<Map<String, J>> = vec![Map::new(); len];
        match marks {
            Ok(ms) => {
                for mk in &ms {
                    self.stats.marks += 1;
                    if mk.start >= mk.end {
                        self.err(format!("text {}: mark {:?} has start {} >= end {}", exid_str(obj), mk.name(), mk.start, mk.end));
                    }
                    if mk.end > len {
                        self.err(format!("text {}: mark {:?} ends at {} beyond length {len}", exid_str(obj), mk.name(), mk.end));
                    }
                    for p in mk.start..mk.end.min(len) {
                        if per_pos[p].insert(mk.name().to_string(), scalar_repr(mk.value())).is_some() {
                            self.err(format!("text {}: marks() reports two marks named {:?} over position {p}", exid_str(obj), mk.name()));
                        }
                    }
                }
            }
            Err(e) => self.err(format!("marks({}) failed: {e}", exid_str(obj))),
        }
        m.insert("marks".into(), canon_marks(&per_pos));
        if self.deep_checks {
            self.check_text_reads(obj, enc, &text, len, &per_pos);
        }
    }

    fn check_text_reads(&mut self, obj: &ObjId, enc: TextEncoding, text: &str, len: usize, per_pos: &[Map<String, J>]) {
        // spans: concatenation equals the text (blocks as U+FFFC), span marks equal marks()
        let spans = match self.h {
            Some(h) => self.d.spans_at(obj, h),
            None => self.d.spans(obj),
        };
        match spans {
            Ok(sp) => {
                let mut cat = String::new();
                let mut pos = 0usize;
                for s in sp {
                    match s {
                        Span::Text { text: t, marks } => {
                            let w = enc_width(enc, &t);
                            let ms = markset_json(marks.as_deref());
                            for p in pos..(pos + w).min(len) {
                                if per_pos[p] != ms {
                                    self.err(format!(
                                        "[marks] text {}: spans() marks {} at position {p} differ from marks() {}",
                                        exid_str(obj),
                                        J::Object(ms.clone()),
                                        J::Object(per_pos[p].clone())
                                    ));
                                    break;
                                }
                            }
                            pos += w;
                            cat.push_str(&t);
                        }
                        Span::Block(_) => {
                            pos += enc_width(enc, "\u{fffc}");
                            cat.push('\u{fffc}');
                        }
                    }
                }
                if cat != text {
                    self.err(format!("text {}: spans concatenate to {cat:?}, text() is {text:?}", exid_str(obj)));
                }
            }
            Err(e) => self.err(format!("spans({}) failed: {e}", exid_str(obj))),
        }
        // get_marks(i) at a sample of positions equals marks()
        let step = (len / 24).max(1);
        let mut p = 0;
        while p < len {
            match self.d.get_marks(obj, p, self.h) {
                Ok(ms) => {
                    let mj = markset_json(Some(&ms));
                    if mj != per_pos[p] {
                        self.err(format!(
                            "[marks] text {}: get_marks({p}) = {} but marks() covers it with {}",
                            exid_str(obj),
                            J::Object(mj),
                            J::Object(per_pos[p].clone())
                        ));
                        break;
                    }
                }
                Err(e) => {
                    self.err(format!("get_marks({}, {p}) failed: {e}", exid_str(obj)));
                    break;
                }
            }
            p += step;
        }
        let w = enc_width(enc, text);
        if enc != TextEncoding::GraphemeCluster && w != len {
            self.err(format!("text {}: length() = {len} but width of text() in {} is {w}", exid_str(obj), enc_name(enc)));
        }
    }
}

/// marks() null-valued entries never appear; spans/get_marks mark sets may carry nulls: drop them
pub fn markset_json(ms: Option<&MarkSet>) -> Map<String, J> {
    let mut m = Map::new();
    if let Some(ms) = ms {
        for (k, v) in ms.iter() {
            if !matches!(v, ScalarValue::Null) {
                m.insert(k.to_string(), scalar_repr(v));
            }
        }
    }
    m
}

/// canonical mark list from per-position mark maps: [start, end, name, value] maximal runs
pub fn canon_marks(per_pos: &[Map<String, J>]) -> J {
    let mut out: Vec<(String, usize, usize, J)> = vec![];
    let mut open: std::collections::BTreeMap<String, (usize, J)> = Default::default();
    for (p, m) in per_pos.iter().enumerate() {
        // close runs that end here
        let names: Vec<String> = open.keys().cloned().collect();
        for n in names {
            let cont = m.get(&n).map(|v| *v == open[&n].1).unwrap_or(false);
            if !cont {
                let (s, v) = open.remove(&n).unwrap();
                out.push((n, s, p, v));
            }
        }
        for (n, v) in m {
            if !open.contains_key(n) {
                open.insert(n.clone(), (p, v.clone()));
            }
        }
    }
    for (n, (s, v)) in open {
        out.push((n, s, per_pos.len(), v));
    }
    out.sort_by(|a, b| (a.1, &a.0, a.2).cmp(&(b.1, &b.0, b.2)));
    J::Array(out.into_iter().map(|(n, s, e, v)| json!([s, e, n, v])).collect())
}

impl Obs {
    pub fn core_errors(&self) -> Vec<String> {
        self.errors.iter().filter(|e| !e.starts_with("[marks]")).cloned().collect()
    }
    pub fn mark_errors(&self) -> Vec<String> {
        self.errors.iter().filter(|e| e.starts_with("[marks]")).cloned().collect()
    }
}

/// remove the "marks" entries of every text object (for properties that do not cover marks)
pub fn strip_marks(j: &J) -> J {
    match j {
        J::Object(m) => {
            let mut o = Map::new();
            for (k, v) in m {
                if k == "marks" && m.get("type").and_then(|t| t.as_str()) == Some("text") {
                    continue;
                }
                o.insert(k.clone(), strip_marks(v));
            }
            J::Object(o)
        }
        J::Array(a) => J::Array(a.iter().map(strip_marks).collect()),
        x => x.clone(),
    }
}

pub fn observe<D: ReadDoc>(d: &D, heads: Option<&[ChangeHash]>) -> Obs {
    observe_opts(d, heads, true)
}

pub fn observe_opts<D: ReadDoc>(d: &D, heads: Option<&[ChangeHash]>, deep_checks: bool) -> Obs {
    let mut w = Walker {
        d,
        h: heads,
        errors: vec![],
        objects: vec![],
        stats: ObsStats::default(),
        deep_checks,
        depth: 0,
    };
    let snap = w.object(&ROOT, ObjType::Map);
    Obs {
        snap,
        errors: w.errors,
        objects: w.objects,
        stats: w.stats,
    }
}

/// observe the sub-tree rooted at an arbitrary object (e.g. one that is no longer reachable from ROOT)
pub fn observe_from<D: ReadDoc>(d: &D, heads: Option<&[ChangeHash]>, id: &ObjId, typ: ObjType) -> Obs {
    let mut w = Walker { d, h: heads, errors: vec![], objects: vec![], stats: ObsStats::default(), deep_checks: false, depth: 0 };
    let snap = w.object(id, typ);
    Obs { snap, errors: w.errors, objects: w.objects, stats: w.stats }
}

pub fn fingerprint(j: &J) -> u64 {
    crate::fw::fnv(serde_json::to_string(j).unwrap_or_default().as_bytes())
}

// ---------------------------------------------------------------------------
// winners-only view (what hydrate / serde / patches can express)
// ---------------------------------------------------------------------------

/// Reduce a core snapshot to winners: maps of key → value, lists of values, text
/// as {"text": s}; with conflict flags when `flags` is set.
pub fn winners(snap: &J, flags: bool) -> J {
    let typ = snap["type"].as_str().unwrap_or("");
    let entry = |es: &J| -> J {
        let es = es.as_array().cloned().unwrap_or_default();
        let w = es.last().cloned().unwrap_or(J::Null);
        let v = if let Some(o) = w.get("o") {
            winners(o, flags)
        } else {
            w.get("v").cloned().unwrap_or(J::Null)
        };
        if flags {
            json!({"val": v, "conflict": es.len() > 1})
        } else {
            v
        }
    };
    match typ {
        "map" | "table" => {
            let mut m = Map::new();
            if let Some(mm) = snap["map"].as_object() {
                for (k, es) in mm {
                    m.insert(k.clone(), entry(es));
                }
            }
            json!({"map": m})
        }
        "list" => {
            let v: Vec<J> = snap["seq"].as_array().map(|a| a.iter().map(&entry).collect()).unwrap_or_default();
            json!({"list": v})
        }
        "text" => json!({"text": snap["text"]}),
        _ => J::Null,
    }
}

/// hydrate::Value → the same shape as `winners(snap, flags)`
pub fn hydrate_json(v: &hydrate::Value, flags: bool) -> J {
    match v {
        hydrate::Value::Scalar(s) => scalar_repr(s),
        hydrate::Value::Map(m) => {
            let mut mm = Map::new();
            for (k, mv) in m.iter() {
                let v = hydrate_json(&mv.value, flags);
                mm.insert(k.clone(), if flags { json!({"val": v, "conflict": mv.conflict}) } else { v });
            }
            json!({"map": mm})
        }
        hydrate::Value::List(l) => {
            let v: Vec<J> = l
                .iter()
                .map(|lv| {
                    let v = hydrate_json(&lv.value, flags);
                    if flags {
                        json!({"val": v, "conflict": lv.conflict})
                    } else {
                        v
                    }
                })
                .collect();
            json!({"list": v})
        }
        hydrate::Value::Text(t) => json!({"text": t.to_string()}),
    }
}

/// first difference between two JSON trees, as a path string
pub fn first_diff(a: &J, b: &J) -> Option<String> {
    fn go(a: &J, b: &J, path: &mut Vec<String>) -> Option<String> {
        match (a, b) {
            (J::Object(x), J::Object(y)) => {
                let mut keys: Vec<&String> = x.keys().chain(y.keys()).collect();
                keys.sort();
                keys.dedup();
                for k in keys {
                    match (x.get(k), y.get(k)) {
                        (Some(u), Some(v)) => {
                            path.push(k.clone());
                            if let Some(d) = go(u, v, path) {
                                return Some(d);
                            }
                            path.pop();
                        }
                        (u, v) => {
                            return Some(format!(
                                "at /{}/{k}: left {} right {}",
                                path.join("/"),
                                u.map(|x| short(x)).unwrap_or("<absent>".into()),
                                v.map(|x| short(x)).unwrap_or("<absent>".into())
                            ))
                        }
                    }
                }
                None
            }
            (J::Array(x), J::Array(y)) => {
                for i in 0..x.len().max(y.len()) {
                    match (x.get(i), y.get(i)) {
                        (Some(u), Some(v)) => {
                            path.push(i.to_string());
                            if let Some(d) = go(u, v, path) {
                                return Some(d);
                            }
                            path.pop();
                        }
                        (u, v) => {
                            return Some(format!(
                                "at /{}/{i}: left {} right {}",
                                path.join("/"),
                                u.map(|x| short(x)).unwrap_or("<absent>".into()),
                                v.map(|x| short(x)).unwrap_or("<absent>".into())
                            ))
                        }
                    }
                }
                None
            }
            (x, y) => {
                if x == y {
                    None
                } else {
                    Some(format!("at /{}: left {} right {}", path.join("/"), short(x), short(y)))
                }
            }
        }
    }
    go(a, b, &mut vec![])
}

pub fn short(j: &J) -> String {
    let s = j.to_string();
    if s.len() > 240 {
        let mut end = 240;
        while !s.is_char_boundary(end) {
            end -= 1;
        }
        format!("{}…", &s[..end])
    } else {
        s
    }
}
