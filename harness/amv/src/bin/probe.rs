// scratch probes against the real API (no harness model in the loop)
use automerge::transaction::Transactable;
use automerge::*;

fn main() {
    std::panic::set_hook(Box::new(|_| {}));
    let bytes = std::fs::read(std::env::args().nth(1).unwrap()).unwrap();
    let mut d = AutoCommit::load(&bytes).unwrap();
    let (t, _) = d.import("1@8001aaaaaaaaaaaaaaaaaaaaaaaaaaaa").unwrap();
    println!("text={:?} len={}", d.text(&t).unwrap(), d.length(&t));
    println!("marks={:?}", d.marks(&t).unwrap());
    println!("spans={:?}", d.spans(&t).unwrap().collect::<Vec<_>>());
    for i in 0..=d.length(&t) + 1 {
        let mut c = d.clone();
        let r = std::panic::catch_unwind(std::panic::AssertUnwindSafe(|| c.splice_text(&t, i, 0, "X").map(|_| ())));
        let after = c.text(&t).unwrap();
        let mut c2 = d.clone();
        let r2 = std::panic::catch_unwind(std::panic::AssertUnwindSafe(|| c2.replace_block(&t, i).map(|_| ())));
        println!("i={i}: splice_text {:?} -> {after:?} marks {:?}; replace_block {:?}", r.map_err(|_| "PANIC"), c.marks(&t).unwrap().iter().map(|m| (m.start, m.end)).collect::<Vec<_>>(), r2.map_err(|_| "PANIC"));
    }
    let mut c = d.clone();
    c.join_block(&t, 3).unwrap();
    println!("after join_block(3): text={:?} len={} spans={:?}", c.text(&t).unwrap(), c.length(&t), c.spans(&t).unwrap().collect::<Vec<_>>());
    let mut r = AutoCommit::load(&c.save()).unwrap();
    println!("reloaded:            text={:?} len={}", r.text(&t).unwrap(), r.length(&t));
    for i in 0..=c.length(&t) {
        let mut c2 = c.clone();
        let r = std::panic::catch_unwind(std::panic::AssertUnwindSafe(|| c2.splice_text(&t, i, 0, "X").map(|_| ())));
        println!("  i={i}: {:?} -> {:?}", r.map_err(|_| "PANIC"), c2.text(&t).unwrap());
    }
}
