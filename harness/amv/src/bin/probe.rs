// scratch probes against the real API (no harness model in the loop)
use automerge::transaction::Transactable;
use automerge::*;

fn main() {
    // hypothesis: historical length of a text whose element was overwritten by put()
    let mut d = AutoCommit::new();
    let t = d.put_object(ROOT, "t", ObjType::Text).unwrap();
    d.splice_text(&t, 0, 0, "hello").unwrap();
    d.commit();
    d.put(&t, 0, "x").unwrap();
    d.commit();
    let h1 = d.get_heads();
    println!("now: text={:?} length={}", d.text(&t).unwrap(), d.length(&t));
    d.splice_text(&t, 5, 0, "!").unwrap();
    d.commit();
    println!("at h1: text_at={:?} length_at={}", d.text_at(&t, &h1).unwrap(), d.length_at(&t, &h1));
    let f = d.fork_at(&h1).unwrap();
    println!("fork_at(h1): text={:?} length={}", f.text(&t).unwrap(), f.length(&t));
    for i in 0..6 {
        println!("  get_all_at({i}) = {:?}", d.get_all_at(&t, i, &h1).unwrap().iter().map(|x| format!("{}", x.0)).collect::<Vec<_>>());
    }
    // two concurrent overwrites
    let mut a = AutoCommit::new();
    let t = a.put_object(ROOT, "t", ObjType::Text).unwrap();
    a.splice_text(&t, 0, 0, "hello").unwrap();
    a.commit();
    let mut b = a.fork();
    a.put(&t, 0, "A").unwrap();
    b.put(&t, 0, "B").unwrap();
    a.commit();
    b.commit();
    a.merge(&mut b).unwrap();
    let h = a.get_heads();
    println!("conflicted now: text={:?} length={}", a.text(&t).unwrap(), a.length(&t));
    a.splice_text(&t, 5, 0, "!").unwrap();
    a.commit();
    println!("conflicted at h: text_at={:?} length_at={}", a.text_at(&t, &h).unwrap(), a.length_at(&t, &h));
}
