// scratch probes against the real API (no harness model in the loop)
use automerge::transaction::Transactable;
use automerge::*;

fn show(ps: &[Patch]) {
    for p in ps {
        println!("    {:?} {:?}", p.path.iter().map(|x| x.1.clone()).collect::<Vec<_>>(), p.action);
    }
}

fn main() {
    let mut d = AutoCommit::new();
    let t = d.put_object(ROOT, "t", ObjType::Text).unwrap();
    d.splice_text(&t, 0, 0, "ab").unwrap();
    let b = d.split_block(&t, 1).unwrap();
    d.put(&b, "type", "p").unwrap();
    d.commit();
    let h = d.get_heads();
    println!("diff([], current heads):");
    show(&d.diff(&[], &h));
    d.put(ROOT, "later", 1).unwrap();
    d.commit();
    println!("diff([], h) with h historical:");
    show(&d.diff(&[], &h));
    let h3 = d.get_heads();
    println!("diff(h3, h) backwards:");
    show(&d.diff(&h3, &h));
    println!("Automerge::current_state():");
    show(&d.document().current_state());
    let mut pl = PatchLog::active();
    let am = Automerge::load_with_options(&d.save(), LoadOptions::new().patch_log(&mut pl)).unwrap();
    println!("load_with_options(patch_log):");
    show(&am.make_patches(&mut pl));
}
