// scratch probes against the real API (no harness model in the loop)
use automerge::transaction::{CommitOptions, Transactable};
use automerge::*;

fn main() {
    let mut base = AutoCommit::new().with_actor(ActorId::from(vec![0x80u8]));
    base.put(ROOT, "a", 1).unwrap();
    base.commit();
    let mut d = base.fork().with_actor(ActorId::from(vec![0xe0u8]));
    d.put(ROOT, "x", 1).unwrap();
    let _ = d.get_changes(&[]); // implicit commit
    d.put(ROOT, "b", 2).unwrap(); // pending
    let e = d.empty_change(CommitOptions::default().with_time(5));
    println!("empty change = {e}");
    println!("invariants: {:?}", d.verif_check_invariants());
    let heads = d.get_heads();
    println!("heads        = {heads:?}");
    for c in d.get_changes(&[]) {
        println!("  change {} seq {} ops {} deps {:?}", c.hash(), c.seq(), c.len(), c.deps());
    }
}
