// scratch probes against the real API (no harness model in the loop)
use automerge::transaction::Transactable;
use automerge::*;

fn main() {
    let mut a = AutoCommit::new().with_actor(ActorId::from(vec![1u8]));
    a.put(ROOT, "a", 1).unwrap();
    a.commit();
    let mut b = a.fork().with_actor(ActorId::from(vec![2u8]));
    a.put(ROOT, "x", 1).unwrap();
    a.commit();
    b.put(ROOT, "y", 1).unwrap();
    b.commit();
    a.merge(&mut b).unwrap();
    let bytes = a.save_nocompress();
    let l = amv::mutate::doc_layout(&bytes).unwrap();
    println!("heads {} suffix_start {} chunk end {} len {}", l.heads_count, l.suffix_start, l.chunk.end, bytes.len());
    println!("suffix bytes {:?}", &bytes[l.suffix_start..l.chunk.end]);
    println!("drop_head -> {:?}", amv::mutate::drop_head(&bytes).map(|b| AutoCommit::load(&b).map(|mut d| d.get_heads().len()).map_err(|e| e.to_string())));
}
