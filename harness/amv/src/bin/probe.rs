// scratch probes against the real API (no harness model in the loop)
use automerge::*;

fn main() {
    let a = std::fs::read("/verif/out/dump/a.bin").unwrap();
    let b = std::fs::read("/verif/out/dump/b.bin").unwrap();
    for enc in [TextEncoding::UnicodeCodePoint, TextEncoding::Utf8CodeUnit, TextEncoding::Utf16CodeUnit, TextEncoding::GraphemeCluster] {
        let mut x = AutoCommit::load_with_options(&a, LoadOptions::new().text_encoding(enc)).unwrap();
        let mut y = AutoCommit::load_with_options(&b, LoadOptions::new().text_encoding(enc)).unwrap();
        let r = std::panic::catch_unwind(std::panic::AssertUnwindSafe(|| x.merge(&mut y).map(|h| h.len())));
        println!("{enc:?}: merge a<-b: {:?}", r.map_err(|_| "PANIC"));
        let mut x = AutoCommit::load_with_options(&a, LoadOptions::new().text_encoding(enc)).unwrap();
        let mut y = AutoCommit::load_with_options(&b, LoadOptions::new().text_encoding(enc)).unwrap();
        let cs = y.get_changes(&x.get_heads());
        println!("   {} changes to apply", cs.len());
        for c in cs {
            let h = c.hash();
            let r = std::panic::catch_unwind(std::panic::AssertUnwindSafe(|| x.apply_changes([c]).is_ok()));
            println!("   apply {h}: {:?}", r.map_err(|_| "PANIC"));
        }
    }
}
