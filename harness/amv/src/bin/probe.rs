// scratch probes against the real API (no harness model in the loop)
use automerge::transaction::Transactable;
use automerge::*;

fn main() {
    // a string that exists only as a *deleted* / overwritten value, or inside a deleted object
    let mut d = AutoCommit::new();
    let m = d.put_object(ROOT, "m", ObjType::Map).unwrap();
    d.put(&m, "s", "inside").unwrap();
    d.commit();
    d.delete(ROOT, "m").unwrap(); // the map (and its string) is no longer reachable
    d.commit();
    let bytes = d.save();
    let mut plain = AutoCommit::load(&bytes).unwrap();
    let mut mig = AutoCommit::load_with_options(&bytes, LoadOptions::new().migrate_strings(StringMigration::ConvertToText)).unwrap();
    println!("plain heads {:?}", plain.get_heads());
    println!("mig   heads {:?}", mig.get_heads());
    for c in mig.get_changes(&plain.get_heads()) {
        println!("added change: {:#?}", c.decode().operations);
    }
}
