// scratch probes against the real API (no harness model in the loop)
use automerge::*;

fn main() {
    let a = std::fs::read("/verif/out/dump/viol.bin").unwrap();
    let enc = TextEncoding::UnicodeCodePoint;
    let d = AutoCommit::load_with_options(&a, LoadOptions::new().text_encoding(enc)).unwrap();
    let (_, t) = d.get(ROOT, "t").unwrap().unwrap();
    println!("text = {:?} len {}", d.text(&t).unwrap(), d.length(&t));
    println!("marks = {:?}", d.marks(&t).unwrap());
    for s in d.spans(&t).unwrap() { println!("span {s:?}"); }
    for i in 0..d.length(&t) { println!("get_marks({i}) = {:?}", d.get_marks(&t, i, None).unwrap().iter().collect::<Vec<_>>()); }
    let mut d = d;
    for c in d.get_changes(&[]) {
        let e = c.decode();
        for (i, op) in e.operations.iter().enumerate() {
            if format!("{:?}", op.obj).contains("OpId(1,") || true {
                if matches!(op.action, legacy::OpType::MarkBegin(_) | legacy::OpType::MarkEnd(_)) {
                    println!("{}@{} {:?} key={:?} insert={} ", e.start_op.get() + i as u64, &e.actor_id.to_hex_string()[..4], op.action, op.key, op.insert);
                }
            }
        }
    }
}
