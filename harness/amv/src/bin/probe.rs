// scratch probes against the real API (no harness model in the loop)
use automerge::*;

fn main() {
    let dir = std::env::args().nth(1).unwrap();
    let mut a = AutoCommit::load(&std::fs::read(format!("{dir}/a.bin")).unwrap()).unwrap();
    let mut b = AutoCommit::load(&std::fs::read(format!("{dir}/b.bin")).unwrap()).unwrap();
    let ha: std::collections::BTreeSet<_> = a.get_changes(&[]).iter().map(|c| c.hash()).collect();
    for (n, d) in [("a", &mut a), ("b", &mut b)] {
        println!("{n}: heads={:?}", d.get_heads().iter().map(|h| h.to_string()[..8].to_string()).collect::<Vec<_>>());
        for ch in d.get_changes(&[]) {
            println!("  {} actor={} seq={} start_op={} deps={:?} {}", &ch.hash().to_string()[..8], ch.actor_id(), ch.seq(), ch.start_op(), ch.deps().iter().map(|h| h.to_string()[..8].to_string()).collect::<Vec<_>>(), if n == "b" && !ha.contains(&ch.hash()) { "NEW" } else { "" });
        }
    }
    let r = std::panic::catch_unwind(std::panic::AssertUnwindSafe(|| a.merge(&mut b)));
    println!("merge: {:?}", r.map_err(|_| "PANIC"));
}
