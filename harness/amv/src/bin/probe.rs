// scratch probes against the real API (no harness model in the loop)
use automerge::*;

fn marks(d: &AutoCommit, t: &ObjId) -> Vec<String> {
    d.marks(t).map(|v| v.iter().map(|m| format!("{}..{} {}={}", m.start, m.end, m.name(), m.value())).collect()).unwrap_or_default()
}

fn main() {
    let dir = "/verif/out/dump/net";
    let mut files: Vec<String> = std::fs::read_dir(dir).unwrap().map(|e| e.unwrap().file_name().to_string_lossy().to_string()).filter(|f| f.ends_with("P1.bin")).collect();
    files.sort();
    let actor = ActorId::from(hex::decode(std::fs::read_to_string(format!("{dir}/00000-restore-P1.actor")).unwrap().trim()).unwrap());
    for enc in [TextEncoding::UnicodeCodePoint, TextEncoding::Utf8CodeUnit, TextEncoding::Utf16CodeUnit, TextEncoding::GraphemeCluster] {
        let mut d: Option<AutoCommit> = None;
        let mut bad = false;
        for f in &files {
            let bytes = std::fs::read(format!("{dir}/{f}")).unwrap();
            if f.contains("restore") {
                let mut x = AutoCommit::load_with_options(&bytes, LoadOptions::new().text_encoding(enc)).unwrap().with_actor(actor.clone());
                // a first transaction of the new actor that ends up empty (deleting a key that does not exist)
                use automerge::transaction::Transactable;
                let m = x.get(ROOT, "m").unwrap().map(|v| v.1).unwrap();
                let r = x.delete(&m, "no-such-key");
                println!("  delete of a missing key: {:?}, commit -> {:?}", r.map_err(|e| e.to_string()), x.commit());
                d = Some(x);
                continue;
            }
            let doc = d.as_mut().unwrap();
            let r = doc.load_incremental(&bytes);
            let t = doc.get(ROOT, "t").unwrap().map(|x| x.1);
            if let Some(t) = t {
                let re = AutoCommit::load_with_options(&doc.save(), LoadOptions::new().text_encoding(enc)).unwrap();
                let (a, b) = (marks(doc, &t), marks(&re, &t));
                println!("{enc:?} {f}: load_incremental {:?}; marks in memory {:?} / after reload {:?} {}", r.map_err(|e| e.to_string()), a, b, if a != b { "<<< DIFFERENT" } else { "" });
                if a != b {
                    bad = true;
                }
            }
        }
        if bad {
            break;
        }
    }
}
