// scratch probes against the real API (no harness model in the loop)
use automerge::transaction::Transactable;
use automerge::*;

fn show(d: &AutoCommit, l: &ObjId, label: &str) {
    let len = d.length(l);
    let vals: Vec<String> = (0..len + 1).map(|i| format!("{:?}", d.get_all(l, i).unwrap().iter().map(|x| x.0.to_string()).collect::<Vec<_>>())).collect();
    println!("{label}: length={len} get_all by index={vals:?} invariants={:?}", d.verif_check_invariants());
}

fn main() {
    for later in 0..4 {
        let mut d = AutoCommit::new().with_actor(ActorId::from(vec![1u8]));
        let l = d.put_object(ROOT, "l", ObjType::List).unwrap();
        for (i, v) in ["a", "b", "c"].iter().enumerate() { d.insert(&l, i, *v).unwrap(); }
        d.commit();
        let h1 = d.get_heads();
        // later changes outside the isolation heads
        match later {
            0 => {}
            1 => { d.delete(&l, 1).unwrap(); }
            2 => { d.put(&l, 1, "B").unwrap(); }
            _ => { d.insert(&l, 1, "x").unwrap(); d.delete(&l, 0).unwrap(); }
        }
        d.commit();
        d.isolate(&h1);
        d.put(&l, 0, false).unwrap();
        d.splice(&l, 1, 2, vec![hydrate::Value::Scalar(ScalarValue::Uint(9))]).unwrap();
        show(&d, &l, &format!("later={later} isolated, in tx"));
        d.commit();
        d.integrate();
        show(&d, &l, &format!("later={later} after integrate"));
        let r = AutoCommit::load(&d.save()).unwrap();
        show(&r, &l, &format!("later={later} reload"));
    }
}
