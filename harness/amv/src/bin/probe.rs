// scratch probes against the real API (no harness model in the loop)
use automerge::transaction::Transactable;
use automerge::*;

fn main() {
    let mut d = AutoCommit::new();
    let l = d.put_object(ROOT, "l", ObjType::List).unwrap();
    d.insert(&l, 0, 1).unwrap();
    d.insert(&l, 1, 2).unwrap();
    let t = d.put_object(ROOT, "t", ObjType::Text).unwrap();
    d.splice_text(&t, 0, 0, "ab").unwrap();
    for idx in [usize::MAX, usize::MAX - 1, usize::MAX / 2 + 1, 3] {
        let mut d2 = d.clone();
        let r = std::panic::catch_unwind(std::panic::AssertUnwindSafe(|| d2.insert(&l, idx, 9)));
        println!("insert(list, {idx}) -> {:?}", r.map_err(|_| "PANIC"));
        let mut d2 = d.clone();
        let r = std::panic::catch_unwind(std::panic::AssertUnwindSafe(|| d2.splice_text(&t, idx, 0, "z")));
        println!("splice_text(text, {idx}) -> {:?}", r.map_err(|_| "PANIC"));
        println!("   text now {:?} list len {}", d2.text(&t), d2.length(&l));
    }
}
