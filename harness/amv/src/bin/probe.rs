// scratch probes against the real API (no harness model in the loop)
use automerge::transaction::Transactable;
use automerge::*;
use std::str::FromStr;

fn main() {
    let bytes = std::fs::read("/verif/out/dump/iso-R0.bin").unwrap();
    let actor = ActorId::from(hex::decode("5070ffffffffffffffffffffffffffffffffffffffffffffffffffffffffffff").unwrap());
    let h = ChangeHash::from_str("9837570aa8a481cf6186b13db3e2a025a36a09353c2d4714fbda00ce9c1b1d98").unwrap();
    let mut d = AutoCommit::load(&bytes).unwrap().with_actor(actor);
    println!("changes {} actors: {:?}", d.get_changes(&[]).len(), d.get_changes(&[]).iter().map(|c| c.actor_id().to_hex_string()).collect::<std::collections::BTreeSet<_>>());
    d.isolate(&[h]);
    for i in 0..6 {
        let r = std::panic::catch_unwind(std::panic::AssertUnwindSafe(|| {
            d.put(ROOT, "iso", i).unwrap();
            d.get_heads()
        }));
        println!("op {i}: {:?}", r.map(|h| h.len()).map_err(|_| "PANIC"));
    }
}
