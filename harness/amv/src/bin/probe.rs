// scratch probes against the real API (no harness model in the loop)
use automerge::transaction::Transactable;
use automerge::*;
use std::collections::HashMap;

fn main() {
    // init_root_from_hydrate on a document that already has a key
    let mut a = AutoCommit::new();
    let l = a.put_object(ROOT, "l", ObjType::List).unwrap();
    a.insert(&l, 0, 1).unwrap();
    let m: HashMap<String, hydrate::Value> = [("r0".to_string(), hydrate::Value::Scalar(ScalarValue::Int(102))), ("r1".to_string(), hydrate::Value::Scalar(ScalarValue::Str("x".into())))].into_iter().collect();
    let r = a.init_root_from_hydrate(&hydrate::Map::from(m.clone()));
    println!("init_root_from_hydrate (pending tx) -> {r:?}; keys = {:?}", a.keys(ROOT).collect::<Vec<_>>());
    let mut a2 = AutoCommit::new();
    let l = a2.put_object(ROOT, "l", ObjType::List).unwrap();
    a2.insert(&l, 0, 1).unwrap();
    a2.commit();
    let r = a2.init_root_from_hydrate(&hydrate::Map::from(m.clone()));
    println!("init_root_from_hydrate (after commit) -> {r:?}; keys = {:?}", a2.keys(ROOT).collect::<Vec<_>>());
    let mut a3 = AutoCommit::new();
    let r = a3.init_root_from_hydrate(&hydrate::Map::from(m));
    println!("init_root_from_hydrate (empty doc) -> {r:?}; keys = {:?}", a3.keys(ROOT).collect::<Vec<_>>());

    // update_object on a list
    let mut d = AutoCommit::new();
    let l = d.put_object(ROOT, "l", ObjType::List).unwrap();
    d.insert(&l, 0, 1).unwrap();
    d.insert(&l, 1, 2).unwrap();
    d.commit();
    let v = hydrate::Value::List(hydrate::List::from(vec![hydrate::Value::Scalar(ScalarValue::Str("only".into()))]));
    let r = d.update_object(&l, &v);
    println!("update_object(list [1,2] -> [only]) -> {r:?}; list = {:?}", d.hydrate(&l, None));
    let v = hydrate::Value::List(hydrate::List::from(vec![]));
    let r = d.update_object(&l, &v);
    println!("update_object(list -> []) -> {r:?}; list = {:?}", d.hydrate(&l, None));
}
