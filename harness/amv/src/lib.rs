//! amv — runtime monitors for automerge (see /verif/DESIGN.md).
//! Library part: framework and shared engines; `cli_main` is the common
//! command line of every monitor binary.
#![allow(dead_code)]
pub mod chunks;
pub mod fw;
pub mod gen;
pub mod mutate;
pub mod net;
pub mod obs;
pub mod refint;
pub mod res;
pub mod seqmodel;
pub mod util;
pub mod view;

use fw::*;

#[global_allocator]
static ALLOC: res::CountingAlloc = res::CountingAlloc;
use std::path::PathBuf;

fn arg_val(args: &[String], k: &str) -> Option<String> {
    args.iter().position(|a| a == k).and_then(|i| args.get(i + 1).cloned())
}

pub fn cli_main(reg: Vec<Box<dyn Check>>) {
    install_panic_hook();
    let args: Vec<String> = std::env::args().collect();
    if args.len() < 2 {
        eprintln!("usage: amv run <ID> [--tier quick|thorough] [--seed N] | worker … | replay <path> | list");
        std::process::exit(2);
    }
    match args[1].as_str() {
        "list" => {
            for c in &reg {
                println!("{}", c.id());
            }
        }
        "run" => {
            let id = &args[2];
            let check = reg.iter().find(|c| c.id() == id).unwrap_or_else(|| {
                eprintln!("unknown check {id}");
                std::process::exit(2)
            });
            let tier = Tier::parse(&arg_val(&args, "--tier").unwrap_or_else(|| std::env::var("VERIF_TIER").unwrap_or_else(|_| "quick".into())));
            let seed = arg_val(&args, "--seed")
                .or_else(|| std::env::var("VERIF_SEED").ok())
                .and_then(|s| s.parse().ok())
                .unwrap_or(1);
            let workers = arg_val(&args, "--workers").and_then(|s| s.parse().ok()).unwrap_or(16);
            let budget_s = arg_val(&args, "--budget").and_then(|s| s.parse().ok());
            let code = coordinator(check.as_ref(), &RunArgs { tier, seed, workers, budget_s });
            std::process::exit(code);
        }
        "worker" => {
            let id = &args[2];
            let check = reg.iter().find(|c| c.id() == id).expect("unknown check");
            let a = WorkerArgs {
                tier: Tier::parse(&arg_val(&args, "--tier").unwrap()),
                seed: arg_val(&args, "--seed").unwrap().parse().unwrap(),
                shard: arg_val(&args, "--shard").unwrap().parse().unwrap(),
                of: arg_val(&args, "--of").unwrap().parse().unwrap(),
                out: PathBuf::from(arg_val(&args, "--out").unwrap()),
                budget_s: arg_val(&args, "--budget").unwrap().parse().unwrap(),
                only_case: None,
                verbose: false,
                resume_after: arg_val(&args, "--resume-after").and_then(|s| s.parse().ok()),
            };
            limit_address_space(6);
            res::enable_cap(true);
            let cx = run_worker(check.as_ref(), &a);
            std::fs::write(&a.out, serde_json::to_string(&ctx_to_json(&cx)).unwrap()).unwrap();
        }
        "case" => {
            // amv case <ID> <case> [--seed N] [--tier T]: re-run one case verbosely
            let id = args[2].clone();
            let case: u64 = args[3].parse().unwrap();
            let seed: u64 = arg_val(&args, "--seed").and_then(|s| s.parse().ok()).unwrap_or(1);
            let tier = arg_val(&args, "--tier").unwrap_or_else(|| "quick".into());
            let path = out_dir().join("case.tmp.json");
            std::fs::write(&path, serde_json::json!({"property": id, "tier": tier, "seed": seed, "case": case}).to_string()).unwrap();
            let check = reg.iter().find(|c| c.id() == id).expect("unknown check");
            std::process::exit(replay(check.as_ref(), &path));
        }
        "replay" => {
            let path = PathBuf::from(&args[2]);
            let txt = std::fs::read_to_string(&path).expect("read replay");
            let v: serde_json::Value = serde_json::from_str(&txt).expect("parse replay");
            let id = v["property"].as_str().unwrap().to_string();
            let check = reg.iter().find(|c| c.id() == id).expect("unknown check");
            std::process::exit(replay(check.as_ref(), &path));
        }
        other => {
            eprintln!("unknown command {other}");
            std::process::exit(2);
        }
    }
}
