#![allow(dead_code)]
mod checks;

fn main() {
    amv::cli_main(checks::registry());
}
