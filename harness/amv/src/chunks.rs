//! The harness's own reader of the chunk envelope of the storage format:
//! magic(4) ‖ checksum(4) ‖ type(1) ‖ uLEB(len) ‖ data(len), repeated.
//! checksum = first 4 bytes of SHA-256(type ‖ uLEB(len) ‖ data).
use sha2::{Digest, Sha256};

pub const MAGIC: [u8; 4] = [0x85, 0x6f, 0x4a, 0x83];

#[derive(Clone, Debug)]
pub struct Chunk {
    pub start: usize,
    /// one past the last byte of the chunk
    pub end: usize,
    pub typ: u8,
    /// where the data begins (after the length field)
    pub data_start: usize,
}

pub fn read_uleb(b: &[u8], mut at: usize) -> Option<(u64, usize)> {
    let mut v: u64 = 0;
    let mut shift = 0;
    loop {
        let x = *b.get(at)?;
        at += 1;
        if shift >= 64 {
            return None;
        }
        v |= ((x & 0x7f) as u64) << shift;
        if x & 0x80 == 0 {
            return Some((v, at));
        }
        shift += 7;
    }
}

pub fn write_uleb(mut v: u64, out: &mut Vec<u8>) {
    loop {
        let b = (v & 0x7f) as u8;
        v >>= 7;
        if v == 0 {
            out.push(b);
            break;
        }
        out.push(b | 0x80);
    }
}

pub fn write_sleb(mut v: i64, out: &mut Vec<u8>) {
    loop {
        let b = (v & 0x7f) as u8;
        v >>= 7;
        let done = (v == 0 && b & 0x40 == 0) || (v == -1 && b & 0x40 != 0);
        if done {
            out.push(b);
            break;
        }
        out.push(b | 0x80);
    }
}

/// split a byte string into complete chunks; returns the chunks and the offset where parsing stopped
pub fn parse_chunks(b: &[u8]) -> (Vec<Chunk>, usize) {
    let mut out = vec![];
    let mut at = 0;
    while at + 9 <= b.len() {
        if b[at..at + 4] != MAGIC {
            break;
        }
        let typ = b[at + 8];
        let Some((len, ds)) = read_uleb(b, at + 9) else { break };
        let end = ds as u64 + len;
        if end > b.len() as u64 {
            break;
        }
        out.push(Chunk { start: at, end: end as usize, typ, data_start: ds });
        at = end as usize;
    }
    (out, at)
}

/// recompute the checksum of the chunk starting at `start` in place
pub fn reseal(b: &mut [u8], c: &Chunk) {
    let h = Sha256::digest(&b[c.start + 8..c.end]);
    b[c.start + 4..c.start + 8].copy_from_slice(&h[..4]);
}

/// build a chunk from type and data
pub fn make_chunk(typ: u8, data: &[u8]) -> Vec<u8> {
    let mut body = vec![typ];
    write_uleb(data.len() as u64, &mut body);
    body.extend_from_slice(data);
    let h = Sha256::digest(&body);
    let mut out = MAGIC.to_vec();
    out.extend_from_slice(&h[..4]);
    out.extend_from_slice(&body);
    out
}

pub fn chunk_hash(b: &[u8], c: &Chunk) -> [u8; 32] {
    let h = Sha256::digest(&b[c.start + 8..c.end]);
    let mut o = [0u8; 32];
    o.copy_from_slice(&h);
    o
}
