//! RES — resource monitor: a counting global allocator (live, peak, total,
//! largest single request) with a hard cap on a single request, plus thread
//! CPU time. Counters are process-wide (workers are single-threaded).
use std::alloc::{GlobalAlloc, Layout, System};
use std::sync::atomic::{AtomicBool, AtomicUsize, Ordering};

pub struct CountingAlloc;

static LIVE: AtomicUsize = AtomicUsize::new(0);
static PEAK: AtomicUsize = AtomicUsize::new(0);
static TOTAL: AtomicUsize = AtomicUsize::new(0);
static CALLS: AtomicUsize = AtomicUsize::new(0);
static MAX_REQ: AtomicUsize = AtomicUsize::new(0);
static CAP_ON: AtomicBool = AtomicBool::new(false);

/// a single request of this size or more is refused: the process reports it and aborts
pub const SINGLE_REQUEST_CAP: usize = 1 << 30;

fn on_alloc(size: usize) {
    CALLS.fetch_add(1, Ordering::Relaxed);
    TOTAL.fetch_add(size, Ordering::Relaxed);
    MAX_REQ.fetch_max(size, Ordering::Relaxed);
    let live = LIVE.fetch_add(size, Ordering::Relaxed) + size;
    PEAK.fetch_max(live, Ordering::Relaxed);
}

fn refuse(size: usize) -> ! {
    // no allocation allowed here
    let mut buf = [0u8; 96];
    let msg = b"amv-alloc-cap: single allocation request of ";
    let mut n = 0;
    for b in msg {
        buf[n] = *b;
        n += 1;
    }
    let mut digits = [0u8; 24];
    let mut k = 0;
    let mut v = size;
    if v == 0 {
        digits[0] = b'0';
        k = 1;
    }
    while v > 0 {
        digits[k] = b'0' + (v % 10) as u8;
        v /= 10;
        k += 1;
    }
    while k > 0 {
        k -= 1;
        buf[n] = digits[k];
        n += 1;
    }
    for b in b" bytes refused\n" {
        buf[n] = *b;
        n += 1;
    }
    unsafe {
        libc::write(2, buf.as_ptr() as *const libc::c_void, n);
    }
    // name the requesting function of the code under test (allocating is fine now: the cap is
    // switched off first and this process is about to abort anyway)
    CAP_ON.store(false, Ordering::Relaxed);
    let (file, func) = crate::fw::in_repo_frame();
    let line = format!("amv-alloc-cap: site={}\n", if func.is_empty() { "?".to_string() } else { format!("{file}#{func}") });
    unsafe {
        libc::write(2, line.as_ptr() as *const libc::c_void, line.len());
        libc::abort();
    }
}

unsafe impl GlobalAlloc for CountingAlloc {
    unsafe fn alloc(&self, layout: Layout) -> *mut u8 {
        if layout.size() >= SINGLE_REQUEST_CAP && CAP_ON.load(Ordering::Relaxed) {
            refuse(layout.size());
        }
        let p = System.alloc(layout);
        if !p.is_null() {
            on_alloc(layout.size());
        }
        p
    }
    unsafe fn dealloc(&self, ptr: *mut u8, layout: Layout) {
        System.dealloc(ptr, layout);
        LIVE.fetch_sub(layout.size(), Ordering::Relaxed);
    }
    unsafe fn alloc_zeroed(&self, layout: Layout) -> *mut u8 {
        if layout.size() >= SINGLE_REQUEST_CAP && CAP_ON.load(Ordering::Relaxed) {
            refuse(layout.size());
        }
        let p = System.alloc_zeroed(layout);
        if !p.is_null() {
            on_alloc(layout.size());
        }
        p
    }
    unsafe fn realloc(&self, ptr: *mut u8, layout: Layout, new_size: usize) -> *mut u8 {
        if new_size >= SINGLE_REQUEST_CAP && CAP_ON.load(Ordering::Relaxed) {
            refuse(new_size);
        }
        let p = System.realloc(ptr, layout, new_size);
        if !p.is_null() {
            if new_size > layout.size() {
                on_alloc(new_size - layout.size());
            } else {
                LIVE.fetch_sub(layout.size() - new_size, Ordering::Relaxed);
            }
        }
        p
    }
}

pub fn enable_cap(on: bool) {
    CAP_ON.store(on, Ordering::Relaxed);
}

#[derive(Clone, Copy, Debug, Default)]
pub struct Usage {
    pub peak_above_start: usize,
    pub total: usize,
    pub calls: usize,
    pub max_request: usize,
    pub cpu_ns: u64,
}

pub struct Meter {
    live0: usize,
    total0: usize,
    calls0: usize,
    cpu0: u64,
}

pub fn thread_cpu_ns() -> u64 {
    let mut ts = libc::timespec { tv_sec: 0, tv_nsec: 0 };
    unsafe {
        libc::clock_gettime(libc::CLOCK_THREAD_CPUTIME_ID, &mut ts);
    }
    ts.tv_sec as u64 * 1_000_000_000 + ts.tv_nsec as u64
}

impl Meter {
    pub fn start() -> Meter {
        let live0 = LIVE.load(Ordering::Relaxed);
        PEAK.store(live0, Ordering::Relaxed);
        MAX_REQ.store(0, Ordering::Relaxed);
        Meter { live0, total0: TOTAL.load(Ordering::Relaxed), calls0: CALLS.load(Ordering::Relaxed), cpu0: thread_cpu_ns() }
    }
    pub fn stop(&self) -> Usage {
        Usage {
            peak_above_start: PEAK.load(Ordering::Relaxed).saturating_sub(self.live0),
            total: TOTAL.load(Ordering::Relaxed).wrapping_sub(self.total0),
            calls: CALLS.load(Ordering::Relaxed).wrapping_sub(self.calls0),
            max_request: MAX_REQ.load(Ordering::Relaxed),
            cpu_ns: thread_cpu_ns().saturating_sub(self.cpu0),
        }
    }
}
