//! C23 — the sync Bloom filter has no false negatives and never crashes.
use amv::fw::*;
use automerge::sync::BloomFilter;
use automerge::ChangeHash;
use serde_json::json;

pub struct C23;

fn rand_hash(rng: &mut Rng, style: usize) -> ChangeHash {
    let mut b = [0u8; 32];
    for x in b.iter_mut() {
        *x = rng.next() as u8;
    }
    match style {
        1 => b[..12].fill(0),
        2 => b[..12].fill(0xff),
        3 => {
            // equal prefixes: only the tail differs
            b[..12].copy_from_slice(&[7, 7, 7, 7, 1, 0, 0, 0, 0, 0, 0, 0]);
        }
        4 => {
            // y and z zero: all probes collide on x
            b[4..12].fill(0);
        }
        5 => {
            // large x,y,z to provoke wrap-around in (x + y) % modulo
            b[..12].fill(0xff);
            b[0] = rng.next() as u8;
        }
        _ => {}
    }
    ChangeHash(b)
}

fn leb(mut v: u64, out: &mut Vec<u8>) {
    loop {
        let b = (v & 0x7f) as u8;
        v >>= 7;
        if v == 0 {
            out.push(b);
            break;
        }
        out.push(b | 0x80);
    }
}

impl Check for C23 {
    fn id(&self) -> &'static str {
        "C23"
    }
    fn in_panic_watch(&self) -> bool {
        false
    }
    fn cases(&self, tier: Tier) -> u64 {
        tier.pick(1500, 40_000)
    }
    fn budget_s(&self, tier: Tier) -> u64 {
        tier.pick(15, 200)
    }
    fn panic_is_violation(&self) -> bool {
        true
    }
    fn rule(&self) -> String {
        "case = (a) a hash set of size 0..5000 (random / zero-prefix / ff-prefix / equal-prefix / colliding-probe hashes): every member must be reported present by from_hashes and after to_bytes→try_from; (b) filters decoded from crafted parameter triples (entries, bits/entry, probes ∈ {0,1,7,2^31,2^32-1,…}) plus random tails, and from arbitrary bytes: every contains_hash must return a bool. Non-trivial = set size ≥1 or a decoded filter with a degenerate parameter; distinct by (params, set hash).".into()
    }
    fn required_counters(&self) -> Vec<&'static str> {
        vec!["members_checked", "decoded_filters_queried", "degenerate_filters_queried"]
    }
    fn assumptions(&self) -> Vec<String> {
        vec!["workers run under RLIMIT_AS so that a giant allocation aborts the worker (reported as a crash) instead of exhausting the machine".into()]
    }
    fn run_case(&self, cx: &mut Ctx, case: u64, rng: &mut Rng) {
        if case % 2 == 0 {
            // (a) membership
            let style = rng.below(6);
            let n = match rng.below(10) {
                0 => 0,
                1 => 1,
                2 => rng.range(2, 9),
                3..=6 => rng.range(10, 300),
                7..=8 => rng.range(300, 2000),
                _ => rng.range(2000, 5000),
            };
            let hashes: Vec<ChangeHash> = (0..n).map(|_| rand_hash(rng, style)).collect();
            let f = BloomFilter::from_hashes(hashes.iter());
            let bytes = f.to_bytes();
            let g = match BloomFilter::try_from(&bytes[..]) {
                Ok(g) => g,
                Err(e) => {
                    cx.violation(
                        "roundtrip-decode-error",
                        format!("to_bytes of a filter built from {n} hashes does not decode: {e}"),
                        json!({"n": n, "style": style}),
                    );
                    return;
                }
            };
            if g != f {
                cx.violation("roundtrip-not-equal", "decoded filter differs from the original", json!({"n": n}));
            }
            for h in &hashes {
                cx.count("members_checked");
                if !f.contains_hash(h) {
                    cx.violation("false-negative", format!("member {h} of a {n}-set (style {style}) reported absent"), json!({"n": n, "style": style}));
                    break;
                }
                if !g.contains_hash(h) {
                    cx.violation("false-negative-after-decode", format!("member {h} of a {n}-set (style {style}) reported absent after to_bytes/try_from"), json!({"n": n, "style": style}));
                    break;
                }
            }
            // non-members: only count false positives (allowed)
            let mut fp = 0;
            for _ in 0..20 {
                let h = rand_hash(rng, 0);
                if f.contains_hash(&h) && !hashes.contains(&h) {
                    fp += 1;
                }
            }
            cx.add("false_positives_seen", fp);
            if n >= 1 {
                cx.nontrivial(fnv(&bytes) ^ (n as u64));
            }
            cx.sample(|| json!({"kind": "membership", "set_size": n, "hash_style": style, "filter_bytes": bytes.len()}));
        } else {
            // (b) decoded filters
            let vals: [u64; 12] = [0, 1, 2, 7, 10, 127, 128, 1 << 14, 1 << 31, (1u64 << 32) - 1, 1u64 << 32, u64::MAX];
            let mut bytes = vec![];
            let arbitrary = rng.chance(25);
            let (e, b, p);
            if arbitrary {
                let n = rng.below(40);
                bytes = rng.bytes(n);
                e = 0; b = 0; p = 0;
            } else {
                e = *rng.pick(&vals[..8]);
                b = *rng.pick(&vals);
                p = if rng.chance(70) { *rng.pick(&vals[..8]) } else { *rng.pick(&vals) };
                leb(e, &mut bytes);
                leb(b, &mut bytes);
                leb(p, &mut bytes);
                // exactly the required number of bits, or random tail
                let need = ((e as f64) * (b as f64) / 8.0).ceil();
                let tail = if need <= 70_000.0 && rng.chance(80) { need as usize } else { rng.below(64) };
                bytes.extend(rng.bytes(tail));
            }
            let bytes2 = bytes.clone();
            let r = catch(|| BloomFilter::try_from(&bytes2[..]));
            match r {
                Err(p) => cx.violation(&panic_sig(&p), format!("BloomFilter::try_from panicked: {p}"), json!({"bytes": hex::encode(&bytes)})),
                Ok(Err(_)) => cx.count("decode_rejected"),
                Ok(Ok(f)) => {
                    cx.count("decoded_filters_queried");
                    let degenerate = !arbitrary && (e == 0 || b == 0 || p == 0 || p >= (1 << 31) || b >= (1 << 31));
                    if degenerate {
                        cx.count("degenerate_filters_queried");
                        cx.nontrivial(fnv(&bytes));
                    }
                    for k in 0..6 {
                        let h = rand_hash(rng, k);
                        let r = catch(|| f.contains_hash(&h));
                        if let Err(pn) = r {
                            cx.violation(&panic_sig(&pn), format!("contains_hash on a filter decoded from {} bytes (entries={e} bits/entry={b} probes={p}) panicked: {pn}", bytes.len()), json!({"bytes": hex::encode(&bytes)}));
                            break;
                        }
                    }
                    // re-encode must not panic either
                    let _ = f.to_bytes();
                    cx.sample(|| json!({"kind": "decoded", "entries": e, "bits_per_entry": b, "probes": p, "bytes": hex::encode(&bytes[..bytes.len().min(24)])}));
                }
            }
        }
    }
}
