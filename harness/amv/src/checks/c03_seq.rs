//! C03 — local edits have their documented sequential effect.
use amv::fw::*;
use amv::gen::{actor, Profile, World, GRAPHEMES};
use amv::obs::{enc_name, exid_str, first_diff, observe, observe_opts};
use amv::seqmodel::{self as sm, Call, Expect, Key, MObj};
use amv::util::*;
use automerge::marks::{ExpandMark, Mark};
use automerge::transaction::{CommitOptions, Transactable};
use automerge::{AutoCommit, Automerge, LoadOptions, ObjId, ObjType, ReadDoc, ScalarValue, TextEncoding};
use serde_json::json;
use std::collections::BTreeMap;

pub struct C03;

fn rand_scalar(rng: &mut Rng, n: &mut i64) -> ScalarValue {
    *n += 1;
    match rng.below(9) {
        0 | 1 => ScalarValue::Int(*n),
        2 => ScalarValue::Str(format!("v{n}").into()),
        3 => ScalarValue::counter(*n),
        4 => ScalarValue::Null,
        5 => ScalarValue::F64(*n as f64 / 2.0),
        6 => ScalarValue::Boolean(*n % 2 == 0),
        7 => ScalarValue::Bytes(vec![*n as u8, 1]),
        _ => ScalarValue::Uint(*n as u64),
    }
}

fn rand_text(rng: &mut Rng, max: usize) -> String {
    let n = rng.range(1, max);
    (0..n).map(|_| if rng.chance(40) { *rng.pick(&GRAPHEMES[6..]) } else { *rng.pick(&GRAPHEMES[..6]) }).collect()
}

/// choose a call against the model; `invalid` asks for a call the documentation says must fail
fn gen_call(m: &MObj, rng: &mut Rng, enc: TextEncoding, n: &mut i64, invalid: bool, misaligned: bool) -> Call {
    let mut objs = vec![];
    m.objects(&mut objs);
    let (id, typ) = rng.pick(&objs).clone();
    let mut mm = m.clone();
    let o = mm.find_mut(&id).unwrap().clone();
    let keys = ["k0", "k1", "ключ😀", "c"];
    if invalid {
        return match (typ, rng.below(9)) {
            (_, 0) => Call::Put { obj: "9999999@aabb".into(), key: Key::Map("k".into()), val: ScalarValue::Int(1) },
            // a negative delete count reaching before the start of the sequence
            (ObjType::List, 7 | 8) => {
                let i = rng.below(o.list.len() + 1);
                Call::Splice { obj: id, index: i, del: -((i + 1 + rng.below(3)) as isize), vals: if rng.chance(50) { vec![] } else { vec![ScalarValue::Int(1)] } }
            }
            (ObjType::Text, 7 | 8) => {
                let (bounds, _) = o.text_layout(enc);
                let i = if bounds.is_empty() { 0 } else { *rng.pick(&bounds) };
                Call::SpliceText { obj: id, index: i, del: -((i + 1 + rng.below(3)) as isize), text: if rng.chance(50) { String::new() } else { "zz".into() } }
            }
            (ObjType::Map | ObjType::Table, 1) => Call::Put { obj: id, key: Key::Seq(0), val: ScalarValue::Int(1) },
            (ObjType::Map | ObjType::Table, 2) => Call::Insert { obj: id, index: 0, val: ScalarValue::Int(1) },
            (ObjType::Map | ObjType::Table, _) => {
                // increment where no counter is
                let k = keys.iter().find(|k| !o.map.get(**k).map(|r| MObj::has_counter(r)).unwrap_or(false)).unwrap_or(&"zz");
                Call::Increment { obj: id, key: Key::Map(k.to_string()), by: 1 }
            }
            (ObjType::List, 1) => Call::Put { obj: id, key: Key::Map("k".into()), val: ScalarValue::Int(1) },
            (ObjType::List, 2) => Call::Insert { obj: id, index: o.list.len() + 1 + rng.below(3), val: ScalarValue::Int(1) },
            (ObjType::List, 3) => Call::Put { obj: id, key: Key::Seq(o.list.len() + rng.below(3)), val: ScalarValue::Int(1) },
            (ObjType::List, 4) => Call::Delete { obj: id, key: Key::Seq(o.list.len() + rng.below(3)) },
            (ObjType::List, _) => {
                match o.list.iter().position(|r| !MObj::has_counter(r)) {
                    Some(i) => Call::Increment { obj: id, key: Key::Seq(i), by: 1 },
                    None => Call::Delete { obj: id, key: Key::Seq(o.list.len()) },
                }
            }
            (ObjType::Text, 1) => Call::Put { obj: id, key: Key::Map("k".into()), val: ScalarValue::Int(1) },
            (ObjType::Text, 2 | 3) => {
                let (_, len) = o.text_layout(enc);
                Call::SpliceText { obj: id, index: len + 1 + rng.below(3), del: 0, text: "zz".into() }
            }
            (ObjType::Text, 4) => {
                let (_, len) = o.text_layout(enc);
                Call::Mark { obj: id, start: rng.below(len + 1), end: len + 1 + rng.below(3), name: "bold".into(), val: ScalarValue::Boolean(true), expand: ExpandMark::After }
            }
            (ObjType::Text, _) => {
                let (_, len) = o.text_layout(enc);
                Call::SplitBlock { obj: id, index: len + 1 + rng.below(2) }
            }
        };
    }
    match typ {
        ObjType::Map | ObjType::Table => {
            let k = rng.pick(&keys).to_string();
            match rng.below(10) {
                0..=3 => Call::Put { obj: id, key: Key::Map(k), val: rand_scalar(rng, n) },
                4 | 5 => Call::PutObject { obj: id, key: Key::Map(k), typ: *rng.pick(&[ObjType::Map, ObjType::List, ObjType::Text]) },
                6 | 7 => Call::Delete { obj: id, key: Key::Map(k) },
                _ => {
                    // increment a register that holds a counter, if any
                    match o.map.iter().find(|(_, r)| MObj::has_counter(r)) {
                        Some((kk, _)) => Call::Increment { obj: id, key: Key::Map(kk.clone()), by: rng.range(1, 9) as i64 - 4 },
                        None => Call::Put { obj: id, key: Key::Map(k), val: ScalarValue::counter(*n) },
                    }
                }
            }
        }
        ObjType::List => {
            let len = o.list.len();
            match rng.below(12) {
                0..=2 => Call::Insert { obj: id, index: rng.below(len + 1), val: rand_scalar(rng, n) },
                3 => Call::InsertObject { obj: id, index: rng.below(len + 1), typ: *rng.pick(&[ObjType::Map, ObjType::List, ObjType::Text]) },
                4 | 5 if len > 0 => Call::Put { obj: id, key: Key::Seq(rng.below(len)), val: rand_scalar(rng, n) },
                6 if len > 0 => Call::PutObject { obj: id, key: Key::Seq(rng.below(len)), typ: ObjType::Map },
                7 | 8 if len > 0 => Call::Delete { obj: id, key: Key::Seq(rng.below(len)) },
                9 => match o.list.iter().position(|r| MObj::has_counter(r)) {
                    Some(i) => Call::Increment { obj: id, key: Key::Seq(i), by: rng.range(1, 5) as i64 },
                    None => Call::Insert { obj: id, index: rng.below(len + 1), val: ScalarValue::counter(*n) },
                },
                _ => {
                    let i = rng.below(len + 1);
                    let del = if rng.chance(20) && i > 0 { -(rng.range(1, i.min(3)) as isize) } else { rng.below((len - i).min(3) + 2) as isize };
                    let vals = (0..rng.below(4)).map(|_| rand_scalar(rng, n)).collect();
                    Call::Splice { obj: id, index: i, del, vals }
                }
            }
        }
        ObjType::Text => {
            let (starts, len) = o.text_layout(enc);
            let mut bounds = starts.clone();
            bounds.push(len);
            let pick_b = |rng: &mut Rng| -> usize {
                if misaligned {
                    rng.below(len + 1)
                } else {
                    *rng.pick(&bounds)
                }
            };
            match rng.below(12) {
                0..=3 => Call::SpliceText { obj: id, index: pick_b(rng), del: 0, text: rand_text(rng, 4) },
                4 | 5 if len > 0 => {
                    let a = rng.below(bounds.len());
                    let b = (a + rng.below(3) + 1).min(bounds.len() - 1);
                    if misaligned {
                        let i = rng.below(len);
                        Call::SpliceText { obj: id, index: i, del: rng.range(1, 3) as isize, text: String::new() }
                    } else if rng.chance(20) && b > a {
                        Call::SpliceText { obj: id, index: bounds[b], del: -((bounds[b] - bounds[a]) as isize), text: String::new() }
                    } else {
                        Call::SpliceText { obj: id, index: bounds[a], del: (bounds[b] - bounds[a]) as isize + if rng.chance(10) { 50 } else { 0 }, text: String::new() }
                    }
                }
                6 if len > 0 => {
                    let a = rng.below(bounds.len() - 1);
                    let b = (a + 1 + rng.below(2)).min(bounds.len() - 1);
                    Call::SpliceText { obj: id, index: bounds[a], del: (bounds[b] - bounds[a]) as isize, text: rand_text(rng, 3) }
                }
                7 | 8 if len > 0 => {
                    let a = rng.below(bounds.len());
                    let b = (a + rng.below(4)).min(bounds.len() - 1);
                    let val = if rng.chance(25) { ScalarValue::Null } else if rng.chance(50) { ScalarValue::Boolean(true) } else { ScalarValue::Str(format!("u{n}").into()) };
                    Call::Mark { obj: id, start: bounds[a], end: bounds[b], name: rng.pick(&["bold", "it"]).to_string(), val, expand: *rng.pick(&[ExpandMark::Before, ExpandMark::After, ExpandMark::Both, ExpandMark::None]) }
                }
                9 => Call::SplitBlock { obj: id, index: pick_b(rng) },
                10 if len > 0 => {
                    // join an existing block when there is one, else delete a char
                    match o.text.iter().position(|e| matches!(e.vals.last().map(|x| &x.val), Some(sm::MVal::Obj(_)))) {
                        Some(p) => Call::JoinBlock { obj: id, index: starts[p] },
                        None => Call::Delete { obj: id, key: Key::Seq(starts[rng.below(starts.len())]) },
                    }
                }
                _ => Call::SpliceText { obj: id, index: pick_b(rng), del: 0, text: rand_text(rng, 2) },
            }
        }
    }
}

fn exec<D: Transactable>(d: &mut D, c: &Call, ids: &BTreeMap<String, ObjId>) -> Result<Option<ObjId>, String> {
    let bogus = ObjId::Id(9_999_999, actor(201), 0);
    let o = ids.get(c.obj()).cloned().unwrap_or(bogus);
    let e = |x: automerge::AutomergeError| x.to_string();
    match c {
        Call::Put { key: Key::Map(k), val, .. } => d.put(&o, k.as_str(), val.clone()).map(|_| None).map_err(e),
        Call::Put { key: Key::Seq(i), val, .. } => d.put(&o, *i, val.clone()).map(|_| None).map_err(e),
        Call::PutObject { key: Key::Map(k), typ, .. } => d.put_object(&o, k.as_str(), *typ).map(Some).map_err(e),
        Call::PutObject { key: Key::Seq(i), typ, .. } => d.put_object(&o, *i, *typ).map(Some).map_err(e),
        Call::Insert { index, val, .. } => d.insert(&o, *index, val.clone()).map(|_| None).map_err(e),
        Call::InsertObject { index, typ, .. } => d.insert_object(&o, *index, *typ).map(Some).map_err(e),
        Call::Delete { key: Key::Map(k), .. } => d.delete(&o, k.as_str()).map(|_| None).map_err(e),
        Call::Delete { key: Key::Seq(i), .. } => d.delete(&o, *i).map(|_| None).map_err(e),
        Call::Increment { key: Key::Map(k), by, .. } => d.increment(&o, k.as_str(), *by).map(|_| None).map_err(e),
        Call::Increment { key: Key::Seq(i), by, .. } => d.increment(&o, *i, *by).map(|_| None).map_err(e),
        Call::Splice { index, del, vals, .. } => d.splice(&o, *index, *del, vals.iter().cloned().map(automerge::hydrate::Value::Scalar)).map(|_| None).map_err(e),
        Call::SpliceText { index, del, text, .. } => d.splice_text(&o, *index, *del, text).map(|_| None).map_err(e),
        Call::Mark { start, end, name, val, expand, .. } => d.mark(&o, Mark::new(name.clone(), val.clone(), *start, *end), *expand).map(|_| None).map_err(e),
        Call::SplitBlock { index, .. } => d.split_block(&o, *index).map(Some).map_err(e),
        Call::JoinBlock { index, .. } => d.join_block(&o, *index).map(|_| None).map_err(e),
    }
}

/// run `k` model-checked calls on a Transactable; returns false after reporting a violation
#[allow(clippy::too_many_arguments)]
pub fn drive<D: Transactable>(cx: &mut Ctx, d: &mut D, rng: &mut Rng, enc: TextEncoding, k: usize, n: &mut i64, variant: &str, log: &[String], misaligned_pct: u32) -> bool {
    for _ in 0..k {
        let before = observe_opts(d, None, false);
        if let Some(e) = before.core_errors().first() {
            cx.violation("read-inconsistency", format!("reads disagree before the call: {e}"), json!({"log": tail(log, 20)}));
            return false;
        }
        let ids: BTreeMap<String, ObjId> = before.objects.iter().map(|(i, _)| (exid_str(i), i.clone())).collect();
        let mut model = MObj::from_snapshot(&before.snap);
        let invalid = rng.chance(25);
        let misaligned = !invalid && rng.chance(misaligned_pct);
        let call = gen_call(&model, rng, enc, n, invalid, misaligned);
        if cx.verbose {
            eprintln!("  > [{variant}] {call:?}");
        }
        let pend = d.pending_ops();
        // pre-state class for distinctness / non-triviality
        let target_conflicted = {
            let mut mm = model.clone();
            mm.find_mut(call.obj()).map(|o| o.map.values().any(|r| r.len() > 1) || o.list.iter().any(|r| r.len() > 1) || o.text.iter().any(|e| e.vals.len() > 1 || sm::split_text(enc, &o.text_string()).len() != o.text.len())).unwrap_or(false)
        };
        let res = exec(d, &call, &ids);
        let new_id = res.as_ref().ok().and_then(|o| o.as_ref()).map(exid_str);
        let expect = sm::apply(&mut model, &call, enc, new_id.as_deref());
        cx.count(&format!("call_{}", call.kind()));
        let detail = |extra: String| json!({"variant": variant, "call": format!("{call:?}"), "result": format!("{res:?}"), "encoding": enc_name(enc), "note": extra, "log": tail(log, 15)});
        match (&expect, &res) {
            (Expect::Unspecified, _) => {
                cx.count("unspecified_outcomes_not_judged");
                // still: reads must stay mutually consistent and length = width
                let after = observe(d, None);
                if let Some(e) = after.core_errors().first() {
                    cx.violation(&format!("read-inconsistency-after|{}", call.kind()), format!("after {call:?} (outcome not pinned by the documentation) reads disagree: {e}"), detail(String::new()));
                    return false;
                }
                continue;
            }
            (Expect::Err, Ok(_)) => {
                cx.violation(&format!("invalid-call-accepted|{}", call.kind()), format!("{call:?} must fail (unknown object / wrong key kind / out of range / no counter) but returned Ok"), detail(String::new()));
                return false;
            }
            (Expect::Ok, Err(e)) => {
                cx.violation(&format!("valid-call-rejected|{}", call.kind()), format!("{call:?} is valid but returned Err({e})"), detail(String::new()));
                return false;
            }
            _ => {}
        }
        let after = observe_opts(d, None, false);
        if expect == Expect::Err {
            cx.count("errors_expected_and_returned");
            if d.pending_ops() != pend {
                cx.violation(&format!("changed-after-error|pending_ops|{}", call.kind()), format!("{call:?} returned Err but pending_ops went from {pend} to {}", d.pending_ops()), detail(String::new()));
                return false;
            }
            if let Some(diff) = first_diff(&before.snap, &after.snap) {
                cx.violation(&format!("changed-after-error|state|{}", call.kind()), format!("{call:?} returned Err but the document changed {diff}"), detail(String::new()));
                return false;
            }
            continue;
        }
        cx.count("effects_compared");
        if let Some(e) = after.core_errors().first() {
            cx.violation(&format!("read-inconsistency-after|{}", call.kind()), format!("after {call:?} reads disagree: {e}"), detail(String::new()));
            return false;
        }
        if let Some(diff) = sm::compare(&model, &after.snap, enc, "") {
            cx.violation(&format!("wrong-effect|{}", call.kind()), format!("after {call:?}: {diff}"), detail(diff.clone()));
            return false;
        }
        if target_conflicted {
            cx.count("calls_on_conflicted_or_multiunit_targets");
            cx.nontrivial(fnv(format!("{}{variant}{}", call.kind(), enc_name(enc)).as_bytes()) ^ amv::obs::fingerprint(&before.snap));
        }
    }
    true
}

impl Check for C03 {
    fn id(&self) -> &'static str {
        "C03"
    }
    fn cases(&self, tier: Tier) -> u64 {
        tier.pick(1500, 100_000)
    }
    fn rule(&self) -> String {
        "case = a prior state produced by a seeded multi-replica history and a merge (so conflicted registers, tombstones, marks and blocks exist), then 6–30 calls chosen against a sequential model seeded from the OBS snapshot taken immediately before each call (put, put_object, insert, insert_object, delete, increment, splice with negative and oversized del, splice_text, mark/unmark with all expand modes, split/join block; 25% deliberately invalid: unknown object, wrong key kind, index out of range, increment of a non-counter, mark end out of range) on AutoCommit (open transaction) or a manual Transaction, in each text encoding. After every call the OBS snapshot must equal the model's prediction (new values are matched by value, existing ones by op id), an invalid call must return Err and leave snapshot and pending_ops unchanged, a valid one must return Ok; after commit the state must equal the in-transaction state and load(save()) must equal it too. Calls whose outcome the documentation does not pin (index inside a multi-unit character, scalar insert into text, reversed mark range) are executed, counted and only checked for read-consistency. Non-trivial = the target object held a conflicted register or a multi-unit character; distinct by (call kind, encoding, variant, pre-state fingerprint).".into()
    }
    fn required_counters(&self) -> Vec<&'static str> {
        vec!["effects_compared", "errors_expected_and_returned", "calls_on_conflicted_or_multiunit_targets", "call_increment", "call_splice", "call_splice_text", "call_mark", "call_split_block", "variant_autocommit", "variant_manual_tx", "after_commit_compared", "after_reload_compared"]
    }
    fn run_case(&self, cx: &mut Ctx, case: u64, rng: &mut Rng) {
        let enc = enc_for(rng);
        let n = rng.range(2, 3);
        let mut w = World::new(rng, n, enc, Profile::contention());
        w.verbose = cx.verbose;
        w.run(rng, rng.clone().range(5, cx.tier.pick(40, 120)));
        w.merge(0, 1);
        let log = w.log.clone();
        let mut counter = 1000i64;
        let k = rng.range(6, cx.tier.pick(20, 30));
        let mis = if case % 5 == 4 { 30 } else { 0 };
        let mut doc: AutoCommit = w.docs[0].clone();
        if case % 2 == 0 {
            cx.count("variant_autocommit");
            if !drive(cx, &mut doc, rng, enc, k, &mut counter, "autocommit", &log, mis) {
                return;
            }
            let in_tx = observe_opts(&doc, None, false).snap;
            doc.commit_with(CommitOptions::default().with_time(3));
            cx.count("after_commit_compared");
            let after = observe_opts(&doc, None, false).snap;
            if let Some(d) = first_diff(&in_tx, &after) {
                cx.violation("commit-changed-state", format!("state inside the open transaction (left) vs after commit (right) {d}"), json!({"log": tail(&log, 15)}));
                return;
            }
        } else {
            cx.count("variant_manual_tx");
            let a = doc.get_actor().clone();
            let mut am = match Automerge::load_with_options(&doc.save(), LoadOptions::new().text_encoding(enc)) {
                Ok(d) => d.with_actor(a.clone()),
                Err(e) => {
                    cx.violation("load-of-save-failed", format!("load(save()) failed: {e}"), json!({}));
                    return;
                }
            };
            let in_tx;
            {
                let mut tx = am.transaction();
                if !drive(cx, &mut tx, rng, enc, k, &mut counter, "manual_tx", &log, mis) {
                    return;
                }
                in_tx = observe_opts(&tx, None, false).snap;
                tx.commit_with(CommitOptions::default().with_time(3));
            }
            cx.count("after_commit_compared");
            let after = observe_opts(&am, None, false).snap;
            if let Some(d) = first_diff(&in_tx, &after) {
                cx.violation("commit-changed-state", format!("state inside the open transaction (left) vs after commit (right) {d}"), json!({"log": tail(&log, 15)}));
                return;
            }
            doc = AutoCommit::load_with_options(&am.save(), LoadOptions::new().text_encoding(enc)).unwrap().with_actor(a);
        }
        if !check_h3(cx, &doc, "after commit") {
            return;
        }
        cx.count("after_reload_compared");
        match load_enc(&doc.save(), enc) {
            Ok(mut l) => {
                if let Some(d) = docs_differ(&mut doc, &mut l) {
                    cx.violation("reload-differs", format!("load(save()) after the edits differs: {d}"), json!({"log": tail(&log, 15)}));
                    return;
                }
            }
            Err(e) => {
                cx.violation("cannot-reload", format!("save() after the edits does not load: {e}"), json!({"log": tail(&log, 15)}));
                return;
            }
        }
        cx.sample(|| json!({"encoding": enc_name(enc), "calls": k, "variant": if case % 2 == 0 { "autocommit" } else { "manual transaction" }, "misaligned_indexes_pct": mis}));
    }
}
