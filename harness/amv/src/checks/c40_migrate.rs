//! C40 — loading with string migration turns visible strings into text and nothing else.
use amv::fw::*;
use amv::gen::{Profile, World};
use amv::obs::{enc_name, observe_opts, short};
use amv::util::*;
use automerge::{AutoCommit, LoadOptions, ReadDoc, StringMigration};
use serde_json::{json, Value as J};

pub struct C40;

struct St {
    registers_with_strings: u64,
    conflicted_with_strings: u64,
    string_vs_nonstring: u64,
    nested: u64,
    in_lists: u64,
}

/// compare original object `o` with migrated object `m` (both OBS snapshots)
fn cmp(o: &J, m: &J, path: &str, depth: usize, st: &mut St, errs: &mut Vec<(String, String)>) {
    let typ = o["type"].as_str().unwrap_or("");
    if m["type"] != o["type"] {
        errs.push(("object-type-changed".into(), format!("{path}: object type {} became {}", o["type"], m["type"])));
        return;
    }
    let regs: Vec<(String, &J, Option<&J>)> = match typ {
        "map" | "table" => {
            let om = o["map"].as_object().unwrap();
            let mm = m["map"].as_object().unwrap();
            for k in mm.keys() {
                if !om.contains_key(k) {
                    errs.push(("key-appeared".into(), format!("{path}: key {k:?} exists only after migration")));
                }
            }
            om.iter().map(|(k, v)| (format!("{path}/{k}"), v, mm.get(k))).collect()
        }
        "list" => {
            let os = o["seq"].as_array().unwrap();
            let ms = m["seq"].as_array().unwrap();
            if os.len() != ms.len() {
                errs.push(("list-length-changed".into(), format!("{path}: list length {} became {}", os.len(), ms.len())));
                return;
            }
            os.iter().enumerate().map(|(i, v)| (format!("{path}/{i}"), v, ms.get(i))).collect()
        }
        _ => {
            // text objects are not touched by the migration
            if o["text"] != m["text"] {
                errs.push(("text-changed".into(), format!("{path}: text content changed from {} to {}", o["text"], m["text"])));
            }
            return;
        }
    };
    for (p, ov, mv) in regs {
        let oe = ov.as_array().cloned().unwrap_or_default();
        let Some(mv) = mv else {
            errs.push(("register-vanished".into(), format!("{p}: present before migration, absent after")));
            continue;
        };
        let me = mv.as_array().cloned().unwrap_or_default();
        let strings: Vec<&J> = oe.iter().filter(|e| e.get("v").map(|v| v.get("str").is_some()).unwrap_or(false)).collect();
        for e in &me {
            if e.get("v").map(|v| v.get("str").is_some()).unwrap_or(false) {
                errs.push(("string-scalar-left".into(), format!("{p}: a visible string scalar {} remains after migration", short(e))));
            }
        }
        if strings.is_empty() {
            // unchanged: same ids, same values; nested objects compared recursively
            if oe.len() != me.len() {
                errs.push(("non-string-register-changed".into(), format!("{p}: had no visible string but its values changed from {} to {}", short(ov), short(mv))));
                continue;
            }
            for (a, b) in oe.iter().zip(me.iter()) {
                if a["id"] != b["id"] || a.get("v") != b.get("v") {
                    errs.push(("non-string-register-changed".into(), format!("{p}: had no visible string but value {} became {}", short(a), short(b))));
                } else if let (Some(ao), Some(bo)) = (a.get("o"), b.get("o")) {
                    if depth < 40 {
                        cmp(ao, bo, &p, depth + 1, st, errs);
                    }
                }
            }
        } else {
            st.registers_with_strings += 1;
            if oe.len() > 1 {
                st.conflicted_with_strings += 1;
            }
            if strings.len() < oe.len() {
                st.string_vs_nonstring += 1;
            }
            if depth > 0 {
                st.nested += 1;
            }
            if typ == "list" {
                st.in_lists += 1;
            }
            let want = strings.last().unwrap()["v"]["str"].as_str().unwrap_or("").to_string();
            let texts: Vec<&J> = me.iter().filter(|e| e.get("o").map(|o| o["type"] == "text").unwrap_or(false)).collect();
            let found = texts.iter().any(|t| t["o"]["text"].as_str() == Some(want.as_str()) && !oe.iter().any(|x| x["id"] == t["id"]));
            if !found {
                errs.push(("string-not-converted".into(), format!("{p}: had visible strings {} (highest id: {want:?}) but after migration holds {}", short(ov), short(mv))));
            }
        }
    }
}

impl Check for C40 {
    fn id(&self) -> &'static str {
        "C40"
    }
    fn cases(&self, tier: Tier) -> u64 {
        tier.pick(2000, 120_000)
    }
    fn rule(&self) -> String {
        "case = the save() of a seeded multi-replica history rich in string scalars (few keys so that string/string, string/int and string/object conflicts arise; strings in lists after deletions; strings in nested maps; empty and multi-unit strings; deleted strings), loaded with StringMigration::ConvertToText and compared register by register with the same bytes loaded without migration: no visible string scalar may remain in any map or list; a register that had visible strings must hold a new text object whose content is the highest-id visible string; every register without visible strings must keep exactly its values (recursively); text objects are untouched; a history without visible strings must load with identical heads. Non-trivial = a string in a conflicted register, in a list, or in a nested object; distinct by snapshot fingerprint.".into()
    }
    fn required_counters(&self) -> Vec<&'static str> {
        vec!["registers_with_strings", "conflicted_with_strings", "string_vs_nonstring_conflicts", "strings_in_nested_objects", "strings_in_lists", "histories_without_strings"]
    }
    fn run_case(&self, cx: &mut Ctx, case: u64, rng: &mut Rng) {
        let enc = enc_for(rng);
        let n = rng.range(2, 3);
        let no_strings = case % 6 == 5;
        let mut prof = Profile { keys: 2, marks: false, blocks: false, bulk: false, ..Profile::contention() };
        if no_strings {
            prof.exotic = false;
        }
        let mut w = World::new(rng, n, enc, prof);
        w.verbose = cx.verbose;
        if no_strings {
            // a history that never writes a string scalar: only counters/objects/deletes
            for _ in 0..rng.range(5, 30) {
                let r = rng.below(n);
                use automerge::transaction::Transactable;
                let k = format!("k{}", rng.below(2));
                match rng.below(4) {
                    0 => {
                        let _ = w.docs[r].put(automerge::ROOT, k, rng.below(100) as i64);
                    }
                    1 => {
                        let _ = w.docs[r].put_object(automerge::ROOT, k, automerge::ObjType::Map);
                    }
                    2 => {
                        let _ = w.docs[r].delete(automerge::ROOT, k);
                    }
                    _ => {
                        let b = (r + 1) % n;
                        w.merge(r, b);
                    }
                }
            }
        } else {
            w.run(rng, rng.clone().range(10, cx.tier.pick(60, 150)));
        }
        let mut m = w.merged();
        let bytes = m.save();
        let log = w.log.clone();
        let plain = match load_enc(&bytes, enc) {
            Ok(d) => d,
            Err(e) => {
                cx.violation("load-of-save-failed", format!("load(save()) failed: {e}"), json!({}));
                return;
            }
        };
        let mig = match catch(|| AutoCommit::load_with_options(&bytes, LoadOptions::new().text_encoding(enc).migrate_strings(StringMigration::ConvertToText))) {
            Ok(Ok(d)) => d,
            Ok(Err(e)) => {
                cx.violation("migration-load-failed", format!("load with ConvertToText failed on a valid save: {e}"), json!({"log": tail(&log, 20)}));
                return;
            }
            Err(p) => {
                cx.violation("migration-load-panicked", format!("load with ConvertToText panicked: {p}"), json!({"log": tail(&log, 20)}));
                return;
            }
        };
        let o = observe_opts(&plain, None, false);
        let g = observe_opts(&mig, None, true);
        if let Some(e) = g.core_errors().first() {
            cx.violation("read-inconsistency", format!("the migrated document reads inconsistently: {e}"), json!({"log": tail(&log, 20)}));
            return;
        }
        let mut st = St { registers_with_strings: 0, conflicted_with_strings: 0, string_vs_nonstring: 0, nested: 0, in_lists: 0 };
        let mut errs = vec![];
        cmp(&o.snap, &g.snap, "", 0, &mut st, &mut errs);
        // objects that are no longer reachable from the root are still readable through their ids
        // (and the migration converts the strings they hold): compare them as well
        let reachable: std::collections::BTreeSet<String> = o.objects.iter().map(|(i, _)| amv::obs::exid_str(i)).collect();
        for (id, typ) in w.gs.objs.iter() {
            if reachable.contains(&amv::obs::exid_str(id)) || plain.object_type(id).is_err() {
                continue;
            }
            cx.count("unreachable_objects_compared");
            let a = amv::obs::observe_from(&plain, None, id, *typ);
            let b = amv::obs::observe_from(&mig, None, id, *typ);
            cmp(&a.snap, &b.snap, &format!("<unreachable {}>", amv::obs::exid_str(id)), 1, &mut st, &mut errs);
        }
        if let Some((sig, what)) = errs.first() {
            cx.violation(sig, what.clone(), json!({"all": errs.iter().map(|e| e.1.clone()).take(6).collect::<Vec<_>>(), "encoding": enc_name(enc), "log": tail(&log, 30)}));
            return;
        }
        cx.add("registers_with_strings", st.registers_with_strings);
        cx.add("conflicted_with_strings", st.conflicted_with_strings);
        cx.add("string_vs_nonstring_conflicts", st.string_vs_nonstring);
        cx.add("strings_in_nested_objects", st.nested);
        cx.add("strings_in_lists", st.in_lists);
        let mut mig = mig;
        let mut plain = plain;
        if st.registers_with_strings == 0 {
            cx.count("histories_without_strings");
            if heads_sorted(&mut mig) != heads_sorted(&mut plain) {
                cx.violation("change-added-without-strings", "the history has no visible string scalar but the migrated load has different heads (a change was added)", json!({"log": tail(&log, 20)}));
                return;
            }
        } else {
            // the migrated document must stay a valid document
            if !check_h3(cx, &mig, "migrated") {
                return;
            }
            match load_enc(&mig.save(), enc) {
                Ok(mut l) => {
                    if let Some(d) = docs_differ(&mut mig, &mut l) {
                        cx.violation("migrated-reload-differs", format!("load(save(migrated)) differs: {d}"), json!({}));
                        return;
                    }
                }
                Err(e) => {
                    cx.violation("migrated-cannot-reload", format!("save() of the migrated document does not load: {e}"), json!({}));
                    return;
                }
            }
        }
        if st.conflicted_with_strings > 0 || st.in_lists > 0 || st.nested > 0 {
            cx.nontrivial(amv::obs::fingerprint(&o.snap));
        }
        cx.sample(|| json!({"encoding": enc_name(enc), "registers_with_strings": st.registers_with_strings, "conflicted": st.conflicted_with_strings, "in_lists": st.in_lists, "nested": st.nested}));
    }
}
