//! C25 — rich-text marks follow Peritext semantics and agree across reads.
use amv::fw::*;
use amv::gen::{ancestors, new_doc, Profile, World};
use amv::obs::{enc_name, enc_width, exid_str, first_diff, observe, observe_opts};
use amv::refint::ref_snapshot;
use amv::util::*;
use automerge::marks::{ExpandMark, Mark};
use automerge::transaction::Transactable;
use automerge::{AutoCommit, Change, ChangeHash, ObjType, ReadDoc, ROOT};
use serde_json::{json, Value as J};
use std::collections::BTreeMap;

pub struct C25;

/// all text objects' marks of a snapshot: id -> canonical mark list
fn marks_of(snap: &J, out: &mut BTreeMap<String, J>) {
    match snap {
        J::Object(m) => {
            if m.get("type").and_then(|t| t.as_str()) == Some("text") {
                out.insert(m["id"].as_str().unwrap_or("").to_string(), m["marks"].clone());
            }
            for v in m.values() {
                marks_of(v, out);
            }
        }
        J::Array(a) => {
            for v in a {
                marks_of(v, out);
            }
        }
        _ => {}
    }
}

fn compare_with_ref(cx: &mut Ctx, label: &str, d: &AutoCommit, heads: Option<&[ChangeHash]>, changes: &[Change], enc: automerge::TextEncoding, log: &[String]) -> bool {
    let o = observe(d, heads);
    let me = o.mark_errors();
    if let Some(e) = me.first() {
        cx.violation("mark-reads-disagree", format!("{label}: {e}"), json!({"errors": me, "encoding": enc_name(enc), "log": tail(log, 30)}));
        return false;
    }
    let (rs, errs, stats) = ref_snapshot(changes, enc);
    if !errs.is_empty() {
        return true;
    }
    cx.add("mark_ops_interpreted", stats.mark_ops);
    let (mut a, mut b) = (BTreeMap::new(), BTreeMap::new());
    marks_of(&o.snap, &mut a);
    marks_of(&rs, &mut b);
    for (id, ma) in &a {
        cx.count("texts_compared_with_ref");
        if let Some(mb) = b.get(id) {
            if ma != mb {
                let overlapping = mb.as_array().map(|v| v.len() >= 2).unwrap_or(false);
                if overlapping {
                    cx.count("texts_with_2plus_marks");
                }
                cx.violation(
                    if heads.is_some() { "marks-differ-from-peritext|historical" } else { "marks-differ-from-peritext" },
                    format!("{label}: text {id}: marks() = {ma} but the highest-id covering mark per name gives {mb}"),
                    json!({"encoding": enc_name(enc), "log": tail(log, 40)}),
                );
                return false;
            }
            if mb.as_array().map(|v| v.len() >= 2).unwrap_or(false) {
                cx.count("texts_with_2plus_marks");
            }
        }
    }
    true
}

impl Check for C25 {
    fn id(&self) -> &'static str {
        "C25"
    }
    fn cases(&self, tier: Tier) -> u64 {
        tier.pick(2400, 100_000)
    }
    fn rule(&self) -> String {
        "case (even) = a seeded multi-replica history of text edits interleaved with mark/unmark calls (3 names, overlapping ranges, all four expand settings, null values, concurrent marks, deletes of marked text and of anchor neighbours, blocks) and merges; on every replica, the merged document, its reload and at up to 3 historical head sets: marks(), get_marks(i) at sampled positions, the marks of spans() must agree with each other, marks_at(current heads) (walked path) must equal marks() (indexed path), and all must equal the marking computed by the independent interpreter (highest-id active mark per name at each position; null = unmarked). case (odd) = boundary growth: on a fresh text one mark with a known ExpandMark over [a,b); text is then inserted exactly at a and exactly at b (same replica, another replica + merge) and must be covered iff expand-before / expand-after; on a non-expanding side the neighbouring character beyond the boundary is deleted in half of the cases (optionally carrying a mark of another name that thereby collapses) — inserted text must still not be covered; on an expanding side a deleted neighbour makes the outcome ambiguous and is not generated. History cases additionally plant a nested-marks motif (inner X, covering Y, newer X that outlives the inner one). Non-trivial = ≥2 marks of one text or a judged boundary insert; distinct by (mark layout, text).".into()
    }
    fn required_counters(&self) -> Vec<&'static str> {
        vec!["texts_compared_with_ref", "texts_with_2plus_marks", "marks_at_vs_marks", "historical_mark_comparisons", "boundary_inserts_judged", "boundary_expand_before", "boundary_expand_after", "boundary_expand_none", "boundary_expand_both", "nested_mark_motifs", "boundary_neighbour_deleted", "boundary_collapsed_neighbour_mark"]
    }
    fn run_case(&self, cx: &mut Ctx, case: u64, rng: &mut Rng) {
        let enc = enc_for(rng);
        if case % 2 == 1 {
            return boundary_case(cx, rng, enc);
        }
        let n = rng.range(2, 3);
        let prof = Profile { lists: false, counters: false, nested: false, keys: 1, exotic: false, bulk: false, ..Profile::contention() };
        let mut w = World::new(rng, n, enc, prof);
        w.verbose = cx.verbose;
        let steps = rng.range(10, cx.tier.pick(70, 200));
        for _ in 0..steps / 2 {
            w.step(rng);
        }
        if rng.chance(60) {
            // nested marks motif on the shared text: an inner mark of name X, a covering mark of
            // another name, then a newer X mark that starts before the inner one and outlives it —
            // the inner X ends while the newer X (and the other name) are still open
            cx.count("nested_mark_motifs");
            let r = rng.below(n);
            let t = w.gs.objs[0].0.clone();
            let b = amv::gen::GenState::boundaries(&w.docs[r], &t);
            if b.len() >= 6 {
                let k = b.len() - 1;
                let i = rng.range(2, k - 2);
                let j = rng.range(i + 1, k - 1);
                let lo = rng.range(0, i - 1);
                let names = [("link", "it"), ("bold", "link"), ("it", "bold")];
                let (x, y) = *rng.pick(&names);
                let ex = |rng: &mut Rng| *rng.pick(&[ExpandMark::Before, ExpandMark::After, ExpandMark::Both, ExpandMark::None]);
                let d = &mut w.docs[r];
                let _ = d.mark(&t, Mark::new(x.into(), "v1", b[i], b[j]), ex(rng));
                let _ = d.mark(&t, Mark::new(y.into(), true, b[0], b[k]), ex(rng));
                let _ = d.mark(&t, Mark::new(x.into(), "v2", b[lo], b[k]), ex(rng));
                w.logln(format!("R{r}: nested marks motif {x}[{}..{}) {y}[{}..{}) {x}[{}..{})", b[i], b[j], b[0], b[k], b[lo], b[k]));
                w.commit(r);
            }
        }
        for _ in steps / 2..steps {
            w.step(rng);
        }
        for r in 0..n {
            w.commit(r);
        }
        w.collect();
        let log = w.log.clone();
        let all = w.ledger.clone();
        let topo = w.topo_changes();
        let mut docs: Vec<(String, AutoCommit)> = w.docs.iter().enumerate().map(|(i, d)| (format!("replica {i}"), d.clone())).collect();
        let mut m = w.merged();
        match load_enc(&m.save(), enc) {
            Ok(l) => docs.push(("reload of merged".into(), l)),
            Err(e) => {
                cx.violation("load-of-save-failed", format!("load(save()) failed: {e}"), json!({}));
                return;
            }
        }
        docs.push(("merged".into(), m.clone()));
        let mut layout = 0u64;
        for (label, d) in docs.iter_mut() {
            d.commit();
            let changes = d.get_changes(&[]);
            if !compare_with_ref(cx, label, d, None, &changes, enc, &log) {
                return;
            }
            // walked path vs indexed path
            let heads = d.get_heads();
            let o = observe_opts(d, None, false);
            for (id, typ) in &o.objects {
                if *typ == ObjType::Text {
                    cx.count("marks_at_vs_marks");
                    let a = d.marks(id).map(|v| format!("{v:?}"));
                    let b = d.marks_at(id, &heads).map(|v| format!("{v:?}"));
                    if a.as_ref().ok() != b.as_ref().ok() {
                        cx.violation("marks-vs-marks_at-current-heads", format!("{label}: text {}: marks() = {a:?} but marks_at(current heads) = {b:?}", exid_str(id)), json!({"encoding": enc_name(enc), "log": tail(&log, 40)}));
                        return;
                    }
                    layout ^= fnv(format!("{a:?}").as_bytes());
                }
            }
        }
        // historical
        let mut hs: Vec<Vec<ChangeHash>> = w.head_sets.iter().filter(|h| !h.is_empty()).cloned().collect();
        rng.shuffle(&mut hs);
        hs.truncate(3);
        for h in hs {
            cx.count("historical_mark_comparisons");
            let anc = ancestors(&all, &h);
            let chs: Vec<Change> = topo.iter().filter(|c| anc.contains(&c.hash())).cloned().collect();
            if !compare_with_ref(cx, "merged at historical heads", &m, Some(&h), &chs, enc, &log) {
                return;
            }
        }
        cx.nontrivial(layout ^ fnv(&m.save()));
        cx.sample(|| json!({"kind": "history", "encoding": enc_name(enc), "marks_of_shared_text": m.marks(&w.gs.objs[0].0).map(|v| v.iter().map(|x| format!("{}..{} {}={:?}", x.start, x.end, x.name(), x.value())).collect::<Vec<_>>()).unwrap_or_default()}));
    }
}

fn covered(d: &AutoCommit, t: &automerge::ObjId, pos: usize, name: &str) -> bool {
    d.marks(t).map(|ms| ms.iter().any(|m| m.name() == name && m.start <= pos && pos < m.end)).unwrap_or(false)
}

fn boundary_case(cx: &mut Ctx, rng: &mut Rng, enc: automerge::TextEncoding) {
    let mut d = new_doc(enc, 0);
    let t = d.put_object(ROOT, "t", ObjType::Text).unwrap();
    let base = ["a", "b", "é", "c", "😀", "d", "e", "f"];
    let s: String = base.concat();
    d.splice_text(&t, 0, 0, &s).unwrap();
    d.commit();
    // element boundaries
    let mut b = vec![0usize];
    for g in base {
        b.push(b.last().unwrap() + enc_width(enc, g));
    }
    let i = rng.range(1, 3);
    let j = rng.range(i + 1, 6);
    let (start, end) = (b[i], b[j]);
    let ex = *rng.pick(&[ExpandMark::Before, ExpandMark::After, ExpandMark::Both, ExpandMark::None]);
    let exname = match ex {
        ExpandMark::Before => "before",
        ExpandMark::After => "after",
        ExpandMark::Both => "both",
        ExpandMark::None => "none",
    };
    d.mark(&t, Mark::new("bold".into(), true, start, end), ex).unwrap();
    d.commit();
    // optional noise that must not matter: a different-name mark elsewhere, edits strictly inside
    if rng.chance(40) {
        let _ = d.mark(&t, Mark::new("it".into(), true, b[0], b[1]), ExpandMark::None);
    }
    let remote = rng.chance(50);
    let at_end = rng.chance(50);
    // On a non-expanding side the anchor belongs to the marked character itself, so the characters on
    // the other side of the boundary may be deleted (with or without a collapsed mark of another name
    // on them) without changing the answer: text inserted there is never covered. (On an expanding
    // side the anchor belongs to the neighbour and deleting it makes the outcome ambiguous: not generated.)
    let non_expanding_side = if at_end { !ex.after() } else { !ex.before() };
    if non_expanding_side && rng.chance(50) {
        let (lo, hi) = if at_end { (end, b[(j + 1).min(base.len())]) } else { (b[i - 1], start) };
        if hi > lo {
            cx.count("boundary_neighbour_deleted");
            if rng.chance(60) {
                let ex2 = *rng.pick(&[ExpandMark::Before, ExpandMark::Both, ExpandMark::After, ExpandMark::None]);
                let _ = d.mark(&t, Mark::new("em".into(), true, lo, hi), ex2);
                cx.count("boundary_collapsed_neighbour_mark");
            }
            d.commit();
            let _ = d.splice_text(&t, lo, (hi - lo) as isize, "");
            d.commit();
            // the deleted neighbour was before the mark: everything shifts left
            if !at_end {
                let w0 = hi - lo;
                return boundary_finish(cx, rng, enc, d, t, base.to_vec(), b.iter().map(|x| if *x >= hi { x - w0 } else { *x }).collect(), Some(i - 1), start - w0, end - w0, ex, exname, remote, at_end);
            }
            let w0 = hi - lo;
            return boundary_finish(cx, rng, enc, d, t, base.to_vec(), b.iter().enumerate().map(|(k, x)| if k > j { x - w0 } else { *x }).collect(), Some(j), start, end, ex, exname, remote, at_end);
        }
    }
    boundary_finish(cx, rng, enc, d, t, base.to_vec(), b, None, start, end, ex, exname, remote, at_end)
}

#[allow(clippy::too_many_arguments)]
fn boundary_finish(cx: &mut Ctx, rng: &mut Rng, enc: automerge::TextEncoding, mut d: AutoCommit, t: automerge::ObjId, base: Vec<&str>, b: Vec<usize>, deleted_elem: Option<usize>, start: usize, end: usize, ex: ExpandMark, exname: &str, remote: bool, at_end: bool) {
    let _ = rng;
    let ins = "ZZ";
    let w = enc_width(enc, ins);
    let mut editor = if remote { d.fork().with_actor(amv::gen::actor(1)) } else { d.clone() };
    let pos = if at_end { end } else { start };
    if let Err(e) = editor.splice_text(&t, pos, 0, ins) {
        cx.violation("valid-call-rejected|splice_text", format!("splice_text at a mark boundary failed: {e}"), json!({}));
        return;
    }
    editor.commit();
    let mut fin = if remote {
        let mut x = d.clone();
        x.merge(&mut editor).unwrap();
        x
    } else {
        editor
    };
    fin.commit();
    cx.count("boundary_inserts_judged");
    cx.count(&format!("boundary_expand_{exname}"));
    let expect = if at_end { ex.after() } else { ex.before() };
    let got = covered(&fin, &t, pos, "bold") && covered(&fin, &t, pos + w - 1, "bold");
    let got_any = covered(&fin, &t, pos, "bold") || covered(&fin, &t, pos + w - 1, "bold");
    if expect != got || got != got_any {
        cx.violation(
            &format!("boundary-growth|{}|{}", if at_end { "end" } else { "start" }, exname),
            format!("mark bold over {start}..{end} with ExpandMark::{ex:?}; text inserted at its {} ({}) is covered={got_any}, expected {expect}", if at_end { "end" } else { "start" }, if remote { "by another replica, merged" } else { "locally" }),
            json!({"encoding": enc_name(enc), "marks": fin.marks(&t).map(|v| v.iter().map(|x| format!("{}..{} {}", x.start, x.end, x.name())).collect::<Vec<_>>()).unwrap_or_default(), "text": fin.text(&t).unwrap_or_default()}),
        );
        return;
    }
    // the rest of the mark is unchanged: original characters keep their marking
    let shift = |p: usize| if p >= pos { p + w } else { p };
    for k in 0..base.len() {
        if deleted_elem == Some(k) {
            continue;
        }
        let was = b[k] >= start && b[k] < end;
        let now = covered(&fin, &t, shift(b[k]), "bold");
        if was != now {
            cx.violation("boundary-insert-changed-other-chars", format!("after inserting at a mark boundary, character {k} changed its marking from {was} to {now}"), json!({"encoding": enc_name(enc)}));
            return;
        }
    }
    // reads agree
    let o = observe(&fin, None);
    if let Some(e) = o.mark_errors().first() {
        cx.violation("mark-reads-disagree", format!("boundary scenario: {e}"), json!({"encoding": enc_name(enc)}));
        return;
    }
    let _ = first_diff;
    cx.nontrivial(fnv(format!("{exname}{at_end}{remote}{start}{end}{}", enc_name(enc)).as_bytes()));
    cx.sample(|| json!({"kind": "boundary", "encoding": enc_name(enc), "expand": exname, "range": [start, end], "insert_at": pos, "remote": remote, "covered": got}));
}
