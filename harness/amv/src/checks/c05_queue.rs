//! C05 — changes with missing dependencies are held back until they become ready.
use amv::fw::*;
use amv::gen::{Profile, World};
use amv::obs::{enc_name, first_diff, observe_opts, strip_marks};
use amv::refint::ref_snapshot;
use amv::util::*;
use automerge::sync::{self, SyncDoc};
use automerge::{AutoCommit, Change, ChangeHash, ReadDoc};
use serde_json::json;
use std::collections::{BTreeMap, BTreeSet};

pub struct C05;

fn closed_subset(delivered: &BTreeSet<ChangeHash>, all: &BTreeMap<ChangeHash, Change>) -> BTreeSet<ChangeHash> {
    // largest subset of `delivered` whose members have all their deps in the subset
    let mut a = delivered.clone();
    loop {
        let bad: Vec<ChangeHash> = a.iter().filter(|h| all[*h].deps().iter().any(|d| !a.contains(d))).copied().collect();
        if bad.is_empty() {
            return a;
        }
        for b in bad {
            a.remove(&b);
        }
    }
}

fn heads_of(a: &BTreeSet<ChangeHash>, all: &BTreeMap<ChangeHash, Change>) -> Vec<ChangeHash> {
    let mut h = a.clone();
    for x in a {
        for d in all[x].deps() {
            h.remove(d);
        }
    }
    h.into_iter().collect()
}

fn expected_missing(queued: &BTreeSet<ChangeHash>, applied: &BTreeSet<ChangeHash>, all: &BTreeMap<ChangeHash, Change>, heads: &[ChangeHash]) -> BTreeSet<ChangeHash> {
    let mut m = BTreeSet::new();
    for q in queued {
        for d in all[q].deps() {
            if !applied.contains(d) && !queued.contains(d) {
                m.insert(*d);
            }
        }
    }
    for h in heads {
        if !applied.contains(h) && !queued.contains(h) {
            m.insert(*h);
        }
    }
    m
}

impl Check for C05 {
    fn id(&self) -> &'static str {
        "C05"
    }
    fn cases(&self, tier: Tier) -> u64 {
        tier.pick(1500, 100_000)
    }
    fn rule(&self) -> String {
        "case = the change set of a seeded multi-replica history (3–60 changes) delivered to an empty document in a chosen order (reversed, random permutation, random partition into batches, partial subsets; for sets ≤5 every case index enumerates a different permutation) through apply_changes (single and batched), load_incremental of raw change chunks and hand-built sync messages. After every delivery the harness computes the causally closed part A of the delivered set and expects: applied change set = A, heads = heads(A), OBS = REF(A) (independent interpreter), queued changes (extra chunks of save{retain_orphans}) = delivered \\ A, get_missing_deps(&[]) and get_missing_deps(extra heads incl. unknown hashes) = exactly the needed hashes that are neither applied nor queued. Non-trivial = ≥1 delivery that queued and ≥1 delivery that released ≥2 changes at once; distinct by delivery-order hash.".into()
    }
    fn required_counters(&self) -> Vec<&'static str> {
        vec!["deliveries", "deliveries_that_queued", "deliveries_releasing_2plus", "via_apply_single", "via_apply_batch", "via_load_incremental", "via_sync_message", "missing_deps_checks", "partial_subset_cases"]
    }
    fn run_case(&self, cx: &mut Ctx, case: u64, rng: &mut Rng) {
        let enc = enc_for(rng);
        let n = rng.range(2, 4);
        let mut w = World::new(rng, n, enc, Profile::no_blocks());
        w.verbose = cx.verbose;
        let steps = rng.range(6, cx.tier.pick(50, 160));
        w.run(rng, steps);
        let all: BTreeMap<ChangeHash, Change> = w.ledger.clone();
        let topo = w.topo_changes();
        // delivery plan
        let mut order: Vec<Change> = topo.clone();
        let mode = case % 5;
        match mode {
            0 => order.reverse(),
            1 | 2 => rng.shuffle(&mut order),
            3 => {
                // partial subset: drop 1–3 random changes (never delivered)
                rng.shuffle(&mut order);
                let k = rng.range(1, 3.min(order.len().saturating_sub(1)).max(1));
                order.truncate(order.len().saturating_sub(k).max(1));
                cx.count("partial_subset_cases");
            }
            _ => {
                // mostly-topological with a few displaced changes
                for _ in 0..rng.range(1, 4) {
                    if order.len() >= 2 {
                        let i = rng.below(order.len());
                        let c = order.remove(i);
                        let j = rng.below(order.len() + 1);
                        order.insert(j, c);
                    }
                }
            }
        }
        let mut doc = fresh(enc, 40);
        let mut sync_state = sync::State::new();
        let mut delivered: BTreeSet<ChangeHash> = BTreeSet::new();
        let mut applied_prev: BTreeSet<ChangeHash> = BTreeSet::new();
        let mut i = 0;
        let mut queued_once = false;
        let mut released_many = false;
        let mut order_sig = 0u64;
        let topo_index: BTreeMap<ChangeHash, usize> = topo.iter().enumerate().map(|(i, c)| (c.hash(), i)).collect();
        while i < order.len() {
            let k = if rng.chance(65) { 1 } else { rng.range(2, 5.min(order.len() - i).max(2)).min(order.len() - i) };
            let batch: Vec<Change> = order[i..i + k].to_vec();
            i += k;
            for c in &batch {
                delivered.insert(c.hash());
                order_sig = order_sig.rotate_left(3) ^ u64::from_le_bytes(c.hash().0[..8].try_into().unwrap());
            }
            let via = rng.below(4);
            let res: Result<(), String> = match via {
                0 if batch.len() == 1 => {
                    cx.count("via_apply_single");
                    doc.apply_changes(batch.clone()).map_err(|e| e.to_string())
                }
                0 | 1 => {
                    cx.count("via_apply_batch");
                    doc.apply_changes(batch.clone()).map_err(|e| e.to_string())
                }
                2 => {
                    cx.count("via_load_incremental");
                    let mut bytes = vec![];
                    for c in &batch {
                        bytes.extend_from_slice(c.raw_bytes());
                    }
                    doc.load_incremental(&bytes).map(|_| ()).map_err(|e| e.to_string())
                }
                _ => {
                    cx.count("via_sync_message");
                    let msg = sync::Message {
                        heads: vec![],
                        need: vec![],
                        have: vec![],
                        changes: batch.iter().map(|c| c.raw_bytes().to_vec()).collect::<Vec<_>>().into(),
                        flags: None,
                        version: sync::MessageVersion::V1,
                    };
                    match sync::Message::decode(&msg.encode()) {
                        Ok(m) => doc.sync().receive_sync_message(&mut sync_state, m).map_err(|e| e.to_string()),
                        Err(e) => Err(format!("hand-built message does not decode: {e}")),
                    }
                }
            };
            cx.count("deliveries");
            if let Err(e) = res {
                cx.violation("delivery-of-valid-changes-failed", format!("delivering valid changes (via path {via}) failed: {e}"), json!({"log": tail(&w.log, 30)}));
                return;
            }
            let a = closed_subset(&delivered, &all);
            let queued_expect: BTreeSet<ChangeHash> = delivered.difference(&a).copied().collect();
            if !queued_expect.is_empty() {
                queued_once = true;
                cx.count("deliveries_that_queued");
            }
            if a.len() >= applied_prev.len() + 2 && k == 1 {
                released_many = true;
                cx.count("deliveries_releasing_2plus");
            }
            let detail = |extra: serde_json::Value| json!({"delivered": delivered.len(), "expected_applied": a.len(), "via": via, "mode": mode, "extra": extra, "order_positions": order[..i].iter().map(|c| topo_index[&c.hash()]).collect::<Vec<_>>()});
            // applied set
            let got: BTreeSet<ChangeHash> = doc.get_changes(&[]).iter().map(|c| c.hash()).collect();
            if got != a {
                let early: Vec<ChangeHash> = got.difference(&a).copied().collect();
                let late: Vec<ChangeHash> = a.difference(&got).copied().collect();
                let sig = if !early.is_empty() { "applied-with-missing-ancestor" } else { "ready-change-not-applied" };
                cx.violation(sig, format!("after a delivery the document holds {} applied changes, expected {}: {} applied although an ancestor is missing, {} ready but not applied", got.len(), a.len(), early.len(), late.len()), detail(json!({"early": hash_hex(&early), "late": hash_hex(&late)})));
                return;
            }
            for h in &queued_expect {
                if doc.get_change_by_hash(h).is_some() {
                    cx.violation("queued-change-visible", format!("get_change_by_hash returns held-back change {h}"), detail(json!({})));
                    return;
                }
            }
            let mut heads = doc.get_heads();
            heads.sort();
            let mut eh = heads_of(&a, &all);
            eh.sort();
            if heads != eh {
                cx.violation("heads-wrong", format!("heads {:?} differ from the heads of the applied prefix {:?}", hash_hex(&heads), hash_hex(&eh)), detail(json!({})));
                return;
            }
            // queue content
            let q: BTreeSet<ChangeHash> = queued_changes(&mut doc).iter().map(|c| c.hash()).collect();
            if q != queued_expect {
                cx.violation("queue-content-wrong", format!("pending queue holds {} changes, expected {} (delivered but not causally ready)", q.len(), queued_expect.len()), detail(json!({"lost": hash_hex(&queued_expect.difference(&q).copied().collect::<Vec<_>>()), "extra": hash_hex(&q.difference(&queued_expect).copied().collect::<Vec<_>>())})));
                return;
            }
            // missing deps
            cx.count("missing_deps_checks");
            let m: BTreeSet<ChangeHash> = doc.get_missing_deps(&[]).into_iter().collect();
            let em = expected_missing(&queued_expect, &a, &all, &[]);
            if m != em {
                cx.violation("missing-deps-wrong", format!("get_missing_deps(&[]) = {:?}, expected {:?}", hash_hex(&m.iter().copied().collect::<Vec<_>>()), hash_hex(&em.iter().copied().collect::<Vec<_>>())), detail(json!({})));
                return;
            }
            let mut extra: Vec<ChangeHash> = vec![];
            for _ in 0..rng.below(3) {
                extra.push(match rng.below(3) {
                    0 => ChangeHash([rng.next() as u8; 32]),
                    _ => topo[rng.below(topo.len())].hash(),
                });
            }
            let m2: BTreeSet<ChangeHash> = doc.get_missing_deps(&extra).into_iter().collect();
            let em2 = expected_missing(&queued_expect, &a, &all, &extra);
            if m2 != em2 {
                cx.violation("missing-deps-wrong|with-heads", format!("get_missing_deps({:?}) = {:?}, expected {:?}", hash_hex(&extra), hash_hex(&m2.iter().copied().collect::<Vec<_>>()), hash_hex(&em2.iter().copied().collect::<Vec<_>>())), detail(json!({})));
                return;
            }
            // state = REF(applied prefix)
            if a != applied_prev || i >= order.len() {
                let chs: Vec<Change> = a.iter().map(|h| all[h].clone()).collect();
                let (rs, errs, _) = ref_snapshot(&chs, enc);
                if errs.is_empty() {
                    let o = observe_opts(&doc, None, false);
                    cx.count("state_vs_ref_comparisons");
                    if let Some(d) = first_diff(&strip_marks(&o.snap), &strip_marks(&rs)) {
                        cx.violation("state-not-that-of-applied-prefix", format!("document (left) differs from the interpretation of the causally closed delivered prefix (right) {d}"), detail(json!({"log": tail(&w.log, 30)})));
                        return;
                    }
                }
            }
            if !check_h3(cx, &doc, "after delivery") {
                return;
            }
            applied_prev = a;
        }
        // final state does not depend on arrival order (full deliveries only)
        if mode != 3 {
            let mut m = w.merged();
            if let Some(d) = docs_differ(&mut m, &mut doc) {
                cx.violation("final-state-depends-on-order", format!("after all changes arrived the document differs from the merged replicas: {d}"), json!({"mode": mode, "log": tail(&w.log, 30)}));
                return;
            }
        }
        if queued_once && released_many {
            cx.nontrivial(order_sig);
        }
        cx.add("changes", topo.len() as u64);
        cx.sample(|| json!({"encoding": enc_name(enc), "changes": topo.len(), "mode": mode, "delivery_order_as_topological_positions": order.iter().map(|c| topo_index[&c.hash()]).collect::<Vec<_>>()}));
    }
}
