//! C02 — document state equals the op-based CRDT interpretation of its history.
use amv::fw::*;
use amv::gen::{Profile, World};
use amv::obs::{enc_name, first_diff, fingerprint, observe, strip_marks};
use amv::refint::ref_snapshot;
use amv::util::*;
use serde_json::json;

pub struct C02;

impl Check for C02 {
    fn id(&self) -> &'static str {
        "C02"
    }
    fn cases(&self, tier: Tier) -> u64 {
        tier.pick(3000, 200_000)
    }
    fn rule(&self) -> String {
        "case = a seeded multi-replica editing program (2–5 actors, few keys/objects, concurrent puts, inserts at equal indexes, deletes, increments, object replacement, text+marks, merges) run in 3 segments; after each segment every replica's OBS snapshot (get_all of every key/element with op ids, list/text order, counters, marks) must equal REF(get_changes) computed by the independent op interpreter. Non-trivial = the history has a conflicted register or concurrent sibling inserts; distinct by final snapshot fingerprint.".into()
    }
    fn assumptions(&self) -> Vec<String> {
        vec!["REF trusts Change::decode() to report each change's ops truthfully (monitored separately by C18/C10)".into()]
    }
    fn required_counters(&self) -> Vec<&'static str> {
        vec!["conflicted_registers", "concurrent_sibling_inserts", "deletes_of_conflicted", "increments_on_conflicted", "object_replacements"]
    }
    fn run_case(&self, cx: &mut Ctx, _case: u64, rng: &mut Rng) {
        let enc = enc_for(rng);
        let n = rng.range(2, cx.tier.pick(4, 5));
        let profile = match rng.below(4) {
            0 => Profile { keys: 2, text: false, marks: false, blocks: false, ..Profile::contention() },
            1 => Profile { counters: true, keys: 2, ..Profile::contention() },
            _ => Profile { text_elem_ops: rng.clone().chance(50), ..Profile::contention() },
        };
        let mut w = World::new(rng, n, enc, profile);
        w.verbose = cx.verbose;
        let steps = rng.range(10, cx.tier.pick(40, 120));
        let mut nontrivial = false;
        let mut last_fp = 0;
        for seg in 0..3 {
            for _ in 0..steps {
                w.step(rng);
                if cx.verbose {
                    for (i, d) in w.docs.iter().enumerate() {
                        if let Err(e) = d.verif_check_invariants() {
                            eprintln!("  !! H3 fails on R{i} after this step: {e}");
                        }
                    }
                }
            }
            for r in 0..n {
                w.commit(r);
                let changes = w.docs[r].get_changes(&[]);
                let obs = observe(&w.docs[r], None);
                let (rs, rerrs, stats) = ref_snapshot(&changes, enc);
                cx.count("comparisons");
                cx.add("ops_interpreted", stats.ops);
                cx.add("conflicted_registers", stats.conflicted_registers);
                cx.add("concurrent_sibling_inserts", stats.concurrent_sibling_inserts);
                cx.add("deletes_of_conflicted", stats.deletes_of_conflicted);
                cx.add("increments_on_conflicted", stats.increments_on_conflicted);
                cx.add("object_replacements", stats.object_replacements);
                cx.add("mark_ops", stats.mark_ops);
                if stats.conflicted_registers > 0 || stats.concurrent_sibling_inserts > 0 {
                    nontrivial = true;
                }
                if !rerrs.is_empty() {
                    cx.violation("ref-cannot-interpret", format!("the reference interpreter cannot read the history: {}", rerrs[0]), json!({"errors": rerrs, "log": tail(&w.log, 30)}));
                    return;
                }
                let core = obs.core_errors();
                cx.add("mark_read_disagreements_left_to_C25", obs.mark_errors().len() as u64);
                if !core.is_empty() {
                    if cx.verbose {
                        let _ = std::fs::create_dir_all("/verif/out/dump");
                        let _ = std::fs::write("/verif/out/dump/viol.bin", w.docs[r].save());
                    }
                    cx.violation("read-inconsistency", format!("reads of one document disagree: {}", core[0]), json!({"errors": core, "encoding": enc_name(enc), "replica": r, "segment": seg, "log": tail(&w.log, 40)}));
                    return;
                }
                // marks are C25's subject: compared there, not here
                if let Some(d) = first_diff(&strip_marks(&obs.snap), &strip_marks(&rs)) {
                    cx.violation("state-differs-from-ref", format!("document (left) differs from the op-based interpretation (right) {d}"), json!({"diff": d, "encoding": enc_name(enc), "replica": r, "segment": seg, "changes": changes.len(), "log": tail(&w.log, 60)}));
                    return;
                }
                last_fp = fingerprint(&obs.snap);
            }
        }
        if nontrivial {
            cx.nontrivial(last_fp);
        }
        for (k, v) in w.gs.op_hist.clone() {
            cx.add(&format!("op_{k}"), v);
        }
        cx.sample(|| json!({"encoding": enc_name(enc), "replicas": n, "steps_per_segment": steps, "changes": w.ledger.len(), "program_tail": tail(&w.log, 12)}));
    }
}
