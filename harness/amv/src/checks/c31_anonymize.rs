//! C31 — anonymization preserves document shape.
use amv::fw::*;
use amv::gen::{Profile, World};
use amv::obs::{enc_name, first_diff, observe_opts};
use amv::util::*;
use automerge::{ActorId, AutoCommit, Change, ChangeHash};
use serde_json::{json, Value as J};
use std::collections::{BTreeMap, BTreeSet};

pub struct C31;

/// shape of an OBS snapshot: object types, number of keys and nesting (key names dropped, children
/// as a sorted multiset), sequence lengths and order, text widths, conflict multiplicities
fn shape(o: &J) -> J {
    shape_opt(o, true)
}

/// with `widths` off, text objects are reduced to their element count and per-element structure
fn shape_opt(o: &J, widths: bool) -> J {
    let entry = |es: &J| -> J {
        let a = es.as_array().cloned().unwrap_or_default();
        let kids: Vec<J> = a.iter().map(|e| e.get("o").map(|x| shape_opt(x, widths)).unwrap_or(J::Null)).collect();
        json!({"values": a.len(), "kids": kids})
    };
    match o["type"].as_str().unwrap_or("") {
        "map" | "table" => {
            let mut regs: Vec<J> = o["map"].as_object().map(|m| m.values().map(&entry).collect()).unwrap_or_default();
            regs.sort_by_key(|r| r.to_string());
            json!({"t": o["type"], "keys": regs.len(), "regs": regs})
        }
        "list" => json!({"t": "list", "len": o["seq"].as_array().map(|a| a.len()).unwrap_or(0), "elems": o["seq"].as_array().map(|a| a.iter().map(&entry).collect::<Vec<_>>()).unwrap_or_default()}),
        "text" if !widths => json!({"t": "text", "elems": o["seq"].as_array().map(|a| a.iter().map(|e| entry(&e["vals"])).collect::<Vec<_>>()).unwrap_or_default()}),
        "text" => json!({"t": "text", "width": o["len"], "elems": o["seq"].as_array().map(|a| a.iter().map(|e| json!({"at": e["at"], "v": entry(&e["vals"])})).collect::<Vec<_>>()).unwrap_or_default(), "marks": mark_coverage(&o["marks"])}),
        _ => J::Null,
    }
}

/// per mark name the set of covered positions, as a sorted multiset (names are renamed and values
/// re-drawn by anonymization, so adjacent equal-valued marks may split: only coverage is shape)
fn mark_coverage(marks: &J) -> J {
    let mut by: BTreeMap<String, BTreeSet<u64>> = BTreeMap::new();
    for m in marks.as_array().cloned().unwrap_or_default() {
        let e = by.entry(m[2].as_str().unwrap_or("").to_string()).or_default();
        for p in m[0].as_u64().unwrap_or(0)..m[1].as_u64().unwrap_or(0) {
            e.insert(p);
        }
    }
    let mut v: Vec<String> = by.values().map(|s| format!("{s:?}")).collect();
    v.sort();
    json!(v)
}

type Key = (usize, u64);

fn graph(changes: &[Change]) -> (BTreeMap<Key, (usize, u64, BTreeSet<Key>)>, BTreeMap<ChangeHash, Key>, BTreeMap<Key, ChangeHash>) {
    let actors: BTreeSet<ActorId> = changes.iter().map(|c| c.actor_id().clone()).collect();
    let rank: BTreeMap<ActorId, usize> = actors.into_iter().enumerate().map(|(i, a)| (a, i)).collect();
    let by_hash: BTreeMap<ChangeHash, Key> = changes.iter().map(|c| (c.hash(), (rank[c.actor_id()], c.seq()))).collect();
    let mut g = BTreeMap::new();
    let mut back = BTreeMap::new();
    for c in changes {
        let k = by_hash[&c.hash()];
        let deps: BTreeSet<Key> = c.deps().iter().filter_map(|d| by_hash.get(d).copied()).collect();
        g.insert(k, (c.len(), u64::from(c.start_op()), deps));
        back.insert(k, c.hash());
    }
    (g, by_hash, back)
}

impl Check for C31 {
    fn id(&self) -> &'static str {
        "C31"
    }
    fn cases(&self, tier: Tier) -> u64 {
        tier.pick(1500, 100_000)
    }
    fn rule(&self) -> String {
        "case = the merged document (and one replica) of a seeded multi-replica history with text, marks, blocks, counters, nested objects and conflicts is anonymized; checked: anonymize returns Ok without panicking; the change graphs are isomorphic under the (actor rank, seq) mapping — same set of (rank, seq), same op count and start op per change, same dependency sets; at the current heads and at up to 4 historical head sets (mapped through the change correspondence) the shapes are equal: object types, number of keys and nesting, sequence lengths, text widths in the encoding, mark ranges, conflict multiplicities; load(save(anonymized)) succeeds and equals it; H3 holds. Every 40th case instead anonymizes a document made by 258–330 actors with random ids, each with a concurrent put of a random value kind on one key and a concurrent insert at the head of one list (actor order decides the winner and the element order, so a replacement-actor order that differs from the original shows as a shape difference). Non-trivial = ≥2 actors and text/marks/counters/conflicts present; distinct by shape hash.".into()
    }
    fn required_counters(&self) -> Vec<&'static str> {
        vec!["documents_anonymized", "changes_matched", "historical_shapes_compared", "with_conflicts", "with_marks", "many_actor_documents"]
    }
    fn run_case(&self, cx: &mut Ctx, _case: u64, rng: &mut Rng) {
        let enc = enc_for(rng);
        if _case % 40 == 7 {
            // actor order past one byte of rank: > 256 actors, each with a concurrent put on one
            // key and a concurrent insert at the head of one list, value types chosen at random,
            // so the winner's type and the element order identify the actor order
            let mut d = many_actors(rng, enc, rng.clone().range(258, 330));
            cx.count("many_actor_documents");
            self.check_docs(cx, rng, enc, vec![d.clone(), d.fork()], &[], vec!["many-actor document".into()]);
            return;
        }
        let n = rng.range(2, 4);
        let mut w = World::new(rng, n, enc, Profile::contention());
        w.verbose = cx.verbose;
        w.run(rng, rng.clone().range(8, cx.tier.pick(60, 160)));
        let log = w.log.clone();
        let docs: Vec<AutoCommit> = vec![w.merged(), w.docs[0].clone()];
        self.check_docs(cx, rng, enc, docs, &w.head_sets, log);
        cx.sample(|| json!({"encoding": enc_name(enc), "replicas": n, "changes": w.ledger.len()}));
    }
}

/// one base document, `n` forks with random actor ids, each making one put on the same key and one
/// insert at the head of the same list with a value of a random kind, all merged
fn many_actors(rng: &mut Rng, enc: automerge::TextEncoding, n: usize) -> AutoCommit {
    use automerge::transaction::Transactable;
    use automerge::{ObjType, ROOT};
    let mut base = amv::gen::new_doc(enc, 0);
    let l = base.put_object(ROOT, "l", ObjType::List).unwrap();
    base.put(ROOT, "k", 0).unwrap();
    base.commit();
    let mut forks = vec![];
    for i in 0..n {
        let mut id = rng.bytes(rng.clone().range(1, 16));
        id.push((i % 251) as u8);
        id.push((i / 251) as u8);
        let mut f = base.fork().with_actor(ActorId::from(id));
        for target in 0..2 {
            let kind = rng.below(7);
            macro_rules! set {
                ($v:expr) => {
                    if target == 0 {
                        f.put(ROOT, "k", $v).unwrap();
                    } else {
                        f.insert(&l, 0, $v).unwrap();
                    }
                };
            }
            match kind {
                0 => set!(i as i64),
                1 => set!(format!("s{i}")),
                2 => set!(i % 2 == 0),
                3 => set!(i as f64 + 0.5),
                4 => set!(automerge::ScalarValue::counter(i as i64)),
                5 => set!(automerge::ScalarValue::Bytes(vec![1, 2, 3])),
                _ => {
                    let t = [ObjType::Map, ObjType::List, ObjType::Text][i % 3];
                    if target == 0 {
                        f.put_object(ROOT, "k", t).unwrap();
                    } else {
                        f.insert_object(&l, 0, t).unwrap();
                    }
                }
            }
        }
        f.commit();
        forks.push(f);
    }
    for f in forks.iter_mut() {
        base.merge(f).unwrap();
    }
    base
}

impl C31 {
    fn check_docs(&self, cx: &mut Ctx, rng: &mut Rng, enc: automerge::TextEncoding, mut docs: Vec<AutoCommit>, head_sets: &[Vec<ChangeHash>], log: Vec<String>) {
        for d in docs.iter_mut() {
            d.commit();
            cx.count("documents_anonymized");
            let mut anon = match catch(|| d.anonymize()) {
                Ok(Ok(a)) => a,
                Ok(Err(e)) => {
                    cx.violation("anonymize-failed", format!("anonymize returned an error on a valid document: {e}"), json!({"log": tail(&log, 20)}));
                    return;
                }
                Err(p) => {
                    cx.violation(&format!("anonymize-panicked|{}", panic_sig_fn(&p)), format!("anonymize panicked: {p}"), json!({"log": tail(&log, 20)}));
                    return;
                }
            };
            let oc = d.get_changes(&[]);
            let ac = anon.get_changes(&[]);
            let (go, oh, _) = graph(&oc);
            let (ga, _, aback) = graph(&ac);
            if go.len() != ga.len() {
                cx.violation("change-count-differs", format!("original has {} changes, anonymized {}", go.len(), ga.len()), json!({"log": tail(&log, 20)}));
                return;
            }
            for (k, v) in &go {
                cx.count("changes_matched");
                match ga.get(k) {
                    Some(av) if av == v => {}
                    Some(av) => {
                        cx.violation("change-graph-not-isomorphic", format!("change (actor rank {}, seq {}): original (ops, start_op, deps) = {:?}, anonymized = {:?}", k.0, k.1, v, av), json!({"log": tail(&log, 20)}));
                        return;
                    }
                    None => {
                        cx.violation("change-graph-not-isomorphic", format!("change (actor rank {}, seq {}) has no counterpart in the anonymized document", k.0, k.1), json!({}));
                        return;
                    }
                }
            }
            // shapes at current and historical heads
            let mut heads_list: Vec<Option<Vec<ChangeHash>>> = vec![None];
            let known: BTreeSet<ChangeHash> = oc.iter().map(|c| c.hash()).collect();
            let mut hs: Vec<Vec<ChangeHash>> = head_sets.iter().filter(|h| !h.is_empty() && h.iter().all(|x| known.contains(x))).cloned().collect();
            rng.shuffle(&mut hs);
            hs.truncate(4);
            heads_list.extend(hs.into_iter().map(Some));
            let mut fp = 0;
            for h in heads_list {
                let (so, sa) = match &h {
                    None => (observe_opts(d, None, false), observe_opts(&anon, None, true)),
                    Some(h) => {
                        cx.count("historical_shapes_compared");
                        let mapped: Vec<ChangeHash> = h.iter().map(|x| aback[&oh[x]]).collect();
                        (observe_opts(d, Some(h), false), observe_opts(&anon, Some(&mapped), false))
                    }
                };
                if let Some(e) = sa.core_errors().first() {
                    cx.violation("read-inconsistency|anonymized", format!("the anonymized document reads inconsistently: {e}"), json!({"log": tail(&log, 20)}));
                    return;
                }
                if so.stats.conflicts > 0 {
                    cx.count("with_conflicts");
                }
                if so.stats.marks > 0 {
                    cx.count("with_marks");
                }
                let (a, b) = (shape(&so.snap), shape(&sa.snap));
                if let Some(diff) = first_diff(&a, &b) {
                    let leaf = diff.split(':').next().unwrap_or("").rsplit('/').next().unwrap_or("").to_string();
                    // in the grapheme encoding: is the difference confined to text widths / unit positions?
                    let only_widths = enc == automerge::TextEncoding::GraphemeCluster && shape_opt(&so.snap, false) == shape_opt(&sa.snap, false);
                    let class = if only_widths { "text-width|grapheme-encoding".to_string() } else { leaf };
                    cx.violation(&format!("shape-differs|{class}"), format!("shape of the original (left) vs anonymized (right) {diff}"), json!({"heads": h.as_ref().map(|h| hash_hex(h)), "encoding": enc_name(enc), "log": tail(&log, 30)}));
                    return;
                }
                fp ^= fnv(a.to_string().as_bytes());
            }
            if !check_h3(cx, &anon, "anonymized") {
                return;
            }
            match load_enc(&anon.save(), enc) {
                Ok(mut l) => {
                    if let Some(diff) = docs_differ(&mut anon, &mut l) {
                        cx.violation("anonymized-reload-differs", format!("load(save(anonymized)) differs: {diff}"), json!({}));
                        return;
                    }
                }
                Err(e) => {
                    cx.violation("anonymized-cannot-reload", format!("save() of the anonymized document does not load: {e}"), json!({}));
                    return;
                }
            }
            cx.nontrivial(fp);
        }
    }
}
