//! C29 — isolated transactions act on the chosen heads.
use super::c03_seq::drive;
use amv::fw::*;
use amv::gen::{actor, ancestors, Profile, World};
use amv::obs::{enc_name, first_diff, observe_opts, strip_marks};
use amv::refint::ref_snapshot;
use amv::util::*;
use automerge::transaction::CommitOptions;
use automerge::{AutoCommit, Automerge, Change, ChangeHash, LoadOptions, PatchLog};
use serde_json::json;
use std::collections::BTreeSet;

pub struct C29;

impl Check for C29 {
    fn id(&self) -> &'static str {
        "C29"
    }
    fn cases(&self, tier: Tier) -> u64 {
        tier.pick(2400, 100_000)
    }
    fn rule(&self) -> String {
        "case = a seeded multi-replica history; on one replica a head set H from its own history (strictly historical in most cases, incl. heads of concurrent branches) is chosen and either AutoCommit::isolate(H) or Automerge::transaction_at(H) is entered. Checked: (1) the reads under isolation equal fork_at(H) and REF(ancestors(H)); (2) 4–15 model-checked calls (SEQ seeded from the isolated view) have their documented effect on that view; (3) the committed changes depend only on H and the isolated chain, leave the non-isolated changes untouched, and are accepted (no error, no panic, no missing dependency, heads = last isolated change) by a document holding exactly ancestors(H), i.e. their ops reference nothing outside the scope; (4) after integrate() the document equals the independent interpretation of all its changes and equals a clone taken before isolation to which the isolated changes were applied. Non-trivial = H strictly historical and later changes touch the same objects; distinct by (history, H, edits).".into()
    }
    fn required_counters(&self) -> Vec<&'static str> {
        vec!["isolations", "strictly_historical", "variant_autocommit_isolate", "variant_transaction_at", "effects_compared", "isolated_changes_checked", "integrations_compared", "planted_conflicted_counter_scenarios", "applied_to_scope_only_document"]
    }
    fn run_case(&self, cx: &mut Ctx, case: u64, rng: &mut Rng) {
        let enc = enc_for(rng);
        let n = rng.range(2, 3);
        let mut w = World::new(rng, n, enc, Profile::contention());
        w.verbose = cx.verbose;
        w.run(rng, rng.clone().range(8, cx.tier.pick(50, 140)));
        w.merge(0, 1);
        // planted scenario (a third of the cases): a register that, at the heads H* to isolate at, is a
        // conflict of a counter and a non-counter, while the current document also holds a later,
        // concurrent value for it from outside H*; the isolated transaction starts by incrementing it
        let mut planted: Option<(Vec<ChangeHash>, String)> = None;
        if rng.chance(33) {
            use automerge::transaction::Transactable;
            let key = format!("p{}", rng.below(2));
            w.merge(1, 0);
            // either the counter or the plain value gets the greater op id
            let (cdoc, pdoc) = if rng.chance(50) { (0, 1) } else { (1, 0) };
            let _ = w.docs[cdoc].put(automerge::ROOT, key.as_str(), automerge::ScalarValue::counter(10));
            let _ = w.docs[pdoc].put(automerge::ROOT, key.as_str(), "plain");
            w.merge(0, 1);
            w.merge(1, 0);
            let hstar = w.docs[0].get_heads();
            if !w.head_sets.contains(&hstar) {
                w.head_sets.push(hstar.clone());
            }
            let _ = w.docs[1].put(automerge::ROOT, key.as_str(), 777);
            w.commit(1);
            w.merge(0, 1);
            w.collect();
            planted = Some((hstar, key));
            cx.count("planted_conflicted_counter_scenarios");
        }
        let log = w.log.clone();
        let all = w.ledger.clone();
        let mut doc = w.docs[0].clone();
        doc.commit();
        let known: BTreeSet<ChangeHash> = doc.get_changes(&[]).iter().map(|c| c.hash()).collect();
        let mut cands: Vec<Vec<ChangeHash>> = w.head_sets.iter().filter(|h| !h.is_empty() && h.iter().all(|x| known.contains(x))).cloned().collect();
        if cands.is_empty() {
            return;
        }
        rng.shuffle(&mut cands);
        let h = match &planted {
            Some((hs, _)) if hs.iter().all(|x| known.contains(x)) => hs.clone(),
            _ => cands[0].clone(),
        };
        let anc = ancestors(&all, &h);
        let strictly = anc.len() < known.len();
        cx.count("isolations");
        if strictly {
            cx.count("strictly_historical");
        }
        let topo = w.topo_changes();
        let chs: Vec<Change> = topo.iter().filter(|c| anc.contains(&c.hash())).cloned().collect();
        let (rs, rerrs, _) = ref_snapshot(&chs, enc);
        let before_clone = doc.clone();
        let mut counter = 9000i64;
        let k = rng.range(4, 15);
        let detail = |extra: String| json!({"heads": hash_hex(&h), "ancestors": anc.len(), "changes": known.len(), "encoding": enc_name(enc), "note": extra, "log": tail(&log, 25)});
        let new_changes: Vec<Change>;
        if case % 2 == 0 {
            cx.count("variant_autocommit_isolate");
            doc.isolate(&h);
            let o = observe_opts(&doc, None, true);
            if let Some(e) = o.core_errors().first() {
                cx.violation("read-inconsistency|isolated", format!("reads under isolate(H) disagree with each other: {e}"), detail(String::new()));
                return;
            }
            if rerrs.is_empty() {
                if let Some(d) = first_diff(&strip_marks(&o.snap), &strip_marks(&rs)) {
                    cx.violation("isolated-view-not-state-at-heads", format!("reads under isolate(H) (left) vs interpretation of ancestors(H) (right) {d}"), detail(String::new()));
                    return;
                }
            }
            match before_clone.clone().fork_at(&h) {
                Ok(f) => {
                    let fo = observe_opts(&f, None, false);
                    if let Some(d) = first_diff(&o.snap, &fo.snap) {
                        cx.violation("isolated-view-differs-from-fork", format!("reads under isolate(H) (left) vs fork_at(H) (right) {d}"), detail(String::new()));
                        return;
                    }
                }
                Err(e) => {
                    cx.violation("fork-at-failed", format!("fork_at(H) failed: {e}"), detail(String::new()));
                    return;
                }
            }
            if let Some((_, key)) = &planted {
                use automerge::transaction::Transactable;
                let _ = doc.increment(automerge::ROOT, key.as_str(), 2);
            }
            if !drive(cx, &mut doc, rng, enc, k, &mut counter, "isolated-autocommit", &log, 0) {
                return;
            }
            if cx.verbose {
                eprintln!("  ! invariants after isolated edits (open tx): {:?}", doc.verif_check_invariants());
            }
            doc.commit_with(CommitOptions::default().with_time(11));
            if cx.verbose {
                eprintln!("  ! invariants after isolated commit: {:?}", doc.verif_check_invariants());
            }
            // a second isolated commit on top
            if rng.chance(50) {
                if !drive(cx, &mut doc, rng, enc, 3, &mut counter, "isolated-autocommit-2", &log, 0) {
                    return;
                }
                doc.commit_with(CommitOptions::default().with_time(12));
            }
            if cx.verbose {
                eprintln!("  ! invariants before integrate: {:?}", doc.verif_check_invariants());
            }
            doc.integrate();
            if cx.verbose {
                eprintln!("  ! invariants after integrate: {:?}", doc.verif_check_invariants());
            }
            new_changes = doc.get_changes(&[]).into_iter().filter(|c| !known.contains(&c.hash())).collect();
        } else {
            cx.count("variant_transaction_at");
            let a = doc.get_actor().clone();
            let mut am = match Automerge::load_with_options(&doc.save(), LoadOptions::new().text_encoding(enc)) {
                Ok(d) => d.with_actor(a.clone()),
                Err(e) => {
                    cx.violation("load-of-save-failed", format!("load(save()) failed: {e}"), json!({}));
                    return;
                }
            };
            {
                let mut tx = match am.transaction_at(PatchLog::inactive(), &h) {
                    Ok(t) => t,
                    Err(e) => {
                        cx.violation("transaction-at-failed", format!("transaction_at(H) failed: {e}"), detail(String::new()));
                        return;
                    }
                };
                let o = observe_opts(&tx, None, true);
                if rerrs.is_empty() {
                    if let Some(d) = first_diff(&strip_marks(&o.snap), &strip_marks(&rs)) {
                        cx.violation("isolated-view-not-state-at-heads|transaction_at", format!("reads inside transaction_at(H) (left) vs interpretation of ancestors(H) (right) {d}"), detail(String::new()));
                        return;
                    }
                }
                if let Some((_, key)) = &planted {
                    use automerge::transaction::Transactable;
                    let _ = tx.increment(automerge::ROOT, key.as_str(), 2);
                }
                if !drive(cx, &mut tx, rng, enc, k, &mut counter, "transaction_at", &log, 0) {
                    return;
                }
                tx.commit_with(CommitOptions::default().with_time(11));
            }
            doc = AutoCommit::load_with_options(&am.save(), LoadOptions::new().text_encoding(enc)).unwrap().with_actor(a);
            new_changes = doc.get_changes(&[]).into_iter().filter(|c| !known.contains(&c.hash())).collect();
        }
        // (3) deps of the isolated changes
        let mut chain: BTreeSet<ChangeHash> = h.iter().copied().collect();
        let mut sorted = new_changes.clone();
        sorted.sort_by_key(|c| (c.start_op(), c.seq()));
        for c in &sorted {
            cx.count("isolated_changes_checked");
            if let Some(bad) = c.deps().iter().find(|d| !chain.contains(d)) {
                cx.violation("isolated-change-depends-outside", format!("isolated change {} depends on {bad}, which is neither in H nor an earlier isolated change", c.hash()), detail(String::new()));
                return;
            }
            chain.insert(c.hash());
        }
        // (3b) the isolated changes reference nothing outside ancestors(H): a document holding exactly
        // ancestors(H) accepts them and is left with no missing dependency
        if let Ok(mut scoped) = before_clone.clone().fork_at(&h) {
            cx.count("applied_to_scope_only_document");
            match catch(|| scoped.apply_changes(sorted.iter().cloned())) {
                Ok(Ok(())) => {
                    if !scoped.get_missing_deps(&[]).is_empty() {
                        cx.violation("isolated-change-depends-outside", "after applying the isolated changes to fork_at(H) the document reports missing dependencies", detail(String::new()));
                        return;
                    }
                    let mut hs = scoped.get_heads();
                    hs.sort();
                    let mut want: Vec<ChangeHash> = sorted.last().map(|c| vec![c.hash()]).unwrap_or_else(|| h.clone());
                    want.sort();
                    if !sorted.is_empty() && hs != want {
                        cx.violation("isolated-change-depends-outside", format!("fork_at(H) + isolated changes has heads {:?} instead of the last isolated change", hash_hex(&hs)), detail(String::new()));
                        return;
                    }
                }
                Ok(Err(e)) => {
                    cx.violation("isolated-changes-reference-outside-scope", format!("a document holding exactly ancestors(H) rejects the isolated changes: {e}"), detail(String::new()));
                    return;
                }
                Err(p) => {
                    cx.violation("isolated-changes-reference-outside-scope", format!("a document holding exactly ancestors(H) panics when the isolated changes are applied: {p}"), detail(String::new()));
                    return;
                }
            }
        }
        // (4) after integrate: interpretation of all changes, and merge equivalence
        cx.count("integrations_compared");
        let allc = doc.get_changes(&[]);
        let (rs2, e2, _) = ref_snapshot(&allc, enc);
        let o2 = observe_opts(&doc, None, true);
        if let Some(e) = o2.core_errors().first() {
            cx.violation("read-inconsistency|after-integrate", format!("reads after integrate disagree: {e}"), detail(String::new()));
            return;
        }
        if e2.is_empty() {
            if let Some(d) = first_diff(&strip_marks(&o2.snap), &strip_marks(&rs2)) {
                cx.violation("state-after-integrate-differs-from-ref", format!("document after integrate (left) vs interpretation of all its changes (right) {d}"), detail(String::new()));
                return;
            }
        }
        let mut other = before_clone.clone().with_actor(actor(70));
        if let Err(e) = other.apply_changes(new_changes.iter().cloned()) {
            cx.violation("isolated-changes-not-applicable", format!("applying the isolated changes to a clone taken before isolation failed: {e}"), detail(String::new()));
            return;
        }
        if let Some(d) = docs_differ(&mut doc, &mut other) {
            cx.violation("integrate-differs-from-merge", format!("document after integrate vs clone + isolated changes: {d}"), detail(String::new()));
            return;
        }
        if !check_h3(cx, &doc, "after integrate") {
            return;
        }
        if strictly {
            cx.nontrivial(fnv(&doc.save()) ^ fnv(format!("{h:?}").as_bytes()));
        }
        cx.sample(|| json!({"encoding": enc_name(enc), "heads": hash_hex(&h), "ancestors": anc.len(), "changes_in_doc": known.len(), "isolated_changes": new_changes.len(), "variant": if case % 2 == 0 { "AutoCommit::isolate" } else { "transaction_at" }}));
    }
}
