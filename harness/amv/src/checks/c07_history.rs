//! C07 — historical reads equal reads of the document as it was.
use amv::fw::*;
use amv::gen::{actor, ancestors, Profile, World};
use amv::obs::{enc_name, exid_str, first_diff, fingerprint, hydrate_json, observe, strip_marks, value_repr, winners};
use amv::refint::ref_snapshot;
use amv::util::*;
use automerge::{Change, ChangeHash, ObjType, ReadDoc, ROOT};
use serde_json::json;
use std::collections::BTreeSet;

pub struct C07;

impl Check for C07 {
    fn id(&self) -> &'static str {
        "C07"
    }
    fn cases(&self, tier: Tier) -> u64 {
        tier.pick(900, 60_000)
    }
    fn rule(&self) -> String {
        "case = a seeded multi-replica history (15–120 steps quick, up to 400 thorough so that histories exceed the clock-cache step of 16/32 changes) merged into one document (in half of the cases a new actor that sorts first then opens and rolls back its first transaction on it, so that an actor index is inserted and removed); for up to 6 (12) head sets H — head sets that occurred on any replica (incl. heads of concurrent branches and merged states) and random antichains of the DAG — three views must agree: the *_at(H) reads of the full document (get, get_all, keys, length, text, list/map ranges, marks, spans, get_marks via OBS; hydrate, values, parents, cursor positions separately), the plain reads of fork_at(H), and REF(ancestors(H)); fork_at(H).get_heads() = H. Non-trivial = H strictly historical and on a concurrent branch or >16 changes deep; distinct by (history fingerprint, H).".into()
    }
    fn required_counters(&self) -> Vec<&'static str> {
        vec!["head_sets_checked", "strictly_historical", "concurrent_branch_heads", "deep_heads_gt16", "random_antichains", "cursor_positions_compared", "parents_compared", "hydrates_compared", "actor_inserted_and_removed"]
    }
    fn run_case(&self, cx: &mut Ctx, _case: u64, rng: &mut Rng) {
        let enc = enc_for(rng);
        let n = rng.range(2, 4);
        let mut w = World::new(rng, n, enc, Profile { text_elem_ops: rng.clone().chance(40), ..Profile::contention() });
        w.verbose = cx.verbose;
        let steps = rng.range(15, cx.tier.pick(120, 400));
        w.run(rng, steps);
        let log = w.log.clone();
        let mut doc = w.merged();
        if rng.chance(50) {
            // a new actor whose id sorts before the existing ones opens its first transaction and
            // abandons it: the actor is inserted into and removed from the actor table again, which
            // renumbers the actors behind it (cached clocks must follow)
            use automerge::transaction::Transactable;
            let mut probe = doc.clone().with_actor(actor(7));
            let _ = probe.put(automerge::ROOT, "abandoned", 1);
            probe.rollback();
            doc = probe;
            cx.count("actor_inserted_and_removed");
        }
        if !check_h3(cx, &doc, "merged document") {
            return;
        }
        let all = w.ledger.clone();
        let topo = w.topo_changes();
        let final_heads: BTreeSet<ChangeHash> = doc.get_heads().into_iter().collect();
        // candidate head sets
        let mut cands: Vec<(Vec<ChangeHash>, bool)> = w.head_sets.iter().filter(|h| !h.is_empty()).map(|h| (h.clone(), false)).collect();
        rng.shuffle(&mut cands);
        cands.truncate(cx.tier.pick(4, 8));
        for _ in 0..cx.tier.pick(2, 4) {
            // random antichain
            let k = rng.range(1, 3);
            let mut hs: Vec<ChangeHash> = (0..k).map(|_| topo[rng.below(topo.len())].hash()).collect();
            hs.sort();
            hs.dedup();
            let mut anti: Vec<ChangeHash> = vec![];
            for h in &hs {
                let others: Vec<ChangeHash> = hs.iter().filter(|x| *x != h).copied().collect();
                if !ancestors(&all, &others).contains(h) {
                    anti.push(*h);
                }
            }
            cands.push((anti, true));
        }
        let hist_fp = fnv(&doc.save());
        for (h, random) in cands {
            cx.count("head_sets_checked");
            if random {
                cx.count("random_antichains");
            }
            let anc = ancestors(&all, &h);
            let strictly = anc.len() < all.len();
            let concurrent = strictly && h.iter().any(|x| !final_heads.contains(x)) && {
                // some change outside ancestors(H) is concurrent with a head of H (not a descendant-only extension)
                topo.iter().any(|c| !anc.contains(&c.hash()) && !ancestors(&all, &[c.hash()]).iter().any(|a| h.contains(a)))
            };
            if strictly {
                cx.count("strictly_historical");
            }
            if concurrent {
                cx.count("concurrent_branch_heads");
            }
            if anc.len() > 16 {
                cx.count("deep_heads_gt16");
            }
            let detail = |extra: serde_json::Value| json!({"heads": hash_hex(&h), "ancestors": anc.len(), "changes": all.len(), "encoding": enc_name(enc), "extra": extra, "log": tail(&log, 30)});
            let mut f = match doc.fork_at(&h) {
                Ok(f) => f.with_actor(actor(77)),
                Err(e) => {
                    cx.violation("fork-at-failed", format!("fork_at of heads from the document's own history failed: {e}"), detail(json!({})));
                    return;
                }
            };
            if !check_h3(cx, &f, "fork_at(H)") {
                return;
            }
            let mut fh = f.get_heads();
            fh.sort();
            let mut hs = h.clone();
            hs.sort();
            if fh != hs {
                cx.violation("fork-at-heads", format!("fork_at(H).get_heads() = {:?} differs from H", hash_hex(&fh)), detail(json!({})));
                return;
            }
            let fc: BTreeSet<ChangeHash> = f.get_changes(&[]).iter().map(|c| c.hash()).collect();
            if fc != anc {
                cx.violation("fork-at-changes", format!("fork_at(H) holds {} changes, H has {} ancestors", fc.len(), anc.len()), detail(json!({})));
                return;
            }
            let a = observe(&doc, Some(&h));
            let b = observe(&f, None);
            if let Some(e) = a.core_errors().first() {
                cx.violation("read-inconsistency|at-heads", format!("historical reads of the full document disagree with each other: {e}"), detail(json!({"errors": a.core_errors()})));
                return;
            }
            if let Some(e) = b.core_errors().first() {
                cx.violation("read-inconsistency|fork", format!("reads of fork_at(H) disagree with each other: {e}"), detail(json!({"errors": b.core_errors()})));
                return;
            }
            if let Some(d) = first_diff(&a.snap, &b.snap) {
                let what = if d.contains("/marks") { "marks" } else { "state" };
                cx.violation(&format!("{what}-at-heads-differs-from-fork"), format!("reads at H on the full document (left) vs fork_at(H) (right) {d}"), detail(json!({})));
                return;
            }
            let chs: Vec<Change> = topo.iter().filter(|c| anc.contains(&c.hash())).cloned().collect();
            let (rs, rerrs, _) = ref_snapshot(&chs, enc);
            if rerrs.is_empty() {
                if let Some(d) = first_diff(&strip_marks(&b.snap), &strip_marks(&rs)) {
                    cx.violation("fork-differs-from-ref", format!("fork_at(H) (left) vs interpretation of ancestors(H) (right) {d}"), detail(json!({})));
                    return;
                }
            }
            // hydrate
            cx.count("hydrates_compared");
            let hy_a = doc.hydrate(&ROOT, Some(&h)).map(|v| hydrate_json(&v, false));
            let hy_b = f.hydrate(&ROOT, None).map(|v| hydrate_json(&v, false));
            match (hy_a, hy_b) {
                (Ok(x), Ok(y)) => {
                    if let Some(d) = first_diff(&x, &y) {
                        cx.violation("hydrate-at-heads-differs", format!("hydrate(ROOT, Some(H)) (left) vs hydrate of fork_at(H) (right) {d}"), detail(json!({})));
                        return;
                    }
                    let wv = winners(&b.snap, false);
                    if let Some(d) = first_diff(&y, &wv) {
                        cx.violation("hydrate-differs-from-reads", format!("hydrate of fork_at(H) (left) vs winners of its get_all reads (right) {d}"), detail(json!({})));
                        return;
                    }
                }
                (x, y) => {
                    cx.violation("hydrate-failed", format!("hydrate failed: at heads ok={} fork ok={}", x.is_ok(), y.is_ok()), detail(json!({})));
                    return;
                }
            }
            // per object: parents, values, cursors
            for (obj, typ) in b.objects.iter().skip(1) {
                cx.count("parents_compared");
                let pa = doc.parents_at(obj, &h).map(|p| p.map(|x| (x.obj, x.prop, x.visible)).collect::<Vec<_>>());
                let pb = f.parents(obj).map(|p| p.map(|x| (x.obj, x.prop, x.visible)).collect::<Vec<_>>());
                match (pa, pb) {
                    (Ok(x), Ok(y)) => {
                        let xs: Vec<String> = x.iter().map(|(o, p, v)| format!("{}/{p:?}/visible={v}", exid_str(o))).collect();
                        let ys: Vec<String> = y.iter().map(|(o, p, v)| format!("{}/{p:?}/visible={v}", exid_str(o))).collect();
                        if xs != ys {
                            cx.violation("parents-at-heads-differ", format!("parents_at({}, H) = {xs:?} but fork_at(H).parents = {ys:?}", exid_str(obj)), detail(json!({})));
                            return;
                        }
                    }
                    (x, y) => {
                        cx.violation("parents-failed", format!("parents of {}: at heads ok={} fork ok={}", exid_str(obj), x.is_ok(), y.is_ok()), detail(json!({})));
                        return;
                    }
                }
                let va: Vec<String> = doc.values_at(obj, &h).map(|(v, id)| format!("{}={}", exid_str(&id), value_repr(&v))).collect();
                let vb: Vec<String> = f.values(obj).map(|(v, id)| format!("{}={}", exid_str(&id), value_repr(&v))).collect();
                if va != vb {
                    cx.violation("values-at-heads-differ", format!("values_at({}, H) differs from values() of fork_at(H)", exid_str(obj)), detail(json!({"at": va, "fork": vb})));
                    return;
                }
                if matches!(typ, ObjType::List | ObjType::Text) {
                    let len = f.length(obj);
                    if len > 0 {
                        let bnd = amv::gen::GenState::boundaries(&f, obj);
                        let i = bnd[rng.below(bnd.len() - 1)];
                        cx.count("cursor_positions_compared");
                        match (f.get_cursor(obj, i, None), doc.get_cursor(obj, i, Some(&h))) {
                            (Ok(cf), Ok(cd)) => {
                                let p1 = doc.get_cursor_position(obj, &cf, Some(&h));
                                let p2 = f.get_cursor_position(obj, &cd, None);
                                if !matches!(p1, Ok(p) if p == i) || !matches!(p2, Ok(p) if p == i) {
                                    cx.violation("cursor-at-heads-differs", format!("cursor for index {i} of {}: position at H on the full document {p1:?}, on fork_at(H) {p2:?}", exid_str(obj)), detail(json!({})));
                                    return;
                                }
                            }
                            (x, y) => {
                                cx.violation("cursor-failed", format!("get_cursor({}, {i}) failed: fork {:?} at-heads {:?}", exid_str(obj), x.err().map(|e| e.to_string()), y.err().map(|e| e.to_string())), detail(json!({})));
                                return;
                            }
                        }
                    }
                }
            }
            if strictly && (concurrent || anc.len() > 16) {
                cx.nontrivial(hist_fp ^ fnv(format!("{hs:?}").as_bytes()));
            }
        }
        cx.add("changes", all.len() as u64);
        let _ = fingerprint;
        cx.sample(|| json!({"encoding": enc_name(enc), "replicas": n, "steps": steps, "changes": all.len(), "head_sets_in_history": w.head_sets.len()}));
    }
}
