//! C38 — actor sequence numbers stay unique.
use amv::fw::*;
use amv::gen::{actor, random_edit, Profile, World};
use amv::obs::enc_name;
use amv::util::*;
use automerge::sync::{self, SyncDoc};
use automerge::transaction::{CommitOptions, Transactable};
use automerge::{AutoCommit, Change, ChangeHash, ROOT};
use serde_json::json;
use std::collections::BTreeMap;

pub struct C38;

fn unique_and_consistent(cx: &mut Ctx, when: &str, d: &mut AutoCommit, enc: automerge::TextEncoding, log: &[String]) -> bool {
    cx.count("uniqueness_checks");
    let mut seen: BTreeMap<(Vec<u8>, u64), ChangeHash> = BTreeMap::new();
    for c in d.get_changes(&[]) {
        let k = (c.actor_id().to_bytes().to_vec(), c.seq());
        if let Some(prev) = seen.insert(k, c.hash()) {
            if prev != c.hash() {
                cx.violation("duplicate-actor-seq", format!("{when}: the document holds two different changes {prev} and {} with actor {} seq {}", c.hash(), c.actor_id(), c.seq()), json!({"log": tail(log, 30)}));
                return false;
            }
        }
    }
    // per actor the applied seqs are 1..=n without gaps
    let mut per: BTreeMap<Vec<u8>, Vec<u64>> = BTreeMap::new();
    for ((a, s), _) in &seen {
        per.entry(a.clone()).or_default().push(*s);
    }
    for (a, mut v) in per {
        v.sort();
        if v != (1..=v.len() as u64).collect::<Vec<_>>() {
            cx.violation("seq-gap", format!("{when}: actor {} has applied seqs {v:?}", hex::encode(&a)), json!({"log": tail(log, 30)}));
            return false;
        }
    }
    if !check_h3(cx, d, when) {
        return false;
    }
    let bytes = d.save();
    match catch(|| load_enc(&bytes, enc)) {
        Ok(Ok(mut l)) => {
            if let Some(diff) = docs_differ(d, &mut l) {
                cx.violation("reload-differs", format!("{when}: load(save()) differs: {diff}"), json!({"log": tail(log, 30)}));
                return false;
            }
        }
        Ok(Err(e)) => {
            cx.violation("cannot-reload", format!("{when}: save() output does not load: {e}"), json!({"log": tail(log, 30)}));
            return false;
        }
        Err(p) => {
            cx.violation("cannot-reload|panic", format!("{when}: loading save() output panics: {p}"), json!({"log": tail(log, 30)}));
            return false;
        }
    }
    // with orphans retained as well
    let bytes = d.save_with_options(automerge::SaveOptions { deflate: true, retain_orphans: true });
    match catch(|| load_enc(&bytes, enc)) {
        Ok(Ok(_)) => {}
        Ok(Err(e)) => {
            cx.violation("cannot-reload|with-orphans", format!("{when}: save(retain_orphans) output does not load: {e}"), json!({"log": tail(log, 30)}));
            return false;
        }
        Err(p) => {
            cx.violation("cannot-reload|with-orphans|panic", format!("{when}: loading save(retain_orphans) output panics: {p}"), json!({"log": tail(log, 30)}));
            return false;
        }
    }
    true
}

impl Check for C38 {
    fn id(&self) -> &'static str {
        "C38"
    }
    fn cases(&self, tier: Tier) -> u64 {
        tier.pick(2000, 120_000)
    }
    fn rule(&self) -> String {
        "case = a seeded history in which an actor id (in a third of the cases one that has not committed anything yet, so both branches claim its seq 1) is reused on two branches (fork without a new actor, or reload of a stale save continuing with the same actor), both branches commit 1–3 changes (conflicting (actor, seq) pairs with different hashes), and the conflicting branch is delivered to the other document by one of: apply_changes (in order / dependents first so they are queued), load_incremental, merge, a sync session, load of concatenated saves, apply_changes of the shared actor's changes alone (in half the cases its first change depends on a change by another actor, so it waits in the queue without its dependency); before, after or interleaved with further local commits of the receiving side. After every delivery attempt: no two different changes share (actor, seq), per-actor seqs are gap-free, H3 holds, load(save()) and load(save{retain_orphans}) succeed and equal the document; after a local commit at seq s no queued change of that actor with seq ≥ s remains. Non-trivial = a conflicting change was actually delivered; distinct by (path, timing, order).".into()
    }
    fn required_counters(&self) -> Vec<&'static str> {
        vec!["conflicts_delivered", "path_apply", "path_apply_dependents_first", "path_load_incremental", "path_merge", "path_sync", "path_concat_load", "local_commit_after_queueing", "rejected", "uniqueness_checks", "shared_actor_without_history"]
    }
    fn run_case(&self, cx: &mut Ctx, case: u64, rng: &mut Rng) {
        let enc = enc_for(rng);
        let mut w = World::new(rng, 2, enc, Profile::no_blocks());
        w.verbose = cx.verbose;
        w.run(rng, rng.clone().range(4, 25));
        let log = w.log.clone();
        let mut gs = w.gs.clone();
        // A continues with its actor; B is a same-actor branch of A
        let mut a = w.docs[0].clone();
        a.commit();
        if rng.chance(35) {
            // the shared actor has not committed anything yet: both branches will claim its seq 1
            a.set_actor(actor(56));
            cx.count("shared_actor_without_history");
        }
        let shared_actor = a.get_actor().clone();
        let stale = a.save();
        let mut b = if rng.chance(50) {
            a.fork().with_actor(shared_actor.clone())
        } else {
            match load_enc(&stale, enc) {
                Ok(d) => d.with_actor(shared_actor.clone()),
                Err(e) => {
                    cx.violation("cannot-reload", format!("load(save()) failed: {e}"), json!({}));
                    return;
                }
            }
        };
        let base_heads = a.get_heads();
        // both sides commit
        let na = rng.range(0, 2);
        for i in 0..na {
            for _ in 0..rng.range(1, 3) {
                random_edit(&mut a, rng, &mut gs);
            }
            let _ = a.put(ROOT, "a-side", i as i64);
            a.commit_with(CommitOptions::default().with_time(10 + i as i64));
        }
        // B's first change with the shared actor may depend on a change by another actor, so that it
        // can be delivered without its dependency and wait in the queue
        let mut b_pre = false;
        if rng.chance(50) {
            b.set_actor(actor(57));
            let _ = b.put(ROOT, "b-pre", 1);
            b.commit_with(CommitOptions::default().with_time(15));
            b.set_actor(shared_actor.clone());
            b_pre = true;
        }
        let nb = rng.range(1, 3);
        for i in 0..nb {
            for _ in 0..rng.range(1, 3) {
                random_edit(&mut b, rng, &mut gs);
            }
            let _ = b.put(ROOT, "b-side", i as i64);
            b.commit_with(CommitOptions::default().with_time(20 + i as i64));
        }
        // b switches actor and adds a dependent change by another actor
        if rng.chance(50) {
            b.set_actor(actor(55));
            let _ = b.put(ROOT, "b-dependent", 1);
            b.commit_with(CommitOptions::default().with_time(30));
        }
        let b_changes: Vec<Change> = b.get_changes(&base_heads);
        if b_changes.is_empty() {
            return;
        }
        let path = case % 7;
        let timing = rng.below(3); // 0: A committed before delivery (done above), 1: A commits after delivery, 2: both
        let mut delivered_conflict = na > 0;
        let res: Result<(), String> = match path {
            0 => {
                cx.count("path_apply");
                let mut r = Ok(());
                for c in &b_changes {
                    if let Err(e) = a.apply_changes([c.clone()]) {
                        r = Err(e.to_string());
                    }
                }
                r
            }
            1 => {
                cx.count("path_apply_dependents_first");
                let mut r = Ok(());
                for c in b_changes.iter().rev() {
                    if let Err(e) = a.apply_changes([c.clone()]) {
                        r = Err(e.to_string());
                    }
                }
                r
            }
            2 => {
                cx.count("path_load_incremental");
                let mut bytes = vec![];
                let mut cs = b_changes.clone();
                if rng.chance(50) {
                    cs.reverse();
                }
                for c in &cs {
                    bytes.extend_from_slice(c.raw_bytes());
                }
                a.load_incremental(&bytes).map(|_| ()).map_err(|e| e.to_string())
            }
            3 => {
                cx.count("path_merge");
                a.merge(&mut b).map(|_| ()).map_err(|e| e.to_string())
            }
            4 => {
                cx.count("path_sync");
                let mut sa = sync::State::new();
                let mut sb = sync::State::new();
                let mut r = Ok(());
                for _ in 0..12 {
                    let ma = a.sync().generate_sync_message(&mut sa);
                    let mb = b.sync().generate_sync_message(&mut sb);
                    if ma.is_none() && mb.is_none() {
                        break;
                    }
                    if let Some(m) = ma {
                        if let Err(e) = b.sync().receive_sync_message(&mut sb, m) {
                            r = Err(e.to_string());
                        }
                    }
                    if let Some(m) = mb {
                        if let Err(e) = a.sync().receive_sync_message(&mut sa, m) {
                            r = Err(e.to_string());
                        }
                    }
                }
                r
            }
            6 => {
                // only the shared actor's changes arrive: with a dependency on another actor's
                // change they wait in the queue
                cx.count("path_apply_without_dependencies");
                let mut r = Ok(());
                for c in b_changes.iter().filter(|c| c.actor_id() == &shared_actor) {
                    if let Err(e) = a.apply_changes([c.clone()]) {
                        r = Err(e.to_string());
                    }
                }
                if b_pre && !queued_changes(&mut a).is_empty() {
                    cx.count("shared_actor_change_queued_without_dependency");
                }
                r
            }
            _ => {
                cx.count("path_concat_load");
                // a file holding A's save followed by B's changes
                let mut bytes = a.save();
                for c in &b_changes {
                    bytes.extend_from_slice(c.raw_bytes());
                }
                match catch(|| load_enc(&bytes, enc)) {
                    Ok(Ok(d)) => {
                        a = d.with_actor(shared_actor.clone());
                        Ok(())
                    }
                    Ok(Err(e)) => Err(e.to_string()),
                    Err(p) => {
                        cx.violation("load-panics", format!("load of a save followed by conflicting change chunks panics: {p}"), json!({"log": tail(&log, 20)}));
                        return;
                    }
                }
            }
        };
        match &res {
            Err(_) => cx.count("rejected"),
            Ok(()) => cx.count("accepted_or_discarded"),
        }
        if !unique_and_consistent(cx, &format!("after delivery via path {path}"), &mut a, enc, &log) {
            return;
        }
        if path == 4 && !unique_and_consistent(cx, "peer after sync", &mut b, enc, &log) {
            return;
        }
        // local commits after the delivery: claims the next seq; queued conflicting branch must go
        if timing >= 1 || na == 0 {
            let queued_before = queued_changes(&mut a);
            a.set_actor(shared_actor.clone());
            for i in 0..rng.range(1, 3) {
                let _ = a.put(ROOT, "a-late", i as i64);
                let h = a.commit_with(CommitOptions::default().with_time(40 + i as i64));
                if let Some(h) = h {
                    let c = a.get_change_by_hash(&h).unwrap();
                    delivered_conflict = true;
                    if !queued_before.is_empty() {
                        cx.count("local_commit_after_queueing");
                    }
                    for q in queued_changes(&mut a) {
                        if q.actor_id() == c.actor_id() && q.seq() >= c.seq() {
                            cx.violation("queued-conflicting-seq-survives-local-commit", format!("after a local commit at seq {} a queued change {} of the same actor with seq {} is still held", c.seq(), q.hash(), q.seq()), json!({"path": path, "log": tail(&log, 20)}));
                            return;
                        }
                    }
                }
                if !unique_and_consistent(cx, "after a later local commit", &mut a, enc, &log) {
                    return;
                }
            }
            // the other branch's remaining changes arrive (again)
            let _ = a.apply_changes(b_changes.iter().cloned());
            if !unique_and_consistent(cx, "after redelivery", &mut a, enc, &log) {
                return;
            }
        }
        if delivered_conflict {
            cx.count("conflicts_delivered");
            cx.nontrivial(fnv(format!("{path}{timing}{na}{nb}{}", res.is_ok()).as_bytes()) ^ fnv(&stale));
        }
        cx.sample(|| json!({"path": path, "timing": timing, "a_commits": na, "b_commits": nb, "delivery_result": format!("{res:?}"), "encoding": enc_name(enc)}));
    }
}
