use amv::fw::Check;

pub mod c02_ref;
pub mod c23_bloom;

pub fn registry() -> Vec<Box<dyn Check>> {
    vec![Box::new(c02_ref::C02), Box::new(c23_bloom::C23)]
}
