use amv::fw::Check;

pub mod c01_conv;
pub mod c02_ref;
pub mod c03_seq;
pub mod c04_meta;
pub mod c05_queue;
pub mod c06_failed;
pub mod c07_history;
pub mod c08_diff;
pub mod c10_history;
pub mod c11_saveload;
pub mod c15_untrusted;
pub mod c18_codec;
pub mod c20_sync;
pub mod c23_bloom;
pub mod c24_text;
pub mod c25_marks;
pub mod c26_cursors;
pub mod c27_reconcile;
pub mod c28_rollback;
pub mod c29_isolation;
pub mod c30_objids;
pub mod c31_anonymize;
pub mod c32_serde;
pub mod c37_panics;
pub mod c38_actorseq;
pub mod c40_migrate;

pub fn registry() -> Vec<Box<dyn Check>> {
    vec![
        Box::new(c01_conv::C01),
        Box::new(c02_ref::C02),
        Box::new(c03_seq::C03),
        Box::new(c04_meta::C04),
        Box::new(c05_queue::C05),
        Box::new(c06_failed::C06),
        Box::new(c07_history::C07),
        Box::new(c08_diff::C08),
        Box::new(c08_diff::C09),
        Box::new(c10_history::C10),
        Box::new(c11_saveload::C11),
        Box::new(c11_saveload::C12),
        Box::new(c15_untrusted::C13),
        Box::new(c15_untrusted::C14),
        Box::new(c15_untrusted::C15),
        Box::new(c15_untrusted::C16),
        Box::new(c15_untrusted::C17),
        Box::new(c18_codec::C18),
        Box::new(c18_codec::C19),
        Box::new(c20_sync::C20),
        Box::new(c20_sync::C21),
        Box::new(c20_sync::C22),
        Box::new(c23_bloom::C23),
        Box::new(c24_text::C24),
        Box::new(c25_marks::C25),
        Box::new(c26_cursors::C26),
        Box::new(c27_reconcile::C27),
        Box::new(c28_rollback::C28),
        Box::new(c29_isolation::C29),
        Box::new(c30_objids::C30),
        Box::new(c31_anonymize::C31),
        Box::new(c32_serde::C32),
        Box::new(c37_panics::C37),
        Box::new(c38_actorseq::C38),
        Box::new(c15_untrusted::C39),
        Box::new(c40_migrate::C40),
    ]
}
