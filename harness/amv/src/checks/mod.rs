use crate::fw::Check;

pub mod c23_bloom;

pub fn registry() -> Vec<Box<dyn Check>> {
    vec![Box::new(c23_bloom::C23)]
}
