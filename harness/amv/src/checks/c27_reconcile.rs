//! C27 — reconciliation and bulk-construction calls reach their target value.
use amv::fw::*;
use amv::gen::{new_doc, GenState, Profile, World, GRAPHEMES};
use amv::obs::{enc_name, exid_str, first_diff, hydrate_json, observe_opts, scalar_repr, winners};
use amv::util::*;
use automerge::iter::Span;
use automerge::marks::{ExpandMark, MarkSet, UpdateSpansConfig};
use automerge::transaction::Transactable;
use automerge::{hydrate, AutoCommit, Automerge, ObjId, ObjType, ReadDoc, ScalarValue, TextEncoding, ROOT};
use serde_json::{json, Value as J};
use std::collections::HashMap;
use std::sync::Arc;

pub struct C27;

fn rtext(rng: &mut Rng, max: usize) -> String {
    let n = rng.below(max + 1);
    (0..n).map(|_| if rng.chance(35) { *rng.pick(&GRAPHEMES[6..]) } else { *rng.pick(&GRAPHEMES[..6]) }).collect()
}

/// a random nested value without conflicts (what can be built call by call)
fn rvalue(rng: &mut Rng, enc: TextEncoding, depth: usize, n: &mut i64) -> hydrate::Value {
    *n += 1;
    let k = if depth == 0 { rng.below(4) } else { rng.below(8) };
    match k {
        0 => hydrate::Value::Scalar(ScalarValue::Int(*n)),
        1 => hydrate::Value::Scalar(ScalarValue::Str(format!("s{n}").into())),
        2 => hydrate::Value::Scalar(rng.pick(&[ScalarValue::Null, ScalarValue::Boolean(true), ScalarValue::F64(1.5), ScalarValue::Uint(7)]).clone()),
        3 => hydrate::Value::Scalar(ScalarValue::counter(*n)),
        4 | 5 => {
            let m: HashMap<String, hydrate::Value> = (0..rng.below(4)).map(|i| (format!("f{i}"), rvalue(rng, enc, depth - 1, n))).collect();
            hydrate::Value::Map(hydrate::Map::from(m))
        }
        6 => hydrate::Value::List(hydrate::List::from((0..rng.below(4)).map(|_| rvalue(rng, enc, depth - 1, n)).collect::<Vec<_>>())),
        _ => hydrate::Value::Text(hydrate::Text::new(enc, rtext(rng, 5))),
    }
}

/// build `v` call by call at (obj, prop)
fn build_by_calls(d: &mut AutoCommit, obj: &ObjId, prop: automerge::Prop, insert: bool, v: &hydrate::Value) -> Result<(), automerge::AutomergeError> {
    let mk = |d: &mut AutoCommit, t: ObjType| -> Result<ObjId, automerge::AutomergeError> {
        match (&prop, insert) {
            (automerge::Prop::Seq(i), true) => d.insert_object(obj, *i, t),
            (p, _) => d.put_object(obj, p.clone(), t),
        }
    };
    match v {
        hydrate::Value::Scalar(s) => match (&prop, insert) {
            (automerge::Prop::Seq(i), true) => d.insert(obj, *i, s.clone()),
            (p, _) => d.put(obj, p.clone(), s.clone()),
        },
        hydrate::Value::Map(m) => {
            let id = mk(d, ObjType::Map)?;
            let mut keys: Vec<&String> = m.iter().map(|(k, _)| k).collect();
            keys.sort();
            for k in keys {
                build_by_calls(d, &id, automerge::Prop::Map(k.clone()), false, m.get(k).unwrap())?;
            }
            Ok(())
        }
        hydrate::Value::List(l) => {
            let id = mk(d, ObjType::List)?;
            for (i, lv) in l.iter().enumerate() {
                build_by_calls(d, &id, automerge::Prop::Seq(i), true, &lv.value)?;
            }
            Ok(())
        }
        hydrate::Value::Text(t) => {
            let id = mk(d, ObjType::Text)?;
            d.splice_text(&id, 0, 0, &t.to_string())
        }
    }
}

fn norm_spans(spans: impl Iterator<Item = Span>) -> Vec<J> {
    // merge adjacent text spans with equal marks; null marks are no marks
    let mut out: Vec<J> = vec![];
    for s in spans {
        match s {
            Span::Text { text, marks } => {
                if text.is_empty() {
                    continue;
                }
                let mut m = serde_json::Map::new();
                if let Some(ms) = marks {
                    for (k, v) in ms.iter() {
                        if !matches!(v, ScalarValue::Null) {
                            m.insert(k.to_string(), scalar_repr(v));
                        }
                    }
                }
                if let Some(last) = out.last_mut() {
                    if last["marks"] == J::Object(m.clone()) && last.get("text").is_some() {
                        let t = format!("{}{}", last["text"].as_str().unwrap_or(""), text);
                        last["text"] = json!(t);
                        continue;
                    }
                }
                out.push(json!({"text": text, "marks": m}));
            }
            Span::Block(b) => out.push(json!({"block": hydrate_json(&hydrate::Value::Map(b), false)})),
        }
    }
    out
}

impl Check for C27 {
    fn id(&self) -> &'static str {
        "C27"
    }
    fn cases(&self, tier: Tier) -> u64 {
        tier.pick(2000, 120_000)
    }
    fn rule(&self) -> String {
        "case kinds (index mod 4): (0) update_text(obj, s) on texts of a prior multi-replica history (conflicts, marks, blocks, unicode) with s = a small edit of the old text, an unrelated text, or empty ⇒ text() = s, also after commit and reload; (1) update_object(obj, v) on maps/lists of such a history with random nested v ⇒ hydrate(obj) = v ignoring conflict markers; (2) update_spans(obj, spans) with random text/block spans and marks ⇒ spans() equals the target after merging adjacent text spans with equal marks; (3) batch_create_object (map key, list insert, list overwrite), init_root_from_hydrate, Automerge::init_from_hydrate and splice with nested values ⇒ same winners-only state, same hydrate and same reload as building the value call by call. Non-trivial = old ≠ new and old non-empty (or prior conflicts); distinct by hash of (old, new).".into()
    }
    fn required_counters(&self) -> Vec<&'static str> {
        vec!["update_text_calls", "update_text_on_conflicted_or_marked", "update_object_calls", "update_spans_calls", "batch_create_calls", "init_root_calls", "init_from_hydrate_calls", "nested_splice_calls"]
    }
    fn run_case(&self, cx: &mut Ctx, case: u64, rng: &mut Rng) {
        let enc = enc_for(rng);
        let kind = case % 4;
        let mut counter = 100i64;
        if kind == 3 {
            // bulk construction vs call-by-call
            let v = rvalue(rng, enc, 3, &mut counter);
            let which = rng.below(6);
            let mut a = new_doc(enc, 0);
            let mut b = new_doc(enc, 0);
            let la = a.put_object(ROOT, "l", ObjType::List).unwrap();
            let lb = b.put_object(ROOT, "l", ObjType::List).unwrap();
            for i in 0..3 {
                a.insert(&la, i, i as i64).unwrap();
                b.insert(&lb, i, i as i64).unwrap();
            }
            let res: Result<(), String> = match which {
                0 => {
                    cx.count("batch_create_calls");
                    if v.is_scalar() {
                        return;
                    }
                    a.batch_create_object(ROOT, "v", &v, false).map(|_| ()).map_err(|e| e.to_string()).and_then(|_| build_by_calls(&mut b, &ROOT, "v".into(), false, &v).map_err(|e| e.to_string()))
                }
                1 => {
                    cx.count("batch_create_calls");
                    if v.is_scalar() {
                        return;
                    }
                    a.batch_create_object(&la, 1usize, &v, true).map(|_| ()).map_err(|e| e.to_string()).and_then(|_| build_by_calls(&mut b, &lb, 1usize.into(), true, &v).map_err(|e| e.to_string()))
                }
                2 => {
                    cx.count("batch_create_calls");
                    if v.is_scalar() {
                        return;
                    }
                    a.batch_create_object(&la, 1usize, &v, false).map(|_| ()).map_err(|e| e.to_string()).and_then(|_| build_by_calls(&mut b, &lb, 1usize.into(), false, &v).map_err(|e| e.to_string()))
                }
                3 => {
                    cx.count("init_root_calls");
                    let m: HashMap<String, hydrate::Value> = (0..rng.range(1, 4)).map(|i| (format!("r{i}"), rvalue(rng, enc, 2, &mut counter))).collect();
                    let hm = hydrate::Map::from(m.clone());
                    let mut r = a.init_root_from_hydrate(&hm).map_err(|e| e.to_string());
                    let mut keys: Vec<&String> = m.keys().collect();
                    keys.sort();
                    for k in keys {
                        if r.is_ok() {
                            r = build_by_calls(&mut b, &ROOT, automerge::Prop::Map(k.clone()), false, &m[k]).map_err(|e| e.to_string());
                        }
                    }
                    r
                }
                4 => {
                    cx.count("init_from_hydrate_calls");
                    let m: HashMap<String, hydrate::Value> = (0..rng.range(1, 4)).map(|i| (format!("r{i}"), rvalue(rng, enc, 2, &mut counter))).collect();
                    let hm = hydrate::Map::from(m.clone());
                    let mut am = Automerge::new_with_encoding(enc).with_actor(amv::gen::actor(0));
                    let r = am.init_from_hydrate(&hm).map_err(|e| e.to_string());
                    a = match load_enc(&am.save(), enc) {
                        Ok(x) => x,
                        Err(e) => {
                            cx.violation("cannot-reload|init_from_hydrate", format!("document built by init_from_hydrate does not reload: {e}"), json!({}));
                            return;
                        }
                    };
                    b = new_doc(enc, 0);
                    let mut r2 = r;
                    let mut keys: Vec<&String> = m.keys().collect();
                    keys.sort();
                    for k in keys {
                        if r2.is_ok() {
                            r2 = build_by_calls(&mut b, &ROOT, automerge::Prop::Map(k.clone()), false, &m[k]).map_err(|e| e.to_string());
                        }
                    }
                    r2
                }
                _ => {
                    cx.count("nested_splice_calls");
                    let vals: Vec<hydrate::Value> = (0..rng.range(1, 3)).map(|_| rvalue(rng, enc, 2, &mut counter)).collect();
                    let del = rng.below(2) as isize;
                    let mut r = a.splice(&la, 1, del, vals.clone()).map_err(|e| e.to_string());
                    if r.is_ok() {
                        for _ in 0..del {
                            r = b.delete(&lb, 1usize).map_err(|e| e.to_string());
                        }
                        for (i, v) in vals.iter().enumerate() {
                            if r.is_ok() {
                                r = build_by_calls(&mut b, &lb, (1 + i).into(), true, v).map_err(|e| e.to_string());
                            }
                        }
                    }
                    r
                }
            };
            if let Err(e) = res {
                cx.violation(&format!("bulk-call-failed|{which}"), format!("bulk construction (variant {which}) of a valid value failed: {e}"), json!({"value": format!("{v:?}")}));
                return;
            }
            a.commit();
            b.commit();
            let wa = winners(&observe_opts(&a, None, true).snap, true);
            let wb = winners(&observe_opts(&b, None, false).snap, true);
            if let Some(d) = first_diff(&wa, &wb) {
                cx.violation(&format!("bulk-differs-from-call-by-call|{which}"), format!("bulk construction (left) vs the same value built call by call (right) {d}"), json!({"variant": which, "value": format!("{v:?}"), "encoding": enc_name(enc)}));
                return;
            }
            if !check_h3(cx, &a, "bulk-built document") {
                return;
            }
            match load_enc(&a.save(), enc) {
                Ok(l) => {
                    let wl = winners(&observe_opts(&l, None, false).snap, true);
                    if let Some(d) = first_diff(&wa, &wl) {
                        cx.violation(&format!("bulk-reload-differs|{which}"), format!("bulk-built document (left) vs its reload (right) {d}"), json!({"variant": which}));
                        return;
                    }
                }
                Err(e) => {
                    cx.violation(&format!("cannot-reload|bulk|{which}"), format!("bulk-built document does not reload: {e}"), json!({"variant": which}));
                    return;
                }
            }
            cx.nontrivial(fnv(format!("{which}{v:?}").as_bytes()));
            cx.sample(|| json!({"kind": "bulk", "variant": which, "value": format!("{v:?}").chars().take(200).collect::<String>()}));
            return;
        }
        // prior history
        let n = rng.range(2, 3);
        let mut w = World::new(rng, n, enc, Profile { counters: kind == 1, ..Profile::contention() });
        w.verbose = cx.verbose;
        w.run(rng, rng.clone().range(5, cx.tier.pick(40, 100)));
        w.merge(0, 1);
        let log = w.log.clone();
        let mut d = w.docs[0].clone();
        let o = observe_opts(&d, None, false);
        match kind {
            0 => {
                let texts: Vec<&(ObjId, ObjType)> = o.objects.iter().filter(|x| x.1 == ObjType::Text).collect();
                if texts.is_empty() {
                    return;
                }
                let (t, _) = (*rng.pick(&texts)).clone();
                let old = d.text(&t).unwrap_or_default();
                let conflicted = d.marks(&t).map(|m| !m.is_empty()).unwrap_or(false) || old.contains('\u{fffc}');
                let new = match rng.below(4) {
                    0 => String::new(),
                    1 => rtext(rng, 8),
                    _ => {
                        // a small edit of the old text
                        let mut g: Vec<&str> = unicode_segmentation::UnicodeSegmentation::graphemes(old.as_str(), true).collect();
                        let ins = rtext(rng, 3);
                        for _ in 0..rng.below(3) {
                            if !g.is_empty() {
                                let k = rng.below(g.len());
                                g.remove(k);
                            }
                        }
                        let k = rng.below(g.len() + 1);
                        format!("{}{}{}", g[..k].concat(), ins, g[k..].concat())
                    }
                };
                cx.count("update_text_calls");
                if conflicted {
                    cx.count("update_text_on_conflicted_or_marked");
                }
                if let Err(e) = d.update_text(&t, &new) {
                    cx.violation("update-text-failed", format!("update_text({old:?} -> {new:?}) failed: {e}"), json!({"log": tail(&log, 15)}));
                    return;
                }
                let stages: [(&str, Box<dyn Fn(&mut AutoCommit) -> Result<String, String>>); 3] = [
                    ("in transaction", Box::new(|d: &mut AutoCommit| d.text(&t).map_err(|e| e.to_string()))),
                    ("after commit", Box::new(|d: &mut AutoCommit| {
                        d.commit();
                        d.text(&t).map_err(|e| e.to_string())
                    })),
                    ("after reload", Box::new(|d: &mut AutoCommit| load_enc(&d.save(), enc).map_err(|e| e.to_string()).and_then(|l| l.text(&t).map_err(|e| e.to_string())))),
                ];
                for (stage, f) in stages.iter() {
                    match f(&mut d) {
                        Ok(got) if got == new => {}
                        other => {
                            cx.violation("update-text-wrong-result", format!("after update_text({old:?} -> {new:?}) the text is {other:?} ({stage})"), json!({"encoding": enc_name(enc), "log": tail(&log, 15)}));
                            return;
                        }
                    }
                }
                if old != new && (!old.is_empty() || conflicted) {
                    cx.nontrivial(fnv(format!("{old}|{new}").as_bytes()));
                }
                cx.sample(|| json!({"kind": "update_text", "old": old, "new": new, "encoding": enc_name(enc)}));
            }
            1 => {
                let cands: Vec<&(ObjId, ObjType)> = o.objects.iter().filter(|x| matches!(x.1, ObjType::Map | ObjType::List)).collect();
                let (obj, typ) = (*rng.pick(&cands)).clone();
                let v = match typ {
                    ObjType::List => hydrate::Value::List(hydrate::List::from((0..rng.below(5)).map(|_| rvalue(rng, enc, 2, &mut counter)).collect::<Vec<_>>())),
                    _ => {
                        let m: HashMap<String, hydrate::Value> = (0..rng.below(5)).map(|i| (if rng.chance(50) { format!("k{i}") } else { format!("n{i}") }, rvalue(rng, enc, 2, &mut counter))).collect();
                        hydrate::Value::Map(hydrate::Map::from(m))
                    }
                };
                cx.count("update_object_calls");
                let before = d.hydrate(&obj, None).map(|x| hydrate_json(&x, false)).unwrap_or_default();
                if let Err(e) = d.update_object(&obj, &v) {
                    cx.violation("update-object-failed", format!("update_object({}, …) with a value of the object's own kind failed: {e}", exid_str(&obj)), json!({"value": format!("{v:?}"), "log": tail(&log, 15)}));
                    return;
                }
                let want = hydrate_json(&v, false);
                for stage in ["in transaction", "after commit"] {
                    if stage == "after commit" {
                        d.commit();
                    }
                    let got = d.hydrate(&obj, None).map(|x| hydrate_json(&x, false)).unwrap_or_default();
                    if let Some(diff) = first_diff(&want, &got) {
                        cx.violation("update-object-wrong-result", format!("after update_object the target (left) vs hydrate (right) {diff} ({stage})"), json!({"before": before, "encoding": enc_name(enc), "log": tail(&log, 15)}));
                        return;
                    }
                }
                if before != want {
                    cx.nontrivial(fnv(format!("{before}|{want}").as_bytes()));
                }
                cx.sample(|| json!({"kind": "update_object", "target": want}));
            }
            _ => {
                let texts: Vec<&(ObjId, ObjType)> = o.objects.iter().filter(|x| x.1 == ObjType::Text).collect();
                if texts.is_empty() {
                    return;
                }
                let (t, _) = (*rng.pick(&texts)).clone();
                let mut spans: Vec<Span> = vec![];
                for _ in 0..rng.below(6) {
                    if rng.chance(20) {
                        let m: HashMap<String, hydrate::Value> = [("type".to_string(), hydrate::Value::Scalar(ScalarValue::Str("p".into())))].into_iter().collect();
                        spans.push(Span::Block(hydrate::Map::from(m)));
                    } else {
                        let marks = if rng.chance(50) {
                            let v: Vec<(String, ScalarValue)> = (0..rng.range(1, 2)).map(|i| (["bold", "it"][i % 2].to_string(), ScalarValue::Boolean(true))).collect();
                            Some(Arc::new(MarkSet::from_iter(v)))
                        } else {
                            None
                        };
                        let text = rtext(rng, 4);
                        if !text.is_empty() {
                            spans.push(Span::Text { text, marks });
                        }
                    }
                }
                cx.count("update_spans_calls");
                let cfg = UpdateSpansConfig::default().with_default_expand(*rng.pick(&[ExpandMark::None, ExpandMark::After, ExpandMark::Both, ExpandMark::Before]));
                let before = d.spans(&t).map(|s| norm_spans(s)).unwrap_or_default();
                if let Err(e) = d.update_spans(&t, cfg, spans.clone()) {
                    cx.violation("update-spans-failed", format!("update_spans failed: {e}"), json!({"log": tail(&log, 15)}));
                    return;
                }
                d.commit();
                let want = norm_spans(spans.into_iter());
                let got = d.spans(&t).map(|s| norm_spans(s)).unwrap_or_default();
                if want != got {
                    cx.violation("update-spans-wrong-result", format!("after update_spans the spans are {} but the target (adjacent equal-mark text merged) is {}", J::Array(got), J::Array(want.clone())), json!({"before": before, "encoding": enc_name(enc), "log": tail(&log, 15)}));
                    return;
                }
                if before != want {
                    cx.nontrivial(fnv(format!("{before:?}|{want:?}").as_bytes()));
                }
                cx.sample(|| json!({"kind": "update_spans", "target": want}));
            }
        }
        let _ = GenState::boundaries::<AutoCommit>;
        if !check_h3(cx, &d, "after reconciliation") {
            return;
        }
    }
}
