//! C18 — change and bundle encodings round-trip.
//! C19 — identifiers and sync state serialize losslessly and resolve correctly.
use amv::fw::*;
use amv::gen::{actor, Profile, World};
use amv::net::Net;
use amv::obs::{enc_name, exid_str, first_diff, observe_from};
use amv::util::*;
use automerge::legacy::{self, ElementId, Key, MarkData, ObjectId, OpId as LOpId, OpType, SortedVec};
use automerge::sync;
use automerge::transaction::Transactable;
use automerge::{ActorId, AutoCommit, Bundle, Change, ChangeHash, Cursor, CursorPosition, ExpandedChange, MoveCursor, ObjId, ObjType, ReadDoc, ScalarValue};
use serde_json::json;
use std::collections::{BTreeMap, BTreeSet};
use std::num::NonZeroU64;
use std::str::FromStr;

pub struct C18;
pub struct C19;

fn meta_diff(a: &Change, b: &Change) -> Option<String> {
    if a.hash() != b.hash() {
        return Some(format!("hash {} vs {}", a.hash(), b.hash()));
    }
    if a.raw_bytes() != b.raw_bytes() {
        return Some("raw bytes differ".into());
    }
    if a.actor_id() != b.actor_id() || a.seq() != b.seq() || a.start_op() != b.start_op() || a.max_op() != b.max_op() || a.len() != b.len() {
        return Some("actor/seq/start_op/max_op/len differ".into());
    }
    if a.deps() != b.deps() {
        return Some("deps differ".into());
    }
    if a.message() != b.message() || a.timestamp() != b.timestamp() || a.extra_bytes() != b.extra_bytes() {
        return Some("message/timestamp/extra bytes differ".into());
    }
    if a.other_actor_ids() != b.other_actor_ids() {
        return Some("other actors differ".into());
    }
    None
}

/// field-by-field comparison of expanded changes (Debug form of the ops so that NaN == NaN, 0.0 != -0.0)
fn expanded_diff(a: &ExpandedChange, b: &ExpandedChange) -> Option<String> {
    if a.actor_id != b.actor_id {
        return Some("actor".into());
    }
    if a.seq != b.seq || a.start_op != b.start_op {
        return Some(format!("seq/start_op: {}/{} vs {}/{}", a.seq, a.start_op, b.seq, b.start_op));
    }
    if a.time != b.time {
        return Some(format!("time {} vs {}", a.time, b.time));
    }
    // an empty message and no message are the same thing on the wire (length 0)
    let norm = |m: &Option<String>| m.clone().filter(|s| !s.is_empty());
    if norm(&a.message) != norm(&b.message) {
        return Some(format!("message {:?} vs {:?}", a.message, b.message));
    }
    let (mut da, mut db) = (a.deps.clone(), b.deps.clone());
    da.sort();
    db.sort();
    if da != db {
        return Some("deps".into());
    }
    if a.extra_bytes != b.extra_bytes {
        return Some("extra_bytes".into());
    }
    if a.operations.len() != b.operations.len() {
        return Some(format!("{} ops vs {}", a.operations.len(), b.operations.len()));
    }
    for (i, (x, y)) in a.operations.iter().zip(b.operations.iter()).enumerate() {
        let (sx, sy) = (format!("{x:?}"), format!("{y:?}"));
        if sx != sy {
            return Some(format!("op {i}: {sx} vs {sy}"));
        }
    }
    None
}

fn rand_scalar(rng: &mut Rng) -> ScalarValue {
    match rng.below(14) {
        0 => ScalarValue::Null,
        1 => ScalarValue::Boolean(rng.chance(50)),
        2 => ScalarValue::Int(*rng.pick(&[0i64, -1, 1, 63, 64, -64, -65, i64::MAX, i64::MIN, 1 << 40])),
        3 => ScalarValue::Uint(*rng.pick(&[0u64, 1, 127, 128, u64::MAX, 1 << 63])),
        4 => ScalarValue::F64(*rng.pick(&[0.0f64, -0.0, 1.5, f64::MAX, f64::MIN_POSITIVE, f64::INFINITY, f64::NEG_INFINITY, f64::NAN, 5e-324])),
        5 => ScalarValue::Str("".into()),
        6 => ScalarValue::Str(rng.pick(&["a", "héllo", "日本語", "👨\u{200d}👩\u{200d}👧", "x\u{0}y"]).to_string().into()),
        7 => ScalarValue::Str("z".repeat(rng.range(1, 400)).into()),
        8 => ScalarValue::Bytes(rng.bytes(rng.clone().below(40))),
        9 => ScalarValue::counter(*rng.pick(&[0i64, 10, -10, i64::MAX, i64::MIN])),
        10 => ScalarValue::Timestamp(*rng.pick(&[0i64, 1_700_000_000_000, -1, i64::MAX, i64::MIN])),
        11 => ScalarValue::Unknown { type_code: *rng.pick(&[10u8, 11, 15]), bytes: rng.bytes(rng.clone().below(10)) },
        12 => ScalarValue::Int(rng.next() as i64),
        _ => ScalarValue::Uint(rng.next()),
    }
}

/// a hand-built expanded change within the documented ranges (counters < 2^31, non-empty map keys,
/// `insert` only with sequence keys, sorted preds)
fn handmade(rng: &mut Rng) -> ExpandedChange {
    let me = ActorId::from(rng.bytes(rng.clone().range(1, 40)));
    let others: Vec<ActorId> = (0..rng.below(4)).map(|_| ActorId::from(rng.bytes(rng.clone().range(1, 33)))).collect();
    let start_op: u64 = *rng.pick(&[1u64, 2, 127, 128, 16_383, 16_384, 1_000_000, (1 << 31) - 200]);
    let nops = rng.below(40);
    let any_actor = |rng: &mut Rng| -> ActorId {
        if others.is_empty() || rng.chance(50) {
            me.clone()
        } else {
            rng.pick(&others).clone()
        }
    };
    let opid = |rng: &mut Rng| -> LOpId {
        let a = any_actor(rng);
        LOpId::new(rng.range(1, (start_op as usize).min(1 << 30)) as u64, &a)
    };
    let mut ops = vec![];
    for i in 0..nops {
        let obj = if rng.chance(30) { ObjectId::Root } else { ObjectId::Id(opid(rng)) };
        let seq_key = rng.chance(50);
        let insert = seq_key && rng.chance(50);
        let key = if seq_key {
            if rng.chance(20) {
                Key::Seq(ElementId::Head)
            } else {
                Key::Seq(ElementId::Id(opid(rng)))
            }
        } else {
            Key::Map(rng.pick(&["k", "key", "ключ", "a b", "🔑", "x".repeat(200).as_str()]).to_string().into())
        };
        let action = match rng.below(10) {
            0 => OpType::Make(*rng.pick(&[ObjType::Map, ObjType::List, ObjType::Text, ObjType::Table])),
            1 if !insert => OpType::Delete,
            2 if !insert => OpType::Increment(*rng.pick(&[1i64, -1, 0, i64::MAX, i64::MIN, 1 << 33])),
            3 if seq_key => OpType::MarkBegin(MarkData { name: rng.pick(&["bold", "link", "m"]).to_string().into(), value: rand_scalar(rng), expand: rng.chance(50) }),
            4 if seq_key => OpType::MarkEnd(rng.chance(50)),
            _ => OpType::Put(rand_scalar(rng)),
        };
        let mut pred: Vec<LOpId> = if insert { vec![] } else { (0..rng.below(4)).map(|_| opid(rng)).collect() };
        pred.sort();
        pred.dedup();
        let _ = i;
        ops.push(legacy::Op { action, obj, key, pred: SortedVec::from(pred), insert });
    }
    let mut deps: Vec<ChangeHash> = (0..rng.below(4)).map(|_| ChangeHash(rng.bytes(32).try_into().unwrap())).collect();
    deps.sort();
    deps.dedup();
    ExpandedChange {
        operations: ops,
        actor_id: me,
        hash: None,
        seq: *rng.pick(&[1u64, 2, 127, 128, 70_000, (1 << 31) - 1]),
        start_op: NonZeroU64::new(start_op).unwrap(),
        time: *rng.pick(&[0i64, 1, -1, 1_700_000_000_000, i64::MAX, i64::MIN]),
        message: match rng.below(4) {
            0 => None,
            1 => Some(String::new()),
            2 => Some("msg ünï 😀".into()),
            _ => Some("m".repeat(rng.range(1, 600))),
        },
        deps,
        extra_bytes: rng.bytes(rng.clone().below(20)),
    }
}

impl Check for C18 {
    fn id(&self) -> &'static str {
        "C18"
    }
    fn cases(&self, tier: Tier) -> u64 {
        tier.pick(400, 30_000)
    }
    fn budget_s(&self, tier: Tier) -> u64 {
        tier.pick(40, 480)
    }
    fn rule(&self) -> String {
        "case = a generated multi-replica history (one case in 16 is big: 150–260 steps of 2–4 interleaved actors, so that bundles hold dozens of changes, plus one change of more than 10 000 ops that also touches the root object). (a) For EVERY change of it: Change::from_bytes(raw_bytes) and Change::from_bytes(bytes() — the DEFLATE form when the change is large enough) must give a change with equal hash, raw bytes and metadata; Change::from(c.decode()) must have the same hash and bytes and decode to the same expanded change. (b) Bundles: every subset of the history for ≤ 6 changes, otherwise random, causally closed and deliberately non-closed subsets: bundle(S) → Bundle::try_from(bytes) → to_changes() must return exactly S with byte-identical raw bytes; load_incremental(bundle bytes) into a document (empty, or holding a random causally closed part of the history) must leave it observably identical (heads, change set, queue, missing deps, OBS) to apply_changes(S) on a clone; a bundle of a causally closed set must also load as a stand-alone document. (c) 12 hand-built expanded changes per case within the documented ranges (all scalar kinds incl. NaN, -0.0, i64/u64 extremes, unknown type codes; every action; map and sequence keys; preds; 0–3 other actors; counters up to 2^31; 0–3 deps; extra bytes; messages none/empty/600 bytes): encode → from_bytes → decode must equal the input field by field and re-encode to the same hash. Non-trivial = change with ≥2 actors, a pred or > 256 bytes; bundle subset that is not causally closed or has ≥3 changes; distinct by hash set.".into()
    }
    fn required_counters(&self) -> Vec<&'static str> {
        vec!["big_cases", "changes_with_10000_ops", "bundles_over_20_changes", "changes_roundtripped", "compressed_forms_roundtripped", "expanded_reencoded", "bundles_roundtripped", "bundles_not_causally_closed", "bundle_loads_compared", "bundles_loaded_standalone", "handmade_changes"]
    }
    fn run_case(&self, cx: &mut Ctx, case: u64, rng: &mut Rng) {
        let enc = enc_for(rng);
        let n = rng.range(2, 4);
        let prof = if rng.chance(30) { Profile::storage() } else { Profile::contention() };
        let mut w = World::new(rng, n, enc, prof);
        // one case in 16 is "big": a long history of interleaved actors (bundles of dozens of changes)
        // and one change with more than 10 000 ops (the row-wise change encoder is only used above
        // that size) that also touches the root object
        let big = case % 16 == 5;
        if big {
            cx.count("big_cases");
            w.run(rng, rng.clone().range(150, 260));
            let t = w.gs.objs.iter().find(|(_, t)| *t == ObjType::Text).map(|(i, _)| i.clone());
            if let Some(t) = t {
                let r = rng.below(n);
                if w.docs[r].object_type(&t).is_ok() {
                    let body: String = (0..10_050).map(|i| char::from(b'a' + (i % 26) as u8)).collect();
                    let _ = w.docs[r].splice_text(&t, 0, 0, &body);
                    let _ = w.docs[r].put(automerge::ROOT, "after-paste", 1);
                    let _ = w.docs[r].delete(automerge::ROOT, "k0");
                    w.commit(r);
                    cx.count("changes_with_10000_ops");
                }
            }
        } else {
            w.run(rng, rng.clone().range(3, cx.tier.pick(40, 120)));
        }
        // one or two large changes (> 256 bytes: the DEFLATE form exists)
        for r in 0..rng.range(1, 2).min(n) {
            for _ in 0..rng.range(25, 70) {
                w.edit(r, rng);
            }
            w.commit(r);
        }
        w.collect();
        let changes = w.topo_changes();
        // (a) every change
        for c in &changes {
            cx.count("changes_roundtripped");
            let det = |what: &str| json!({"hash": c.hash().to_string(), "what": what, "raw_hex": hex::encode(&c.raw_bytes()[..c.raw_bytes().len().min(400)])});
            match catch(|| Change::from_bytes(c.raw_bytes().to_vec())) {
                Ok(Ok(c2)) => {
                    if let Some(d) = meta_diff(c, &c2) {
                        cx.violation("raw-roundtrip-differs", format!("Change::from_bytes(raw_bytes) differs from the change: {d}"), det("raw"));
                        return;
                    }
                    if c2 != *c {
                        cx.violation("raw-roundtrip-not-equal", "Change::from_bytes(raw_bytes) != change (PartialEq)".to_string(), det("raw"));
                        return;
                    }
                }
                Ok(Err(e)) => {
                    cx.violation("raw-roundtrip-fails", format!("Change::from_bytes(raw_bytes) fails: {e}"), det("raw"));
                    return;
                }
                Err(p) => {
                    cx.violation(&format!("{}|from_bytes", panic_sig(&p)), format!("Change::from_bytes(raw_bytes) panicked: {p}"), det("raw"));
                    return;
                }
            }
            let comp = c.clone().bytes().to_vec();
            if comp != c.raw_bytes() {
                cx.count("compressed_forms_roundtripped");
                match catch(|| Change::from_bytes(comp.clone())) {
                    Ok(Ok(c3)) => {
                        if let Some(d) = meta_diff(c, &c3) {
                            cx.violation("compressed-roundtrip-differs", format!("Change::from_bytes(compressed bytes) differs from the change: {d}"), det("compressed"));
                            return;
                        }
                        if let Some(d) = expanded_diff(&c.decode(), &c3.decode()) {
                            cx.violation("compressed-roundtrip-differs|decode", format!("decode() of the change loaded from its compressed bytes differs: {d}"), det("compressed"));
                            return;
                        }
                        // and the compressed form must be stable
                        let again = c3.clone().bytes().to_vec();
                        if again != comp {
                            cx.violation("compressed-bytes-unstable", "bytes() of a change loaded from compressed bytes differs from those bytes".to_string(), det("compressed"));
                            return;
                        }
                    }
                    Ok(Err(e)) => {
                        cx.violation("compressed-roundtrip-fails", format!("Change::from_bytes(compressed bytes) fails: {e}"), det("compressed"));
                        return;
                    }
                    Err(p) => {
                        cx.violation(&format!("{}|from_bytes", panic_sig(&p)), format!("Change::from_bytes(compressed) panicked: {p}"), det("compressed"));
                        return;
                    }
                }
            }
            cx.count("expanded_reencoded");
            let ex = c.decode();
            if ex.hash.is_some() && ex.hash != Some(c.hash()) {
                cx.violation("decode-hash-differs", "decode().hash differs from hash()".to_string(), det("decode"));
                return;
            }
            match catch(|| Change::from(ex.clone())) {
                Ok(c4) => {
                    if c4.hash() != c.hash() {
                        cx.violation("reencode-hash-differs", format!("Change::from(c.decode()).hash() = {} but c.hash() = {}", c4.hash(), c.hash()), det("reencode"));
                        return;
                    }
                    if let Some(d) = expanded_diff(&ex, &c4.decode()) {
                        cx.violation("reencode-decode-differs", format!("decode(encode(decode(c))) differs: {d}"), det("reencode"));
                        return;
                    }
                }
                Err(p) => {
                    cx.violation(&format!("{}|reencode", panic_sig(&p)), format!("Change::from(decode()) panicked: {p}"), det("reencode"));
                    return;
                }
            }
            if c.other_actor_ids().len() >= 1 || c.raw_bytes().len() > 256 || ex.operations.iter().any(|o| !o.pred.is_empty()) {
                cx.nontrivial(fnv(&c.hash().0));
            }
        }
        // (b) bundles
        let mut m = w.merged();
        let by_hash: BTreeMap<ChangeHash, Change> = changes.iter().map(|c| (c.hash(), c.clone())).collect();
        let hashes: Vec<ChangeHash> = changes.iter().map(|c| c.hash()).collect();
        let mut subsets: Vec<(Vec<ChangeHash>, &str)> = vec![];
        if hashes.len() <= 6 {
            for mask in 1u32..(1 << hashes.len()) {
                subsets.push((hashes.iter().enumerate().filter(|(i, _)| mask & (1 << i) != 0).map(|(_, h)| *h).collect(), "exhaustive"));
            }
        } else {
            for _ in 0..cx.tier.pick(6, 12) {
                let k = rng.range(1, hashes.len());
                match rng.below(3) {
                    0 => subsets.push((hashes[..k].to_vec(), "closed-prefix")),
                    1 => {
                        let mut s = hashes.clone();
                        rng.shuffle(&mut s);
                        s.truncate(k);
                        subsets.push((s, "random"));
                    }
                    _ => subsets.push((hashes[hashes.len() - k..].to_vec(), "suffix")),
                }
            }
            subsets.push((hashes.clone(), "all"));
        }
        for (s, how) in subsets {
            let set: BTreeSet<ChangeHash> = s.iter().copied().collect();
            let closed = set.iter().all(|h| by_hash[h].deps().iter().all(|d| set.contains(d)));
            let det = |what: &str| json!({"subset": how, "size": set.len(), "closed": closed, "what": what, "log": tail(&w.log, 15)});
            let bun = match catch(|| m.bundle(s.iter().copied())) {
                Ok(Ok(b)) => b,
                Ok(Err(e)) => {
                    cx.violation("bundle-fails", format!("bundle() of {} changes the document holds fails: {e}", set.len()), det("bundle"));
                    return;
                }
                Err(p) => {
                    cx.violation(&format!("{}|bundle", panic_sig(&p)), format!("bundle() panicked: {p}"), det("bundle"));
                    return;
                }
            };
            let bytes = bun.bytes().to_vec();
            cx.count("bundles_roundtripped");
            if set.len() > 20 {
                cx.count("bundles_over_20_changes");
            }
            if !closed {
                cx.count("bundles_not_causally_closed");
            }
            let back = match catch(|| Bundle::try_from(&bytes[..]).map(|b| b.to_changes())) {
                Ok(Ok(Ok(cs))) => cs,
                Ok(Ok(Err(e))) => {
                    cx.violation("bundle-to_changes-fails", format!("to_changes() of a bundle of {} changes fails: {e}", set.len()), det("to_changes"));
                    return;
                }
                Ok(Err(e)) => {
                    cx.violation("bundle-decode-fails", format!("Bundle::try_from(bundle bytes) fails: {e}"), det("try_from"));
                    return;
                }
                Err(p) => {
                    cx.violation(&format!("{}|bundle-decode", panic_sig(&p)), format!("decoding a bundle panicked: {p}"), det("try_from"));
                    return;
                }
            };
            let got: BTreeMap<ChangeHash, &Change> = back.iter().map(|c| (c.hash(), c)).collect();
            if got.len() != back.len() || got.keys().copied().collect::<BTreeSet<_>>() != set {
                cx.violation("bundle-returns-other-changes", format!("a bundle of {} changes ({how}) gives back {} changes / a different hash set", set.len(), back.len()), det("to_changes"));
                return;
            }
            for (h, c) in &got {
                if c.raw_bytes() != by_hash[h].raw_bytes() {
                    cx.violation("bundle-change-bytes-differ", format!("change {h} comes back from a bundle ({how}) with different bytes"), det("to_changes"));
                    return;
                }
            }
            // loading the bundle == applying the changes
            let k = rng.below(hashes.len() + 1);
            let mut base = fresh(enc, 60);
            if rng.chance(60) {
                let _ = base.apply_changes(changes[..k].iter().cloned());
            }
            let mut a = base.clone();
            let mut b = base.clone();
            if cx.verbose && std::env::var("VERIF_DUMP").is_ok() {
                let _ = std::fs::create_dir_all("/verif/out/dump/c18");
                let _ = std::fs::write("/verif/out/dump/c18/base.bin", base.clone().save());
                let mut all = vec![];
                for h in &s {
                    all.extend_from_slice(by_hash[h].raw_bytes());
                }
                let _ = std::fs::write("/verif/out/dump/c18/changes.bin", all);
            }
            let ra = catch(|| a.apply_changes(s.iter().map(|h| by_hash[h].clone())));
            let rb = catch(|| b.load_incremental(&bytes));
            cx.count("bundle_loads_compared");
            match (ra, rb) {
                (Ok(Ok(())), Ok(Ok(_))) => {
                    if let Some(d) = docs_differ(&mut a, &mut b) {
                        cx.violation("bundle-load-differs-from-apply", format!("load_incremental(bundle of {} changes, {how}) and apply_changes of the same changes give different documents: {d}", set.len()), det("load"));
                        return;
                    }
                    let qa: BTreeSet<ChangeHash> = queued_changes(&mut a).iter().map(|c| c.hash()).collect();
                    let qb: BTreeSet<ChangeHash> = queued_changes(&mut b).iter().map(|c| c.hash()).collect();
                    if qa != qb {
                        cx.violation("bundle-load-differs-from-apply|queue", format!("after load_incremental(bundle) the pending queue holds {} changes, after apply_changes {}", qb.len(), qa.len()), det("load"));
                        return;
                    }
                }
                (Err(pa), Err(pb)) if panic_sig_fn(&pa) == panic_sig_fn(&pb) => {
                    // both ways of delivering the same changes panic at the same place: that is
                    // C37's finding, not a difference between bundle and change delivery
                    cx.count("panics_left_to_C37");
                }
                (ra, rb) => {
                    let f = |r: &Result<Result<(), automerge::AutomergeError>, String>| match r {
                        Ok(Ok(())) => "ok".to_string(),
                        Ok(Err(e)) => format!("Err({e})"),
                        Err(p) => format!("panic {p}"),
                    };
                    let rb2 = rb.map(|r| r.map(|_| ()));
                    cx.violation("bundle-load-differs-from-apply|result", format!("apply_changes: {}, load_incremental(bundle): {}", f(&ra), f(&rb2)), det("load"));
                    return;
                }
            }
            if closed && by_hash.values().filter(|c| set.contains(&c.hash())).all(|c| c.deps().iter().all(|d| set.contains(d))) {
                cx.count("bundles_loaded_standalone");
                match catch(|| load_enc(&bytes, enc)) {
                    Ok(Ok(mut l)) => {
                        let mut want = fresh(enc, 61);
                        let _ = want.apply_changes(s.iter().map(|h| by_hash[h].clone()));
                        if let Some(d) = docs_differ(&mut want, &mut l) {
                            cx.violation("bundle-standalone-load-differs", format!("load(bundle of a causally closed set) differs from applying the changes: {d}"), det("standalone"));
                            return;
                        }
                    }
                    Ok(Err(e)) => {
                        cx.violation("bundle-standalone-load-fails", format!("load(bundle of a causally closed set of {} changes) fails: {e}", set.len()), det("standalone"));
                        return;
                    }
                    Err(p) => {
                        cx.violation(&format!("{}|bundle-load", panic_sig(&p)), format!("load(bundle) panicked: {p}"), det("standalone"));
                        return;
                    }
                }
            }
            if !closed || set.len() >= 3 {
                let mut acc = 0u64;
                for h in &set {
                    acc ^= fnv(&h.0);
                }
                cx.nontrivial(acc ^ 0xb0b);
            }
        }
        // (c) hand-built expanded changes
        for _ in 0..12 {
            let ex = handmade(rng);
            cx.count("handmade_changes");
            let det = || json!({"expanded": format!("{ex:?}").chars().take(1500).collect::<String>()});
            let c = match catch(|| Change::from(ex.clone())) {
                Ok(c) => c,
                Err(p) => {
                    cx.violation(&format!("{}|handmade-encode", panic_sig(&p)), format!("encoding a hand-built expanded change panicked: {p}"), det());
                    return;
                }
            };
            for (form, bytes) in [("raw", c.raw_bytes().to_vec()), ("compressed", c.clone().bytes().to_vec())] {
                match catch(|| Change::from_bytes(bytes.clone())) {
                    Ok(Ok(c2)) => {
                        if c2.hash() != c.hash() {
                            cx.violation("handmade-hash-differs", format!("hand-built change: from_bytes({form}) has another hash"), det());
                            return;
                        }
                        let back = c2.decode();
                        if let Some(d) = expanded_diff(&ex, &back) {
                            cx.violation("handmade-roundtrip-differs", format!("hand-built change does not round-trip through {form} bytes: {d}"), det());
                            return;
                        }
                        match catch(|| Change::from(back.clone())) {
                            Ok(c5) => {
                                if c5.hash() != c.hash() {
                                    cx.violation("handmade-reencode-hash-differs", "re-encoding the decoded hand-built change gives another hash".to_string(), det());
                                    return;
                                }
                            }
                            Err(p) => {
                                cx.violation(&format!("{}|handmade-reencode", panic_sig(&p)), format!("re-encoding a decoded hand-built change panicked: {p}"), det());
                                return;
                            }
                        }
                    }
                    Ok(Err(e)) => {
                        cx.violation("handmade-does-not-decode", format!("a hand-built change within the documented ranges does not decode from its {form} bytes: {e}"), det());
                        return;
                    }
                    Err(p) => {
                        cx.violation(&format!("{}|handmade-decode", panic_sig(&p)), format!("decoding a hand-built change panicked: {p}"), det());
                        return;
                    }
                }
            }
            if !ex.operations.is_empty() {
                cx.nontrivial(fnv(&c.hash().0));
            }
        }
        cx.sample(|| json!({"encoding": enc_name(enc), "changes": changes.len(), "largest_change_bytes": changes.iter().map(|c| c.raw_bytes().len()).max()}));
    }
}

// ---------------------------------------------------------------------------
// C19
// ---------------------------------------------------------------------------
impl Check for C19 {
    fn id(&self) -> &'static str {
        "C19"
    }
    fn cases(&self, tier: Tier) -> u64 {
        tier.pick(400, 30_000)
    }
    fn budget_s(&self, tier: Tier) -> u64 {
        tier.pick(40, 480)
    }
    fn rule(&self) -> String {
        "case = a generated multi-replica history. Round trips: every object id (bytes; Display → import), cursors taken at every sampled position of every list/text (both move modes, Start/End; bytes and string forms), every actor id (hex string, bytes), every change hash (hex string, bytes), the sync State of both ends of a real two-peer session at several points (decode(encode(s)) keeps shared_heads and is a fixed point) and EVERY message of that session (decode(encode(m)) == m; counted per message kind). The session also toggles read-only on both ends so that the READ_ONLY and SYNC_RESET flags travel. Resolution: each id decoded from its bytes is also used in replicas with FEWER actors (holding only the ancestors of an early head set: the id's actor-index hint may lie beyond their actor table) and must read there what the origin reads at those heads; each id/cursor decoded from its bytes and from its string is used in replicas that contain the object but number actors differently (merged into a document whose actor sorts first, load(save()), a document built by applying the changes in another order, the other replicas): reads of the object through the decoded id at the origin replica's heads must equal the origin's own reads, and get_cursor_position at those heads must equal the origin's position. Non-trivial = id/cursor resolved in a replica whose actor table differs; messages carrying changes or a have; distinct by encoded bytes.".into()
    }
    fn required_counters(&self) -> Vec<&'static str> {
        vec!["objid_roundtrips", "cursor_roundtrips", "actor_roundtrips", "hash_roundtrips", "state_roundtrips", "message_roundtrips", "messages_with_changes", "ids_resolved_in_other_replica", "ids_resolved_in_smaller_replica", "replicas_with_fewer_actors", "cursors_resolved_in_other_replica", "replicas_with_shifted_actor_table", "read_only_toggles_in_session"]
    }
    fn run_case(&self, cx: &mut Ctx, _case: u64, rng: &mut Rng) {
        let enc = enc_for(rng);
        let n = rng.range(2, 4);
        let mut w = World::new(rng, n, enc, Profile::contention());
        w.verbose = cx.verbose;
        w.run(rng, rng.clone().range(5, cx.tier.pick(50, 140)));
        let log = w.log.clone();
        let origin_idx = rng.below(n);
        let mut origin = w.docs[origin_idx].clone();
        let oheads = origin.get_heads();
        // replicas that contain everything the origin has, with other actor tables
        let mut others: Vec<(String, AutoCommit)> = vec![];
        let mut m = w.merged();
        let mut shifted = fresh(enc, 7); // actor(7) sorts before the others
        let _ = shifted.put(automerge::ROOT, "first", 1);
        shifted.commit();
        let _ = shifted.merge(&mut m);
        others.push(("merged into a document whose actor sorts first".into(), shifted));
        cx.count("replicas_with_shifted_actor_table");
        match load_enc(&m.save(), enc) {
            Ok(l) => others.push(("load(save(merged))".into(), l)),
            Err(e) => {
                cx.violation("load-of-save-failed", format!("{e}"), json!({}));
                return;
            }
        }
        let mut rev = fresh(enc, 62);
        let mut cs = w.all_changes();
        cs.reverse();
        let _ = rev.apply_changes(cs);
        others.push(("changes applied in reverse order".into(), rev));
        let mut late = fresh(enc, 11); // another early-sorting actor with its own history first
        for i in 0..3 {
            let _ = late.put(automerge::ROOT, format!("late{i}"), i as i64);
            late.commit();
        }
        let _ = late.merge(&mut origin.clone());
        others.push(("origin merged into a document with prior history of an early-sorting actor".into(), late));
        others.push(("merged".into(), m));

        let det = |what: String| json!({"what": what, "log": tail(&log, 15)});
        // --- object ids
        let mut ids: Vec<(ObjId, ObjType)> = w.gs.objs.iter().filter(|(id, _)| origin.object_type(id).is_ok()).cloned().collect();
        ids.push((automerge::ROOT, ObjType::Map));
        rng.shuffle(&mut ids);
        ids.truncate(cx.tier.pick(8, 16));
        for (id, typ) in &ids {
            cx.count("objid_roundtrips");
            let bytes = id.to_bytes();
            let from_bytes = match ObjId::try_from(&bytes[..]) {
                Ok(b) if b == *id => b,
                Ok(b) => {
                    cx.violation("objid-bytes-roundtrip-not-equal", format!("ObjId {} decodes from its bytes as {}", exid_str(id), exid_str(&b)), det(hex::encode(&bytes)));
                    return;
                }
                Err(e) => {
                    cx.violation("objid-bytes-roundtrip-fails", format!("ObjId::try_from(to_bytes()) fails for {}: {e}", exid_str(id)), det(hex::encode(&bytes)));
                    return;
                }
            };
            let s = id.to_string();
            let from_str = match origin.import(&s) {
                Ok((i2, t2)) => {
                    if i2 != *id || t2 != *typ {
                        cx.violation("objid-string-roundtrip-not-equal", format!("import({s}) gives {} ({t2:?}), expected {} ({typ:?})", exid_str(&i2), exid_str(id)), det(s.clone()));
                        return;
                    }
                    i2
                }
                Err(e) => {
                    cx.violation("objid-string-roundtrip-fails", format!("import({s}) fails on the document that produced the id: {e}"), det(s.clone()));
                    return;
                }
            };
            let want = observe_from(&origin, None, id, *typ).snap;
            for (label, d) in others.iter() {
                for (form, did) in [("bytes", &from_bytes), ("string", &from_str)] {
                    cx.count("ids_resolved_in_other_replica");
                    let got = match catch(|| observe_from(d, Some(&oheads), did, *typ).snap) {
                        Ok(g) => g,
                        Err(p) => {
                            cx.count("panics_left_to_C37");
                            let _ = p;
                            continue;
                        }
                    };
                    if let Some(diff) = first_diff(&want, &got) {
                        cx.violation("decoded-objid-resolves-differently", format!("object {} read through the id decoded from its {form} in '{label}' at the origin's heads differs from the origin: {diff}", exid_str(id)), det(label.clone()));
                        return;
                    }
                    // importing the string form in the other replica must name the same object
                    if let Ok((i3, _)) = d.import(&s) {
                        if i3 != *id {
                            cx.violation("objid-import-in-other-replica-differs", format!("import({s}) in '{label}' gives {}", exid_str(&i3)), det(label.clone()));
                            return;
                        }
                    } else {
                        cx.violation("objid-import-in-other-replica-fails", format!("import({s}) fails in '{label}' although it contains the object"), det(label.clone()));
                        return;
                    }
                    cx.nontrivial(fnv(&bytes) ^ fnv(label.as_bytes()));
                }
            }
        }
        // --- a replica with FEWER actors: it holds only the ancestors of an early head set of the
        // origin, so ids produced by the origin carry actor-index hints that may lie beyond its actor
        // table; reads there must equal the origin's reads at those heads
        {
            let known: BTreeSet<ChangeHash> = origin.get_changes(&[]).iter().map(|c| c.hash()).collect();
            let mut early: Vec<Vec<ChangeHash>> = w.head_sets.iter().filter(|h| !h.is_empty() && h.iter().all(|x| known.contains(x))).cloned().collect();
            early.sort_by_key(|h| amv::gen::ancestors(&w.ledger, h).len());
            early.truncate(3);
            for h in early {
                let anc = amv::gen::ancestors(&w.ledger, &h);
                let cs: Vec<automerge::Change> = w.topo_changes().into_iter().filter(|c| anc.contains(&c.hash())).collect();
                let created_in = |id: &ObjId| -> bool {
                    match id {
                        ObjId::Root => true,
                        ObjId::Id(c, a, _) => cs.iter().any(|ch| ch.actor_id() == a && u64::from(ch.start_op()) <= *c && *c < u64::from(ch.start_op()) + ch.len() as u64),
                    }
                };
                let mut partial = fresh(enc, 65);
                if partial.apply_changes(cs.clone()).is_err() {
                    continue;
                }
                cx.count("replicas_with_fewer_actors");
                for (id, typ) in &ids {
                    // the id as the ORIGIN numbers it (its actor-index hint reflects the origin's larger
                    // actor table), through the byte encoding
                    let Ok((oid, _)) = others[0].1.import(&id.to_string()).or_else(|_| origin.import(&id.to_string())) else { continue };
                    let Ok(did) = ObjId::try_from(&oid.to_bytes()[..]) else { continue };
                    // only objects created by a change the smaller replica holds
                    if !created_in(id) {
                        continue;
                    }
                    let want = observe_from(&origin, Some(&h), id, *typ);
                    cx.count("ids_resolved_in_smaller_replica");
                    match catch(|| (partial.object_type(&did).is_ok(), observe_from(&partial, None, &did, *typ).snap)) {
                        Ok((exists, got)) => {
                            if !exists {
                                cx.violation("decoded-objid-not-resolved-in-smaller-replica", format!("object {} was created by a change among the ancestors of {:?}, but its decoded id does not resolve in a replica holding exactly those changes", exid_str(id), hash_hex(&h)), det("smaller replica".into()));
                                return;
                            }
                            if exists {
                                if let Some(diff) = first_diff(&want.snap, &got) {
                                    cx.violation("decoded-objid-resolves-differently|smaller-replica", format!("object {} read through its decoded id in a replica holding only the ancestors of {:?} differs from the origin at those heads: {diff}", exid_str(id), hash_hex(&h)), det("smaller replica".into()));
                                    return;
                                }
                            }
                        }
                        Err(_) => cx.count("panics_left_to_C37"),
                    }
                }
            }
        }
        // --- cursors
        for (id, typ) in ids.iter().filter(|(_, t)| matches!(t, ObjType::List | ObjType::Text)) {
            let len = origin.length(id);
            let mut positions: Vec<usize> = amv::gen::GenState::boundaries(&origin, id);
            positions.retain(|p| *p < len);
            rng.shuffle(&mut positions);
            positions.truncate(6);
            let mut cursors: Vec<(Cursor, usize)> = vec![];
            for p in positions {
                for mode in [MoveCursor::After, MoveCursor::Before] {
                    if let Ok(c) = origin.get_cursor_moving(id, p, None, mode) {
                        if let Ok(pos) = origin.get_cursor_position(id, &c, None) {
                            cursors.push((c, pos));
                        }
                    }
                }
            }
            for cp in [CursorPosition::Start, CursorPosition::End] {
                if let Ok(c) = origin.get_cursor(id, cp, None) {
                    if let Ok(pos) = origin.get_cursor_position(id, &c, None) {
                        cursors.push((c, pos));
                    }
                }
            }
            let _ = typ;
            for (c, pos) in cursors {
                cx.count("cursor_roundtrips");
                let b = c.to_bytes();
                let s = c.to_string();
                let cb = match Cursor::try_from(&b[..]) {
                    Ok(x) if x == c => x,
                    Ok(x) => {
                        cx.violation("cursor-bytes-roundtrip-not-equal", format!("cursor {c} decodes from its bytes as {x}"), det(hex::encode(&b)));
                        return;
                    }
                    Err(e) => {
                        cx.violation("cursor-bytes-roundtrip-fails", format!("Cursor::try_from(to_bytes()) fails for {c}: {e}"), det(hex::encode(&b)));
                        return;
                    }
                };
                let cs = match Cursor::try_from(s.as_str()) {
                    Ok(x) if x == c => x,
                    Ok(x) => {
                        cx.violation("cursor-string-roundtrip-not-equal", format!("cursor {c} parses from its string as {x}"), det(s.clone()));
                        return;
                    }
                    Err(e) => {
                        cx.violation("cursor-string-roundtrip-fails", format!("Cursor::try_from(to_string()) fails for {s}: {e}"), det(s.clone()));
                        return;
                    }
                };
                for (label, d) in others.iter() {
                    for (form, dc) in [("bytes", &cb), ("string", &cs)] {
                        cx.count("cursors_resolved_in_other_replica");
                        match catch(|| d.get_cursor_position(id, dc, Some(&oheads))) {
                            Ok(Ok(p2)) if p2 == pos => {}
                            Ok(Ok(p2)) => {
                                cx.violation("decoded-cursor-resolves-differently", format!("cursor {c} on {} is at {pos} in the origin but the cursor decoded from its {form} resolves to {p2} in '{label}' at the origin's heads", exid_str(id)), det(label.clone()));
                                return;
                            }
                            Ok(Err(e)) => {
                                cx.violation("decoded-cursor-does-not-resolve", format!("cursor {c} decoded from its {form} fails in '{label}' at the origin's heads: {e}"), det(label.clone()));
                                return;
                            }
                            Err(_) => cx.count("panics_left_to_C37"),
                        }
                        cx.nontrivial(fnv(&b) ^ fnv(label.as_bytes()));
                    }
                }
            }
        }
        // --- actor ids and change hashes
        let mut actors: BTreeSet<ActorId> = BTreeSet::new();
        for c in w.all_changes() {
            actors.insert(c.actor_id().clone());
            cx.count("hash_roundtrips");
            let h = c.hash();
            let hs = h.to_string();
            if ChangeHash::from_str(&hs).ok() != Some(h) || ChangeHash::try_from(&h.0[..]).ok() != Some(h) {
                cx.violation("hash-roundtrip", format!("change hash {hs} does not round-trip through its string/bytes"), json!({}));
                return;
            }
        }
        for i in 0..6 {
            actors.insert(actor(rng.below(200) + i));
        }
        for a in actors {
            cx.count("actor_roundtrips");
            let hx = a.to_hex_string();
            let ok = ActorId::try_from(hx.as_str()).ok() == Some(a.clone()) && ActorId::from_str(&hx).ok() == Some(a.clone()) && ActorId::from(a.to_bytes()) == a && a.to_string() == hx;
            if !ok {
                cx.violation("actor-roundtrip", format!("actor id {hx} does not round-trip through its string/bytes"), json!({}));
                return;
            }
        }
        // --- sync states and messages of a real session
        let docs = vec![w.docs[0].clone(), if rng.chance(30) { fresh(enc, 63) } else { w.docs[1].clone() }];
        let mut net = Net::new(docs, w.gs.clone(), &[(0, 1)]);
        for step in 0..rng.range(6, 30) {
            let p = rng.below(2);
            match rng.below(12) {
                0..=3 => {
                    net.gen(0, p);
                }
                4..=7 => {
                    net.deliver(0, p);
                }
                8 | 9 => net.edit(p, rng, 2),
                _ => {
                    // read-only toggles put the READ_ONLY and (after switching back) SYNC_RESET flags
                    // on the wire
                    let v = !net.links[0].ro[p];
                    net.set_read_only(0, p, v);
                    cx.count("read_only_toggles_in_session");
                }
            }
            if step % 3 == 0 {
                for e in 0..2 {
                    cx.count("state_roundtrips");
                    let st = &net.links[0].st[e];
                    let enc1 = st.encode();
                    match sync::State::decode(&enc1) {
                        Ok(d) => {
                            if d.shared_heads != st.shared_heads {
                                cx.violation("state-roundtrip-loses-shared-heads", "State::decode(State::encode(s)).shared_heads != s.shared_heads".to_string(), json!({"encoded": hex::encode(&enc1)}));
                                return;
                            }
                            let enc2 = d.encode();
                            if enc2 != enc1 || sync::State::decode(&enc2).ok() != Some(d) {
                                cx.violation("state-roundtrip-not-a-fixed-point", "encode/decode of a decoded State is not a fixed point".to_string(), json!({"encoded": hex::encode(&enc1)}));
                                return;
                            }
                        }
                        Err(e) => {
                            cx.violation("state-roundtrip-fails", format!("State::decode(State::encode()) fails: {e}"), json!({"encoded": hex::encode(&enc1)}));
                            return;
                        }
                    }
                }
            }
        }
        for e in 0..2 {
            net.set_read_only(0, e, false);
        }
        let _ = net.run_to_quiescence(200);
        cx.add("message_roundtrips", net.msgs_sent);
        cx.add("messages_with_changes", net.msgs_with_changes);
        cx.add("v2_messages", net.v2_msgs);
        if let Some(e) = &net.wire_mismatch {
            cx.violation("message-roundtrip", e.clone(), json!({"schedule_tail": tail(&net.log, 30)}));
            return;
        }
        if net.msgs_with_changes > 0 {
            cx.nontrivial(net.sched_hash);
        }
        cx.sample(|| json!({"encoding": enc_name(enc), "ids": ids.len(), "other_replicas": others.iter().map(|o| o.0.clone()).collect::<Vec<_>>(), "messages": net.msgs_sent}));
    }
}
