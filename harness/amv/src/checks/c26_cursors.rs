//! C26 — cursors track their element through edits.
use amv::fw::*;
use amv::gen::{ancestors, GenState, Profile, World};
use amv::obs::{enc_name, exid_str, observe_opts};
use amv::refint::{build_ref, SeqElem};
use amv::util::*;
use automerge::{AutoCommit, Change, ChangeHash, Cursor, CursorPosition, MoveCursor, ObjId, ObjType, ReadDoc};
use serde_json::json;

pub struct C26;

struct Taken {
    obj: ObjId,
    elem: String,
    index: usize,
    before_mode: bool,
    cursor: Cursor,
    heads: Vec<ChangeHash>,
}

/// index (in units) of the k-th laid out element = widths of the visible elements before it
fn index_of(layout: &[SeqElem], k: usize) -> usize {
    layout[..k].iter().filter(|e| e.visible).map(|e| e.width).sum()
}

/// the property's wording, on the harness's own RGA layout
fn expected_position(layout: &[SeqElem], elem: &str, before_mode: bool) -> Option<usize> {
    let k = layout.iter().position(|e| e.id == elem)?;
    if layout[k].visible {
        return Some(index_of(layout, k));
    }
    if !before_mode {
        // After: the index of the next surviving element, or the length
        return Some(index_of(layout, k));
    }
    // Before: nearest surviving predecessor along the insertion chain, or 0
    let mut cur = layout[k].parent.clone();
    while let Some(p) = cur {
        let pk = layout.iter().position(|e| e.id == p)?;
        if layout[pk].visible {
            return Some(index_of(layout, pk));
        }
        cur = layout[pk].parent.clone();
    }
    Some(0)
}

impl Check for C26 {
    fn id(&self) -> &'static str {
        "C26"
    }
    fn cases(&self, tier: Tier) -> u64 {
        tier.pick(1500, 100_000)
    }
    fn rule(&self) -> String {
        "case = a seeded multi-replica history of list and text edits; at a random point cursors (both move modes, plus Start/End) are taken on a replica at every sampled element boundary of its lists and texts — the harness identifies the element through its own RGA layout (REF, tombstones and insertion parents included) — then the program continues (local edits, deletes of the cursor's element and of its neighbours, overwrites, concurrent inserts, merges). Checked: get_cursor_position(get_cursor(i)) = i when taken; later, on the same replica and on the merged document, the position equals the property's wording evaluated on the REF layout of that document (visible ⇒ current index; deleted+After ⇒ index of the next surviving element or the length; deleted+Before ⇒ index of the nearest surviving insertion-chain predecessor or 0); at the heads the cursor was taken at, the historical position is still i; up to 6 checkpoints are taken on the replica while the program continues (heads then + the position the wording gives then, which the current read must already show) and at the end the merged document must resolve every cursor at each checkpoint's heads to the position recorded then (elements deleted at those heads included); elements under cursors are overwritten concurrently on several replicas; Start/End resolve to 0/length; cursors survive to_bytes/to_string round trips. Non-trivial = the cursor's element was deleted, or the cursor is resolved after a merge or at historical heads; distinct by (layout, move mode, element).".into()
    }
    fn required_counters(&self) -> Vec<&'static str> {
        vec!["cursors_taken", "resolved_visible", "resolved_deleted_after", "resolved_deleted_before", "resolved_after_merge", "resolved_at_historical_heads", "resolved_at_checkpoint", "resolved_at_checkpoint_heads_later", "start_end_cursors", "cursor_serialization_roundtrips"]
    }
    fn run_case(&self, cx: &mut Ctx, _case: u64, rng: &mut Rng) {
        let enc = enc_for(rng);
        let n = rng.range(2, 3);
        let prof = Profile { counters: false, keys: 2, marks: true, blocks: true, exotic: false, ..Profile::contention() };
        let mut w = World::new(rng, n, enc, prof);
        w.verbose = cx.verbose;
        for _ in 0..rng.range(5, cx.tier.pick(40, 100)) {
            w.step(rng);
        }
        let r = rng.below(n);
        w.commit(r);
        // take cursors on replica r
        let heads_t1 = w.docs[r].get_heads();
        let changes_t1: Vec<Change> = w.docs[r].get_changes(&[]);
        let ref1 = build_ref(&changes_t1, enc);
        let o = observe_opts(&w.docs[r], None, false);
        let mut taken: Vec<Taken> = vec![];
        for (obj, typ) in &o.objects {
            if !matches!(typ, ObjType::List | ObjType::Text) {
                continue;
            }
            let Some(layout) = ref1.seq_layout(&exid_str(obj)) else { continue };
            let vis: Vec<usize> = (0..layout.len()).filter(|k| layout[*k].visible).collect();
            if vis.is_empty() {
                continue;
            }
            for _ in 0..3.min(vis.len()) {
                let k = *rng.pick(&vis);
                let i = index_of(&layout, k);
                for before_mode in [false, true] {
                    let mode = if before_mode { MoveCursor::Before } else { MoveCursor::After };
                    match w.docs[r].get_cursor_moving(obj, i, None, mode) {
                        Ok(c) => {
                            cx.count("cursors_taken");
                            match w.docs[r].get_cursor_position(obj, &c, None) {
                                Ok(p) if p == i => {}
                                other => {
                                    cx.violation("roundtrip-when-taken", format!("get_cursor_position(get_cursor({i})) = {other:?} on {}", exid_str(obj)), json!({"log": tail(&w.log, 20)}));
                                    return;
                                }
                            }
                            // serialization
                            let b = c.to_bytes();
                            let s = c.to_string();
                            cx.count("cursor_serialization_roundtrips");
                            if Cursor::try_from(&b[..]).ok().as_ref() != Some(&c) || Cursor::try_from(s.as_str()).ok().as_ref() != Some(&c) {
                                cx.violation("cursor-serialization", format!("cursor {s} does not survive to_bytes/to_string round trips"), json!({}));
                                return;
                            }
                            taken.push(Taken { obj: obj.clone(), elem: layout[k].id.clone(), index: i, before_mode, cursor: c, heads: heads_t1.clone() });
                        }
                        Err(e) => {
                            cx.violation("get-cursor-failed", format!("get_cursor_moving({}, {i}) failed: {e}", exid_str(obj)), json!({"log": tail(&w.log, 20)}));
                            return;
                        }
                    }
                }
            }
            // Start / End
            cx.count("start_end_cursors");
            let len = w.docs[r].length(obj);
            for (pos, want) in [(CursorPosition::Start, 0), (CursorPosition::End, len)] {
                let c = w.docs[r].get_cursor(obj, pos, None);
                let p = c.as_ref().ok().and_then(|c| w.docs[r].get_cursor_position(obj, c, None).ok());
                if p != Some(want) {
                    cx.violation("start-end-cursor", format!("Start/End cursor on {} resolves to {p:?}, expected {want}", exid_str(obj)), json!({}));
                    return;
                }
            }
        }
        if taken.is_empty() {
            return;
        }
        // continue: target the cursor elements and their neighbours with deletes
        let steps = rng.range(5, cx.tier.pick(40, 100));
        // checkpoints on replica r: (heads then, expected position of every cursor then, by REF)
        let mut checkpoints: Vec<(Vec<ChangeHash>, Vec<Option<usize>>)> = vec![];
        for step in 0..steps {
            if step % 9 == 8 && checkpoints.len() < 6 {
                w.commit(r);
                let hk = w.docs[r].get_heads();
                let rf = build_ref(&w.docs[r].get_changes(&[]), enc);
                let mut exp: Vec<Option<usize>> = vec![];
                for t in &taken {
                    let e = rf.seq_layout(&exid_str(&t.obj)).and_then(|l| expected_position(&l, &t.elem, t.before_mode));
                    // the current read must already agree (same oracle as at the end, at one more point in time)
                    if let Some(want) = e {
                        cx.count("resolved_at_checkpoint");
                        match w.docs[r].get_cursor_position(&t.obj, &t.cursor, None) {
                            Ok(p) if p == want => {}
                            other => {
                                cx.violation("cursor-position|checkpoint", format!("replica {r} at a checkpoint: cursor on element {} of {} (move {}) resolves to {other:?}, expected {want}", t.elem, exid_str(&t.obj), if t.before_mode { "Before" } else { "After" }), json!({"log": tail(&w.log, 30)}));
                                return;
                            }
                        }
                    }
                    exp.push(e);
                }
                checkpoints.push((hk, exp));
                // more cursors, taken now (after concurrent overwrites): a cursor taken on an
                // overwritten element refers to the value op that is current on this replica
                let o2 = observe_opts(&w.docs[r], None, false);
                for (obj, typ) in o2.objects.iter().filter(|(_, t)| matches!(t, ObjType::List | ObjType::Text)).take(3) {
                    let _ = typ;
                    let Some(layout) = rf.seq_layout(&exid_str(obj)) else { continue };
                    let vis: Vec<usize> = (0..layout.len()).filter(|k| layout[*k].visible).take(3).collect();
                    for k in vis {
                        let i = index_of(&layout, k);
                        for before_mode in [false, true] {
                            let mode = if before_mode { MoveCursor::Before } else { MoveCursor::After };
                            if let Ok(c) = w.docs[r].get_cursor_moving(obj, i, None, mode) {
                                cx.count("cursors_taken_later");
                                taken.push(Taken { obj: obj.clone(), elem: layout[k].id.clone(), index: i, before_mode, cursor: c, heads: w.docs[r].get_heads() });
                            }
                        }
                    }
                }
            }
            if rng.chance(12) {
                // overwrite the element under a cursor on a random replica (concurrent overwrites of
                // one element, later deletes by a replica that has not seen the other value)
                let t = rng.pick(&taken);
                let rr = rng.below(n);
                let d = &mut w.docs[rr];
                use automerge::transaction::Transactable;
                if let Ok(i) = d.get_cursor_position(&t.obj, &t.cursor, None) {
                    if i < d.length(&t.obj) {
                        let is_text = matches!(d.object_type(&t.obj), Ok(ObjType::Text));
                        let r2 = if is_text { d.put(&t.obj, i, "q") } else { d.put(&t.obj, i, 77) };
                        w.logln(format!("R{rr}: put({}, {i}, ..) [under cursor] -> {}", exid_str(&t.obj), r2.is_ok()));
                    }
                }
            } else if rng.chance(25) {
                // delete around a cursor position on a random replica
                let t = rng.pick(&taken);
                let rr = rng.below(n);
                let d = &mut w.docs[rr];
                let len = d.length(&t.obj);
                if len > 0 {
                    let b = GenState::boundaries(d, &t.obj);
                    let i = b[rng.below(b.len() - 1)];
                    use automerge::transaction::Transactable;
                    let _ = d.delete(&t.obj, i);
                    w.logln(format!("R{rr}: delete({}, {i}) [near cursor]", exid_str(&t.obj)));
                }
            } else {
                w.step(rng);
            }
        }
        for i in 0..n {
            w.commit(i);
        }
        w.collect();
        let all = w.ledger.clone();
        let log = w.log.clone();
        // resolve on replica r and on the merged document
        let mut m = w.merged();
        let mut targets: Vec<(&str, AutoCommit)> = vec![("same replica", w.docs[r].clone()), ("merged", m.clone())];
        for (label, d) in targets.iter_mut() {
            let changes = d.get_changes(&[]);
            let rf = build_ref(&changes, enc);
            for t in &taken {
                let Some(layout) = rf.seq_layout(&exid_str(&t.obj)) else { continue };
                let Some(expect) = expected_position(&layout, &t.elem, t.before_mode) else { continue };
                let k = layout.iter().position(|e| e.id == t.elem).unwrap();
                let deleted = !layout[k].visible;
                let got = match catch(|| d.get_cursor_position(&t.obj, &t.cursor, None)) {
                    Ok(g) => g,
                    Err(p) => {
                        cx.violation(&format!("cursor-position|panic|{}", panic_sig(&p)), format!("{label}: resolving a cursor on element {} of {} panicked: {p}", t.elem, exid_str(&t.obj)), json!({"log": tail(&log, 30)}));
                        return;
                    }
                };
                let class = if !deleted { "visible" } else if t.before_mode { "deleted_before" } else { "deleted_after" };
                cx.count(&format!("resolved_{class}"));
                if *label == "merged" {
                    cx.count("resolved_after_merge");
                }
                match got {
                    Ok(p) if p == expect => {}
                    other => {
                        cx.violation(
                            &format!("cursor-position|{class}"),
                            format!("{label}: cursor on element {} of {} (taken at index {}, move {}) resolves to {other:?}, expected {expect} ({class})", t.elem, exid_str(&t.obj), t.index, if t.before_mode { "Before" } else { "After" }),
                            json!({"layout": layout.iter().map(|e| format!("{}{}{}", e.id.split('@').next().unwrap_or(""), if e.visible { "" } else { "†" }, if e.is_mark { "m" } else { "" })).collect::<Vec<_>>(), "encoding": enc_name(enc), "log": tail(&log, 30)}),
                        );
                        return;
                    }
                }
                if deleted || *label == "merged" {
                    cx.nontrivial(fnv(format!("{}{}{}{label}", t.elem, t.before_mode, layout.len()).as_bytes()));
                }
                // historical: at the heads the cursor was taken at, it is still where it was
                if *label == "merged" {
                    cx.count("resolved_at_historical_heads");
                    let anc = ancestors(&all, &t.heads);
                    let _ = anc;
                    match d.get_cursor_position(&t.obj, &t.cursor, Some(&t.heads)) {
                        Ok(p) if p == t.index => {}
                        other => {
                            cx.violation("cursor-position|historical", format!("cursor taken at index {} resolves to {other:?} at the heads it was taken at", t.index), json!({"log": tail(&log, 30)}));
                            return;
                        }
                    }
                }
            }
        }
        // historical resolution: on the merged document (which holds later edits of every replica),
        // at the heads of each checkpoint every cursor must resolve where the property's wording put
        // it at that time
        for (hk, exp) in &checkpoints {
            for (t, e) in taken.iter().zip(exp.iter()) {
                let Some(want) = e else { continue };
                cx.count("resolved_at_checkpoint_heads_later");
                match m.get_cursor_position(&t.obj, &t.cursor, Some(hk)) {
                    Ok(p) if p == *want => {}
                    other => {
                        cx.violation(&format!("cursor-position|historical-checkpoint|{}", if t.before_mode { "before" } else { "after" }), format!("merged document at the heads of an earlier checkpoint: cursor on element {} of {} (move {}) resolves to {other:?}, it was at {want} when those heads were current", t.elem, exid_str(&t.obj), if t.before_mode { "Before" } else { "After" }), json!({"heads": hash_hex(hk), "log": tail(&log, 40)}));
                        return;
                    }
                }
                cx.nontrivial(fnv(format!("ck{}{}{:?}", t.elem, t.before_mode, hk).as_bytes()));
            }
        }
        let _ = &mut m;
        cx.sample(|| json!({"encoding": enc_name(enc), "cursors": taken.len(), "later_steps": steps, "example": taken.first().map(|t| format!("{} elem {} index {} before={}", exid_str(&t.obj), t.elem, t.index, t.before_mode))}));
    }
}
