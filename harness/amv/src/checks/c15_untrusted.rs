//! MUT-based checks: C13 (truncation), C14 (bit flips), C15 (decoders never crash),
//! C16 (accepted documents are consistent), C17 (resource bounds), C39 (UTF-8).
use amv::chunks::parse_chunks;
use amv::fw::*;
use amv::gen::{actor, random_edit, Profile, World};
use amv::mutate::*;
use amv::obs::{enc_name, first_diff, observe, observe_opts};
use amv::res::Meter;
use amv::util::*;
use automerge::sync::{self, SyncDoc};
use automerge::transaction::CommitOptions;
use automerge::{ActorId, AutoCommit, Automerge, Bundle, Change, ChangeHash, Cursor, LoadOptions, ObjId, OnPartialLoad, ReadDoc, TextEncoding, VerificationMode};
use serde_json::json;
use std::str::FromStr;

/// Decoders that take document / change / bundle bytes share one known root cause on the unchanged
/// tree (the column layer and `Document::reconstruct` do not validate what they decode), so their
/// panics are keyed on the source file only; every other decoder keeps function-precise signatures.
fn stage_group(dec: &str) -> &'static str {
    match dec {
        "load" | "load_partial_ignore" | "load_unverified" | "load_migrate" | "load_incremental" | "load_incremental_empty_doc" | "rescue" => "document-or-change-bytes",
        "change_from_bytes" => "change-bytes",
        "bundle" => "bundle-bytes",
        "message_decode" => "sync-message",
        "state_decode" => "sync-state",
        "bloom" => "bloom",
        "cursor_bytes" | "cursor_str" => "cursor",
        "objid_bytes" | "import" | "import_obj" => "object-id",
        _ => "other",
    }
}

fn panic_sig_for(dec: &str, p: &str) -> String {
    match stage_group(dec) {
        "document-or-change-bytes" | "change-bytes" | "bundle-bytes" => panic_sig_file(p),
        _ => panic_sig_fn(p),
    }
}

pub struct C13;
pub struct C14;
pub struct C15;
pub struct C16;
pub struct C17;
pub struct C39;

// ---------------------------------------------------------------------------
// C13
// ---------------------------------------------------------------------------
impl Check for C13 {
    fn id(&self) -> &'static str {
        "C13"
    }
    fn in_panic_watch(&self) -> bool {
        false
    }
    fn panic_sig_of(&self, text: &str) -> String {
        panic_sig_fn(text)
    }
    fn level(&self) -> &'static str {
        "fault_enumeration"
    }
    fn exhaustive(&self) -> bool {
        true
    }
    fn cases(&self, tier: Tier) -> u64 {
        tier.pick(96, 1600)
    }
    fn panic_is_violation(&self) -> bool {
        true
    }
    fn rule(&self) -> String {
        "case = one append-only file: save() of a writer followed by 2–8 save_incremental() outputs written while the writer keeps editing and merging (file sizes up to ~4 KiB quick / 64 KiB thorough; deflate on or off); the snapshot and heads of the writer are recorded at every write. EVERY byte offset 0..=len of the file is enumerated as a cut: load_with_options(OnPartialLoad::Ignore) of the prefix must be an empty document for cut 0, an error for a cut inside the first chunk, and otherwise equal (heads + OBS snapshot) to the writer as of the last chunk that lies completely inside the cut (chunk boundaries are found by the harness's own envelope parser); the strict load must succeed exactly at chunk boundaries (>0) and fail elsewhere; neither may panic. Exhaustive per file. Non-trivial = cut not at 0 or EOF; distinct by (file, offset).".into()
    }
    fn required_counters(&self) -> Vec<&'static str> {
        vec!["cuts_enumerated", "cuts_inside_first_chunk", "cuts_inside_later_chunk", "cuts_at_boundary", "files"]
    }
    fn run_case(&self, cx: &mut Ctx, _case: u64, rng: &mut Rng) {
        let enc = enc_for(rng);
        let n = rng.range(2, 3);
        let mut w = World::new(rng, n, enc, Profile::contention());
        for _ in 0..rng.range(2, cx.tier.pick(10, 60)) {
            w.step(rng);
        }
        w.commit(0);
        let deflate = rng.chance(50);
        let mut file = if deflate { w.docs[0].save() } else { w.docs[0].save_nocompress() };
        // (boundary offset, heads, snapshot)
        let mut marks: Vec<(usize, Vec<ChangeHash>, serde_json::Value)> = vec![(file.len(), heads_sorted(&mut w.docs[0]), observe_opts(&w.docs[0], None, false).snap)];
        for _ in 0..rng.range(2, cx.tier.pick(5, 8)) {
            for _ in 0..rng.range(1, cx.tier.pick(8, 40)) {
                w.step(rng);
            }
            w.commit(0);
            let inc = w.docs[0].save_incremental();
            if inc.is_empty() {
                continue;
            }
            file.extend_from_slice(&inc);
            marks.push((file.len(), heads_sorted(&mut w.docs[0]), observe_opts(&w.docs[0], None, false).snap));
        }
        let (chunks, _) = parse_chunks(&file);
        let bounds: Vec<usize> = chunks.iter().map(|c| c.end).collect();
        let first_end = bounds[0];
        cx.count("files");
        cx.add("file_bytes", file.len() as u64);
        let file_fp = fnv(&file);
        for cut in 0..=file.len() {
            cx.count("cuts_enumerated");
            let prefix = &file[..cut];
            let is_boundary = cut > 0 && bounds.contains(&cut);
            let last_complete = bounds.iter().filter(|b| **b <= cut).max().copied();
            if cut > 0 && cut < file.len() {
                cx.nontrivial(file_fp ^ (cut as u64).wrapping_mul(0x9e37_79b9));
            }
            if cut > 0 && cut < first_end {
                cx.count("cuts_inside_first_chunk");
            } else if is_boundary {
                cx.count("cuts_at_boundary");
            } else if cut > first_end {
                cx.count("cuts_inside_later_chunk");
            }
            let detail = |extra: String| json!({"cut": cut, "file_len": file.len(), "chunk_ends": bounds, "deflate": deflate, "encoding": enc_name(enc), "note": extra});
            // partial loads allowed
            let r = catch(|| AutoCommit::load_with_options(prefix, LoadOptions::new().text_encoding(enc).on_partial_load(OnPartialLoad::Ignore)));
            match r {
                Err(p) => {
                    cx.violation(&panic_sig_fn(&p), format!("load(partial allowed) of a {cut}-byte prefix panicked: {p}"), detail(String::new()));
                    return;
                }
                Ok(Err(e)) => {
                    if cut == 0 || cut >= first_end {
                        cx.violation(if cut == 0 { "partial-load-fails-on-empty-prefix" } else { "partial-load-fails-after-first-chunk" }, format!("load with partial loads allowed fails at cut {cut} (first chunk ends at {first_end}): {e}"), detail(String::new()));
                        return;
                    }
                }
                Ok(Ok(mut d)) => {
                    if cut > 0 && cut < first_end {
                        cx.violation("partial-load-succeeds-inside-first-chunk", format!("cut {cut} lies inside the first chunk (ends at {first_end}) but the load succeeded"), detail(String::new()));
                        return;
                    }
                    let (want_heads, want_snap) = match last_complete {
                        None => (vec![], json!(null)),
                        Some(b) => {
                            // the writer state as of the latest write whose end is <= b
                            let m = marks.iter().filter(|m| m.0 <= b).last().unwrap();
                            (m.1.clone(), m.2.clone())
                        }
                    };
                    let got_heads = heads_sorted(&mut d);
                    // several chunks may belong to one write (one incremental save = several change chunks):
                    // judge only at the ends of complete writes, and in between require a causally sane prefix
                    let at_write_end = last_complete.map(|b| marks.iter().any(|m| m.0 == b)).unwrap_or(true);
                    if at_write_end {
                        if got_heads != want_heads {
                            cx.violation("partial-load-wrong-heads", format!("cut {cut}: loaded heads {:?} but the writer had {:?} after the last complete chunk", hash_hex(&got_heads), hash_hex(&want_heads)), detail(String::new()));
                            return;
                        }
                        if last_complete.is_some() {
                            let o = observe_opts(&d, None, false);
                            if let Some(diff) = first_diff(&want_snap, &o.snap) {
                                cx.violation("partial-load-wrong-state", format!("cut {cut}: writer state at the last complete chunk (left) vs loaded document (right) {diff}"), detail(String::new()));
                                return;
                            }
                        } else if !d.get_changes(&[]).is_empty() {
                            cx.violation("partial-load-nonempty-for-empty-prefix", "loading an empty prefix gives a non-empty document".to_string(), detail(String::new()));
                            return;
                        }
                    } else {
                        cx.count("cuts_between_chunks_of_one_write");
                    }
                }
            }
            // strict load
            let r = catch(|| AutoCommit::load_with_options(prefix, LoadOptions::new().text_encoding(enc).on_partial_load(OnPartialLoad::Error)));
            match r {
                Err(p) => {
                    cx.violation(&panic_sig_fn(&p), format!("strict load of a {cut}-byte prefix panicked: {p}"), detail(String::new()));
                    return;
                }
                Ok(Ok(_)) => {
                    if cut > 0 && !is_boundary {
                        cx.violation("strict-load-succeeds-off-boundary", format!("strict load succeeded for a cut at {cut}, which is not a chunk boundary"), detail(String::new()));
                        return;
                    }
                }
                Ok(Err(e)) => {
                    if is_boundary {
                        cx.violation("strict-load-fails-at-boundary", format!("strict load fails at chunk boundary {cut}: {e}"), detail(String::new()));
                        return;
                    }
                }
            }
        }
        cx.sample(|| json!({"file_bytes": file.len(), "chunks": bounds.len(), "writes": marks.len(), "deflate": deflate, "encoding": enc_name(enc)}));
    }
}

// ---------------------------------------------------------------------------
// C14
// ---------------------------------------------------------------------------
impl Check for C14 {
    fn id(&self) -> &'static str {
        "C14"
    }
    fn in_panic_watch(&self) -> bool {
        false
    }
    fn panic_sig_of(&self, text: &str) -> String {
        panic_sig_fn(text)
    }
    fn level(&self) -> &'static str {
        "fault_enumeration"
    }
    fn exhaustive(&self) -> bool {
        true
    }
    fn cases(&self, tier: Tier) -> u64 {
        tier.pick(64, 1200)
    }
    fn panic_is_violation(&self) -> bool {
        true
    }
    fn rule(&self) -> String {
        "case = one saved output of a generated history (rotating: document with DEFLATE, document without, save followed by incremental changes, a single change chunk, a compressed change chunk, a bundle); EVERY single-bit flip of the file is enumerated (thorough: plus a sample of byte overwrites): load() must return an error; Ok(document identical to the original) is reported separately as 'accepted-unchanged', Ok(different document) and panics are violations. Exhaustive per file for single-bit flips. Non-trivial = every flip; distinct by (file, bit).".into()
    }
    fn required_counters(&self) -> Vec<&'static str> {
        vec!["flips_enumerated", "rejected", "files", "files_with_deflated_column", "kind_doc-deflate", "kind_doc-plain", "kind_doc-plus-incremental", "kind_change", "kind_bundle"]
    }
    fn run_case(&self, cx: &mut Ctx, case: u64, rng: &mut Rng) {
        let enc = enc_for(rng);
        let mut corpus = build_corpus(rng, enc, rng.clone().range(3, cx.tier.pick(14, 60)));
        let (kind, file): (&str, Vec<u8>) = match case % 6 {
            0 => {
                // make sure at least one column really is DEFLATE-compressed (columns are only
                // compressed from 256 bytes up): a 300-character value that compresses well
                let mut d = corpus.world.docs[0].clone();
                {
                    use automerge::transaction::Transactable;
                    let pad: String = (0..300).map(|i| char::from(b'a' + ((i / 7) % 5) as u8)).collect();
                    let _ = d.put(automerge::ROOT, "pad", pad);
                    d.commit();
                }
                let bytes = d.save();
                let deflated = doc_layout(&bytes).map(|l| l.change_cols.iter().chain(l.op_cols.iter()).any(|c| c.spec & 0x08 != 0)).unwrap_or(false);
                if deflated {
                    cx.count("files_with_deflated_column");
                }
                ("doc-deflate", bytes)
            }
            1 => ("doc-plain", corpus.docs[1].bytes.clone()),
            2 => ("doc-plus-incremental", corpus.docs[2].bytes.clone()),
            3 => ("change", rng.pick(&corpus.changes).bytes.clone()),
            4 => ("change", corpus.changes.iter().find(|c| c.kind == "change-compressed").map(|c| c.bytes.clone()).unwrap_or_else(|| corpus.changes[0].bytes.clone())),
            _ => match corpus.bundles.first() {
                Some(b) => ("bundle", b.bytes.clone()),
                None => ("change", corpus.changes[0].bytes.clone()),
            },
        };
        // a lone change chunk only loads where its dependencies are present: put the save of a
        // document holding exactly those dependencies in front of it and flip bits in the change only
        let mut flip_from = 0usize;
        let file = if kind == "change" {
            let deps = match automerge::Change::from_bytes(file.clone()) {
                Ok(c) => c.deps().to_vec(),
                Err(e) => {
                    cx.violation("valid-change-does-not-decode", format!("{e}"), json!({}));
                    return;
                }
            };
            let mut m = corpus.world.merged();
            let mut f = if deps.is_empty() {
                vec![]
            } else {
                match m.fork_at(&deps) {
                    Ok(mut b) => b.save(),
                    Err(_) => {
                        cx.count("change_with_unknown_deps_skipped");
                        return;
                    }
                }
            };
            flip_from = f.len();
            f.extend_from_slice(&file);
            f
        } else {
            file
        };
        let limit = cx.tier.pick(2500, 40_000);
        if file.len() - flip_from > limit {
            cx.count("files_skipped_too_large");
            return;
        }
        // a change chunk of type 2 carries a DEFLATE stream; its checksum covers the inflated bytes
        let kind: &str = if kind == "change" {
            cx.count("kind_change");
            if file.get(flip_from + 8) == Some(&2) { "change-compressed" } else { "change-raw" }
        } else {
            kind
        };
        cx.count("files");
        cx.count(&format!("kind_{kind}"));
        let orig = match load_enc(&file, enc) {
            Ok(mut d) => (heads_sorted(&mut d), observe_opts(&d, None, false).snap),
            Err(e) => {
                cx.violation("valid-file-does-not-load", format!("a valid {kind} file does not load: {e}"), json!({}));
                return;
            }
        };
        let fp = fnv(&file);
        let mut test = |cx: &mut Ctx, mutated: &[u8], what: String| -> bool {
            match catch(|| load_enc(mutated, enc)) {
                Err(p) => {
                    cx.violation(&panic_sig_fn(&p), format!("load of a {kind} file with {what} panicked: {p}"), json!({"file_len": file.len()}));
                    false
                }
                Ok(Err(_)) => {
                    cx.count("rejected");
                    true
                }
                Ok(Ok(mut d)) => {
                    let same = heads_sorted(&mut d) == orig.0 && observe_opts(&d, None, false).snap == orig.1;
                    if same {
                        cx.count("accepted_unchanged");
                        cx.violation(&format!("corruption-accepted-unchanged|{kind}"), format!("load of a {kind} file with {what} succeeded (document identical to the original), the statement demands an error"), json!({"file_len": file.len()}));
                        // keep enumerating: the rest of the file must still be covered
                        true
                    } else {
                        cx.violation(&format!("corruption-accepted-different-document|{kind}"), format!("load of a {kind} file with {what} succeeded and yields a DIFFERENT document"), json!({"file_len": file.len()}));
                        false
                    }
                }
            }
        };
        let mut buf = file.clone();
        for i in flip_from..file.len() {
            for bit in 0..8 {
                cx.count("flips_enumerated");
                buf[i] ^= 1 << bit;
                let ok = test(cx, &buf, format!("bit {bit} of byte {i} flipped"));
                buf[i] ^= 1 << bit;
                cx.nontrivial(fp ^ ((i * 8 + bit) as u64).wrapping_mul(0x9e37_79b9_7f4a_7c15));
                if !ok {
                    return;
                }
            }
        }
        if cx.tier == Tier::Thorough {
            for _ in flip_from..file.len() {
                let i = flip_from + rng.below(file.len() - flip_from);
                let v = rng.next() as u8;
                if v == file[i] {
                    continue;
                }
                cx.count("byte_overwrites");
                let old = buf[i];
                buf[i] = v;
                let ok = test(cx, &buf, format!("byte {i} overwritten with {v:#x}"));
                buf[i] = old;
                if !ok {
                    return;
                }
            }
        }
        cx.sample(|| json!({"kind": kind, "file_bytes": file.len(), "bits": file.len() * 8, "encoding": enc_name(enc)}));
    }
}

// ---------------------------------------------------------------------------
// C15
// ---------------------------------------------------------------------------
fn str_mutants(rng: &mut Rng, base: &str) -> Vec<String> {
    let mut v = vec![String::new(), "@".into(), "-".into(), "é".into(), "éa".into(), "1@zz".into(), "0@".into(), "@00".into(), "99999999999999999999999@aa".into(), "1@a".into(), "s".into(), "e".into(), "\u{0}".into(), "_root".into(), "_head".into()];
    let chars: Vec<char> = base.chars().collect();
    for _ in 0..4 {
        let mut c = chars.clone();
        if !c.is_empty() {
            let i = rng.below(c.len());
            match rng.below(4) {
                0 => {
                    c.remove(i);
                }
                1 => c.insert(i, *rng.pick(&['@', '-', 'z', 'é', '😀', '0', 'f', ' '])),
                2 => c[i] = *rng.pick(&['@', 'g', 'é', '\u{0}', 'F']),
                _ => c.truncate(i),
            }
        }
        v.push(c.into_iter().collect());
    }
    v.push(base.to_string());
    v
}

/// feed one byte string to every byte decoder; returns the name of the first decoder that panics
fn all_byte_decoders(cx: &mut Ctx, bytes: &[u8], enc: TextEncoding, target: &mut AutoCommit) -> Option<(String, String)> {
    macro_rules! guard {
        ($name:expr, $e:expr) => {
            match catch(|| $e) {
                Ok(true) => cx.count(concat!("accepted_", $name)),
                Ok(false) => {}
                Err(p) => return Some(($name.to_string(), p)),
            }
        };
    }
    guard!("load", AutoCommit::load_with_options(bytes, LoadOptions::new().text_encoding(enc)).map(|d| { let _ = observe_opts(&d, None, true); }).is_ok());
    guard!("load_partial_ignore", AutoCommit::load_with_options(bytes, LoadOptions::new().text_encoding(enc).on_partial_load(OnPartialLoad::Ignore)).map(|d| { let _ = observe_opts(&d, None, true); }).is_ok());
    guard!("load_unverified", AutoCommit::load_with_options(bytes, LoadOptions::new().text_encoding(enc).verification_mode(VerificationMode::DontCheck)).map(|mut d| { let _ = observe_opts(&d, None, true); let _ = d.get_changes(&[]); let _ = d.save(); }).is_ok());
    guard!("load_migrate", AutoCommit::load_with_options(bytes, LoadOptions::new().text_encoding(enc).migrate_strings(automerge::StringMigration::ConvertToText)).is_ok());
    guard!("load_incremental", {
        let mut t = target.clone();
        let r = t.load_incremental(bytes).is_ok();
        let _ = observe_opts(&t, None, false);
        r
    });
    guard!("load_incremental_empty_doc", fresh(enc, 20).load_incremental(bytes).is_ok());
    guard!("change_from_bytes", Change::from_bytes(bytes.to_vec()).map(|c| { let _ = c.decode(); let _ = c.hash(); let mut c2 = c.clone(); let _ = c2.bytes(); }).is_ok());
    guard!("bundle", Bundle::try_from(bytes).map(|b| { let _ = b.to_changes(); }).is_ok());
    guard!("rescue", Automerge::rescue(bytes).is_ok());
    guard!("message_decode", match sync::Message::decode(bytes) {
        Ok(m) => {
            // processing a decoded message, then generating the reply
            let mut t = target.clone();
            let mut st = sync::State::new();
            let _ = t.sync().receive_sync_message(&mut st, m);
            let _ = t.sync().generate_sync_message(&mut st);
            true
        }
        Err(_) => false,
    });
    guard!("state_decode", sync::State::decode(bytes).map(|mut s| { let _ = target.clone().sync().generate_sync_message(&mut s); }).is_ok());
    guard!("bloom", sync::BloomFilter::try_from(bytes).map(|f| { let _ = f.contains_hash(&ChangeHash([7; 32])); let _ = f.to_bytes(); }).is_ok());
    guard!("cursor_bytes", Cursor::try_from(bytes).map(|c| { let _ = c.to_string(); let _ = c.to_bytes(); for (id, _) in target.clone().get_changes(&[]).iter().take(0).map(|_| (0, 0)) { let _ = id; } }).is_ok());
    guard!("objid_bytes", ObjId::try_from(bytes).map(|o| { let _ = target.object_type(&o); let _ = target.get(&o, "k0"); let _ = target.length(&o); }).is_ok());
    guard!("change_hash_bytes", ChangeHash::try_from(bytes).is_ok());
    guard!("actor_bytes", { let a = ActorId::from(bytes); let _ = a.to_hex_string(); true });
    None
}

fn all_str_decoders(cx: &mut Ctx, s: &str, target: &AutoCommit) -> Option<(String, String)> {
    macro_rules! guard {
        ($name:expr, $e:expr) => {
            match catch(|| $e) {
                Ok(true) => cx.count(concat!("accepted_", $name)),
                Ok(false) => {}
                Err(p) => return Some(($name.to_string(), p)),
            }
        };
    }
    guard!("cursor_str", Cursor::try_from(s).map(|c| { let _ = c.to_bytes(); }).is_ok());
    guard!("actor_str", ActorId::try_from(s).is_ok());
    guard!("actor_fromstr", ActorId::from_str(s).is_ok());
    guard!("change_hash_str", ChangeHash::from_str(s).is_ok());
    guard!("import", target.import(s).is_ok());
    guard!("import_obj", target.import_obj(s).map(|o| { let _ = target.object_type(&o); }).is_ok());
    None
}

impl Check for C15 {
    fn id(&self) -> &'static str {
        "C15"
    }
    fn in_panic_watch(&self) -> bool {
        false
    }
    fn panic_sig_of(&self, text: &str) -> String {
        panic_sig_fn(text)
    }
    fn cases(&self, tier: Tier) -> u64 {
        tier.pick(480, 40_000)
    }
    fn budget_s(&self, tier: Tier) -> u64 {
        tier.pick(40, 600)
    }
    fn panic_is_violation(&self) -> bool {
        true
    }
    fn rule(&self) -> String {
        "case = a corpus of valid encodings from a generated history (documents with/without DEFLATE, save+incremental, raw and compressed change chunks, bundles, sync messages and states of a real session, cursors, object ids, a Bloom filter, plus their string forms) and ~120 mutants of it: blind byte mutations (bit flips, byte sets, truncation, extreme LEBs, deletions, insertions, splices from other samples, invalid UTF-8), mutations inside a chunk with the checksum re-sealed, mutations inside one named column of a document chunk with all lengths and the checksum fixed up (optionally followed by a head fix-up so that head verification passes), and arbitrary bytes; every mutant is fed to EVERY decoder: load (strict / partial / unverified heads / string migration), load_incremental (into a populated and into an empty document), Change::from_bytes(+decode), Bundle::try_from(+to_changes), Automerge::rescue, sync Message::decode followed by receive_sync_message + generate_sync_message, State::decode, BloomFilter::try_from(+contains_hash), Cursor/ObjId/ChangeHash/ActorId from bytes; string mutants go to Cursor::try_from(&str), ActorId and ChangeHash parsing, import and import_obj. A panic, abort (worker death) or a ≥1 GiB allocation request is a violation. Non-trivial = the input got past the envelope/checksum stage of at least one decoder or is a re-sealed mutant; distinct by input hash.".into()
    }
    fn required_counters(&self) -> Vec<&'static str> {
        vec!["inputs", "resealed_inputs", "column_mutants", "head_fixed_mutants", "accepted_load", "accepted_load_unverified", "accepted_change_from_bytes", "accepted_message_decode", "accepted_bundle", "string_inputs"]
    }
    fn run_case(&self, cx: &mut Ctx, _case: u64, rng: &mut Rng) {
        let enc = enc_for(rng);
        let mut corpus = build_corpus(rng, enc, rng.clone().range(3, cx.tier.pick(25, 80)));
        let mut target = corpus.world.docs[0].clone();
        target.commit();
        let all: Vec<Sample> = corpus.docs.iter().chain(corpus.changes.iter()).chain(corpus.bundles.iter()).chain(corpus.messages.iter()).chain(corpus.states.iter()).chain(corpus.cursors.iter()).chain(corpus.objids.iter()).chain(corpus.blooms.iter()).cloned().collect();
        let other = corpus.docs[1].bytes.clone();
        // string decoders
        let strs: Vec<String> = corpus.cursor_strs.iter().chain(corpus.objid_strs.iter()).cloned().collect();
        let hash_str = corpus.world.ledger.keys().next().map(|h| h.to_string()).unwrap_or_default();
        let actor_str = target.get_actor().to_hex_string();
        for base in strs.iter().chain([hash_str, actor_str].iter()) {
            for s in str_mutants(rng, base) {
                cx.count("string_inputs");
                if let Some((dec, p)) = all_str_decoders(cx, &s, &target) {
                    cx.violation(&format!("{}|{dec}", panic_sig_fn(&p)), format!("{dec}({s:?}) panicked: {p}"), json!({"decoder": dec, "input": s}));
                    return;
                }
            }
        }
        let per_case = cx.tier.pick(120, 200);
        for k in 0..per_case {
            let s = rng.pick(&all).clone();
            let (input, how): (Vec<u8>, String) = match k % 8 {
                0 => {
                    let (b, h) = mutate_blind(rng, &s.bytes, &other);
                    (b, h.to_string())
                }
                1 | 2 => match mutate_sealed(rng, &s.bytes, &other, rng.clone().range(1, 3)) {
                    Some((b, h)) => {
                        cx.count("resealed_inputs");
                        (b, h)
                    }
                    None => {
                        let (b, h) = mutate_blind(rng, &s.bytes, &other);
                        (b, h.to_string())
                    }
                },
                3 | 4 | 5 => match mutate_doc_column(rng, &corpus.docs[1].bytes, &other) {
                    Some((b, h)) => {
                        cx.count("column_mutants");
                        if rng.chance(60) {
                            match fix_heads(&b, enc) {
                                Some(f) => {
                                    cx.count("head_fixed_mutants");
                                    (f, format!("{h}+heads-fixed"))
                                }
                                None => (b, h),
                            }
                        } else {
                            (b, h)
                        }
                    }
                    None => (rng.bytes(20), "random".into()),
                },
                6 => {
                    let n = rng.below(64);
                    let mut b = rng.bytes(n);
                    if rng.chance(50) && b.len() >= 4 {
                        b[..4].copy_from_slice(&amv::chunks::MAGIC);
                    }
                    (b, "arbitrary".into())
                }
                _ => (s.bytes.clone(), "valid".into()),
            };
            cx.count("inputs");
            cx.add("input_bytes", input.len() as u64);
            let before: u64 = cx.counters.iter().filter(|(k, _)| k.starts_with("accepted_")).map(|(_, v)| *v).sum();
            if let Some((dec, p)) = all_byte_decoders(cx, &input, enc, &mut target) {
                cx.violation(&format!("{}|{}", panic_sig_for(&dec, &p), stage_group(&dec)), format!("{dec} panicked on a {}-byte input ({} mutant of a {} sample): {p}", input.len(), how, s.kind), json!({"decoder": dec, "mutation": how, "sample_kind": s.kind, "input_hex": hex::encode(&input[..input.len().min(600)]), "input_len": input.len()}));
                continue;
            }
            let after: u64 = cx.counters.iter().filter(|(k, _)| k.starts_with("accepted_")).map(|(_, v)| *v).sum();
            if after > before || how.contains("sealed") || how.contains("ops:") || how.contains("changes:") {
                cx.nontrivial(fnv(&input));
            }
        }
        let _ = &mut corpus;
        cx.sample(|| json!({"encoding": enc_name(enc), "corpus_samples": all.len(), "mutants": per_case}));
    }
}

// ---------------------------------------------------------------------------
// C16
// ---------------------------------------------------------------------------
impl Check for C16 {
    fn id(&self) -> &'static str {
        "C16"
    }
    fn in_panic_watch(&self) -> bool {
        false
    }
    fn panic_sig_of(&self, text: &str) -> String {
        panic_sig_fn(text)
    }
    fn cases(&self, tier: Tier) -> u64 {
        tier.pick(480, 40_000)
    }
    fn budget_s(&self, tier: Tier) -> u64 {
        tier.pick(40, 600)
    }
    fn panic_is_violation(&self) -> bool {
        true
    }
    fn rule(&self) -> String {
        "case = an uncompressed document save of a generated history; ~60 mutants, each changing bytes inside ONE named column (op columns obj/key/id/insert/action/val/pred/succ/expand/mark_name, change columns actor/seq/max_op/time/message/deps/extra) with column lengths and the checksum fixed up and the stored heads recomputed so that head verification passes; a panic or abort inside load() itself is not an accepted document and is left to C15, which feeds the same mutators to load (counted as load_panics_left_to_C15); every mutant that load() ACCEPTS (strict mode) must behave like a valid document: all OBS reads succeed without panicking and agree with each other, 12 random edits + commit work, merging a pristine replica works, save() loads back to an equal document, the H3 invariant walk passes, and its change graph is sane (get_changes works, get_heads() = the changes nothing depends on, per-actor sequence numbers 1..n without gaps); plus one mutant per case whose stored head list lacks a head. Non-trivial = the mutant was accepted; distinct by (mutated column, snapshot).".into()
    }
    fn required_counters(&self) -> Vec<&'static str> {
        vec!["mutants", "accepted_mutants", "accepted_differing_from_original", "edited_after_accept", "merged_after_accept", "accepted_graphs_checked", "head_list_mutants"]
    }
    fn min_nontrivial(&self, tier: Tier) -> u64 {
        tier.pick(20, 200)
    }
    fn run_case(&self, cx: &mut Ctx, _case: u64, rng: &mut Rng) {
        let enc = enc_for(rng);
        let mut w = World::new(rng, 2, enc, Profile::contention());
        w.run(rng, rng.clone().range(3, cx.tier.pick(25, 80)));
        let mut m = w.merged();
        let plain = m.save_nocompress();
        let orig_snap = observe_opts(&m, None, false).snap;
        let mut pristine = w.docs[1].fork().with_actor(actor(48));
        {
            use automerge::transaction::Transactable;
            let _ = pristine.put(automerge::ROOT, "pristine", 1);
            pristine.commit();
        }
        // the stored head list with one head removed (only histories with >= 2 heads): must be
        // rejected, or — if accepted — still report heads consistent with its changes
        if let Some(b) = drop_head(&plain) {
            cx.count("head_list_mutants");
            match catch(|| load_enc(&b, enc)) {
                Ok(Ok(mut d)) => {
                    cx.count("accepted_mutants");
                    if !accepted_graph_sane(cx, &mut d, "heads", "one stored head removed", &b) {
                        return;
                    }
                }
                Ok(Err(_)) => cx.count("head_list_mutants_rejected"),
                // a panic inside load is not an accepted document: C15's subject, with the same mutators
                Err(_) => cx.count("load_panics_left_to_C15"),
            }
        }
        for _ in 0..cx.tier.pick(60, 100) {
            cx.count("mutants");
            let Some((b, how)) = mutate_doc_column(rng, &plain, &plain) else { continue };
            let candidate = match fix_heads(&b, enc) {
                Some(f) => f,
                None => b,
            };
            let loaded = match catch(|| load_enc(&candidate, enc)) {
                Err(_) => {
                    cx.count("load_panics_left_to_C15");
                    continue;
                }
                Ok(Err(_)) => continue,
                Ok(Ok(d)) => d,
            };
            cx.count("accepted_mutants");
            let col = how.split(':').take(2).collect::<Vec<_>>().join(":");
            cx.count(&format!("accepted_{col}"));
            let mut d = loaded;
            let detail = |what: &str| json!({"mutation": how, "stage": what, "input_hex": hex::encode(&candidate[..candidate.len().min(1200)]), "input_len": candidate.len()});
            // reads
            let o = match catch(|| observe(&d, None)) {
                Ok(o) => o,
                Err(p) => {
                    cx.violation(&format!("{}|reads", panic_sig_file(&p)), format!("reading an accepted mutated document ({how}) panicked: {p}"), detail("reads"));
                    return;
                }
            };
            if let Some(e) = o.core_errors().first() {
                cx.violation(&format!("accepted-document-reads-inconsistently|{col}"), format!("accepted mutated document ({how}) reads inconsistently: {e}"), detail("reads"));
                return;
            }
            if o.snap != orig_snap {
                cx.count("accepted_differing_from_original");
            }
            cx.nontrivial(fnv(col.as_bytes()) ^ amv::obs::fingerprint(&o.snap));
            if !accepted_graph_sane(cx, &mut d, &col, &how, &candidate) {
                return;
            }
            if let Err(e) = d.verif_check_invariants() {
                cx.violation(&format!("accepted-document-breaks-invariant|{col}|{}", e.split(':').next().unwrap_or("")), format!("accepted mutated document ({how}) breaks an internal invariant: {e}"), detail("h3"));
                return;
            }
            // save → load → equal
            let r = catch(|| {
                let bytes = d.save();
                load_enc(&bytes, enc).map(|mut l| docs_differ(&mut d, &mut l))
            });
            match r {
                Err(p) => {
                    cx.violation(&format!("{}|save-load", panic_sig_file(&p)), format!("save/load of an accepted mutated document ({how}) panicked: {p}"), detail("save-load"));
                    return;
                }
                Ok(Err(e)) => {
                    cx.violation(&format!("accepted-document-cannot-reload|{col}"), format!("save() of an accepted mutated document ({how}) does not load: {e}"), detail("save-load"));
                    return;
                }
                Ok(Ok(Some(diff))) => {
                    cx.violation(&format!("accepted-document-reload-differs|{col}"), format!("save() of an accepted mutated document ({how}) loads to a different document: {diff}"), detail("save-load"));
                    return;
                }
                Ok(Ok(None)) => {}
            }
            // edits
            let mut gs = w.gs.clone();
            let mut e = d.clone().with_actor(actor(49));
            let mut rng2 = rng.fork();
            let r = catch(|| {
                for _ in 0..12 {
                    random_edit(&mut e, &mut rng2, &mut gs);
                }
                e.commit_with(CommitOptions::default().with_time(1));
                let _ = observe_opts(&e, None, false);
                e.save()
            });
            cx.count("edited_after_accept");
            match r {
                Err(p) => {
                    cx.violation(&format!("{}|edit", panic_sig_file(&p)), format!("editing an accepted mutated document ({how}) panicked: {p}"), detail("edit"));
                    return;
                }
                Ok(bytes) => {
                    if let Ok(Err(e2)) = catch(|| load_enc(&bytes, enc).map(|_| ())) {
                        cx.violation(&format!("accepted-document-cannot-reload-after-edit|{col}"), format!("an accepted mutated document ({how}) cannot be reloaded after edits: {e2}"), detail("edit"));
                        return;
                    }
                }
            }
            // merge with a pristine replica
            let mut p2 = pristine.clone();
            let mut d2 = d.clone();
            cx.count("merged_after_accept");
            if let Err(p) = catch(|| {
                let _ = d2.merge(&mut p2);
                let _ = observe_opts(&d2, None, false);
                let _ = p2.merge(&mut d2);
                let _ = observe_opts(&p2, None, false);
            }) {
                cx.violation(&format!("{}|merge", panic_sig_file(&p)), format!("merging an accepted mutated document ({how}) with a pristine replica panicked: {p}"), detail("merge"));
                return;
            }
        }
        cx.sample(|| json!({"encoding": enc_name(enc), "document_bytes": plain.len()}));
    }
}

/// An accepted document must have a sane change graph: get_changes works, the heads are exactly the
/// changes nothing depends on, every actor's sequence numbers are 1..n without gaps or repeats.
fn accepted_graph_sane(cx: &mut Ctx, d: &mut AutoCommit, col: &str, how: &str, input: &[u8]) -> bool {
    let detail = || json!({"mutation": how, "input_hex": hex::encode(&input[..input.len().min(1200)]), "input_len": input.len()});
    let heads = heads_sorted(d);
    let r = catch(|| {
        let all = d.get_changes(&[]);
        let none = d.get_changes(&heads);
        (all, none.len())
    });
    let (all, after_heads) = match r {
        Ok(x) => x,
        Err(p) => {
            cx.violation(&format!("{}|get_changes", panic_sig_file(&p)), format!("get_changes on an accepted mutated document ({how}) panicked: {p}"), detail());
            return false;
        }
    };
    cx.count("accepted_graphs_checked");
    let mut derived: std::collections::BTreeSet<ChangeHash> = all.iter().map(|c| c.hash()).collect();
    for c in &all {
        for dep in c.deps() {
            derived.remove(dep);
        }
    }
    let derived: Vec<ChangeHash> = derived.into_iter().collect();
    if derived != heads {
        cx.violation(&format!("accepted-document-heads-inconsistent|{col}"), format!("accepted mutated document ({how}): get_heads() reports {} head(s) but its own changes imply {}", heads.len(), derived.len()), detail());
        return false;
    }
    if after_heads != 0 {
        cx.violation(&format!("accepted-document-heads-inconsistent|{col}"), format!("accepted mutated document ({how}): get_changes(get_heads()) returns {after_heads} changes"), detail());
        return false;
    }
    let mut seqs: std::collections::BTreeMap<Vec<u8>, Vec<u64>> = Default::default();
    for c in &all {
        seqs.entry(c.actor_id().to_bytes().to_vec()).or_default().push(c.seq());
    }
    for (a, mut v) in seqs {
        v.sort();
        if v.iter().enumerate().any(|(i, s)| *s != i as u64 + 1) {
            cx.violation(&format!("accepted-document-seq-gap|{col}"), format!("accepted mutated document ({how}): actor {} has sequence numbers {v:?}", hex::encode(&a)), detail());
            return false;
        }
    }
    true
}

// ---------------------------------------------------------------------------
// C17
// ---------------------------------------------------------------------------
fn leb(v: u64) -> Vec<u8> {
    let mut o = vec![];
    amv::chunks::write_uleb(v, &mut o);
    o
}

/// hand-built sync message whose `have` carries an arbitrary bloom parameter triple
fn hostile_message(rng: &mut Rng, heads: &[ChangeHash]) -> (Vec<u8>, String) {
    let vals: [u64; 9] = [0, 1, 7, 10, 1 << 16, 1 << 31, (1u64 << 32) - 1, 1 << 40, u64::MAX];
    let (e, b, p) = (*rng.pick(&vals[..6]), *rng.pick(&vals), *rng.pick(&vals));
    let mut m = vec![0x42u8];
    m.extend(leb(heads.len() as u64));
    for h in heads {
        m.extend_from_slice(&h.0);
    }
    m.extend(leb(0)); // need
    m.extend(leb(1)); // have
    m.extend(leb(0)); // last_sync
    let mut bloom = vec![];
    bloom.extend(leb(e));
    bloom.extend(leb(b));
    bloom.extend(leb(p));
    let need = ((e as f64) * (b as f64) / 8.0).ceil();
    let n = if need < 2000.0 { need as usize } else { rng.below(32) };
    bloom.extend(rng.bytes(n));
    m.extend(leb(bloom.len() as u64));
    m.extend(bloom);
    m.extend(leb(0)); // changes
    (m, format!("bloom(entries={e},bits={b},probes={p})"))
}

impl Check for C17 {
    fn id(&self) -> &'static str {
        "C17"
    }
    fn in_panic_watch(&self) -> bool {
        false
    }
    fn panic_sig_of(&self, text: &str) -> String {
        panic_sig_fn(text)
    }
    fn alloc_death_is_violation(&self) -> bool {
        true
    }
    fn case_cpu_limit_s(&self) -> u64 {
        120
    }
    fn cases(&self, tier: Tier) -> u64 {
        tier.pick(480, 40_000)
    }
    fn budget_s(&self, tier: Tier) -> u64 {
        tier.pick(40, 600)
    }
    fn panic_is_violation(&self) -> bool {
        false
    }
    fn rule(&self) -> String {
        "case = inputs of at most 4096 bytes with extreme length/count/parameter fields: hand-built sync messages whose Bloom filter announces entries/bits/probes from {0,1,7,2^16,2^31,2^32-1,2^40,2^64-1}, re-sealed chunk and document-column mutants with extreme LEBs (run lengths, column lengths, actor/deps/heads counts, chunk lengths), DEFLATE streams that expand ~1000x, extreme cursor/object-id encodings; each input is processed as the property says (load it; decode a sync message, receive it and generate the reply; parse a cursor or id) under the RES monitor (counting allocator + thread CPU clock). Violation = one allocation request ≥ 1 GiB (the allocator refuses it and the worker is reported), peak live heap ≥ 2 GiB, total allocated ≥ 64 GiB or CPU ≥ 60 s for one input; the worst observed amplification (peak/n, total/n, cpu) is recorded as evidence, not judged. Non-trivial = the input was accepted past the first parse stage; distinct by (kind, input hash).".into()
    }
    fn required_counters(&self) -> Vec<&'static str> {
        vec!["inputs", "hostile_bloom_messages", "hostile_bloom_messages_accepted", "extreme_leb_mutants", "deflate_bombs", "replies_generated"]
    }
    fn run_case(&self, cx: &mut Ctx, _case: u64, rng: &mut Rng) {
        let enc = enc_for(rng);
        let corpus = build_corpus(rng, enc, rng.clone().range(3, 12));
        let mut target = corpus.world.docs[0].clone();
        target.commit();
        let heads = target.get_heads();
        let plain = corpus.docs[1].bytes.clone();
        let judge = |cx: &mut Ctx, kind: &str, how: &str, n: usize, u: amv::res::Usage, input: &[u8]| -> bool {
            cx.max("peak_bytes", u.peak_above_start as u64);
            cx.max("total_bytes", u.total as u64);
            cx.max("single_request_bytes", u.max_request as u64);
            cx.max("cpu_ms", u.cpu_ns / 1_000_000);
            if n > 0 {
                cx.max("peak_per_input_byte", (u.peak_above_start / n) as u64);
                cx.max("total_per_input_byte", (u.total / n) as u64);
            }
            let bad = if u.max_request >= (1 << 30) {
                Some(("single-allocation-request>=1GiB", format!("a single allocation request of {} bytes", u.max_request)))
            } else if u.peak_above_start >= (2usize << 30) {
                Some(("peak-heap>=2GiB", format!("peak live heap {} bytes", u.peak_above_start)))
            } else if u.total >= (64usize << 30) {
                Some(("total-allocated>=64GiB", format!("{} bytes allocated in total", u.total)))
            } else if u.cpu_ns >= 60_000_000_000 {
                Some(("cpu>=60s", format!("{} s of CPU", u.cpu_ns / 1_000_000_000)))
            } else {
                None
            };
            if let Some((sig, what)) = bad {
                cx.violation(&format!("{sig}|{kind}"), format!("processing a {n}-byte {kind} input ({how}) needed {what}"), json!({"kind": kind, "mutation": how, "input_hex": hex::encode(&input[..input.len().min(600)]), "usage": format!("{u:?}")}));
                return false;
            }
            true
        };
        for k in 0..cx.tier.pick(60, 100) {
            cx.count("inputs");
            match k % 5 {
                0 | 1 => {
                    // hostile bloom message: decode, receive, generate the reply
                    let (bytes, how) = hostile_message(rng, &heads);
                    cx.count("hostile_bloom_messages");
                    let mut t = target.clone();
                    let meter = Meter::start();
                    let r = catch(|| {
                        let mut st = sync::State::new();
                        match sync::Message::decode(&bytes) {
                            Ok(m) => {
                                let _ = t.sync().receive_sync_message(&mut st, m);
                                let _ = t.sync().generate_sync_message(&mut st);
                                true
                            }
                            Err(_) => false,
                        }
                    });
                    let u = meter.stop();
                    if let Ok(true) = r {
                        cx.count("hostile_bloom_messages_accepted");
                        cx.count("replies_generated");
                        cx.nontrivial(fnv(&bytes));
                    }
                    if r.is_err() {
                        cx.count("panics_left_to_C15");
                    }
                    if !judge(cx, "sync-message", &how, bytes.len(), u, &bytes) {
                        return;
                    }
                }
                2 => {
                    // extreme LEBs inside a re-sealed document / change
                    let src = if rng.chance(50) { plain.clone() } else { rng.pick(&corpus.changes).bytes.clone() };
                    if src.len() > 4096 {
                        continue;
                    }
                    let m = if rng.chance(50) { mutate_doc_column(rng, &src, &src) } else { mutate_sealed(rng, &src, &src, 2) };
                    let Some((b, how)) = m else { continue };
                    if !how.contains("leb-extreme") && !how.contains("byteset") {
                        continue;
                    }
                    cx.count("extreme_leb_mutants");
                    let b = fix_heads(&b, enc).unwrap_or(b);
                    let meter = Meter::start();
                    let r = catch(|| load_enc(&b, enc).map(|d| observe_opts(&d, None, false).snap).is_ok());
                    let u = meter.stop();
                    if let Ok(true) = r {
                        cx.nontrivial(fnv(&b));
                    }
                    if !judge(cx, "document-or-change", &how, b.len(), u, &b) {
                        return;
                    }
                }
                3 => {
                    // DEFLATE bomb: a compressed change chunk whose stream expands ~1000x
                    use std::io::Write;
                    let n = rng.range(100_000, 3_000_000);
                    let mut enc_z = flate2::write::DeflateEncoder::new(Vec::new(), flate2::Compression::best());
                    let _ = enc_z.write_all(&vec![0u8; n]);
                    let z = enc_z.finish().unwrap_or_default();
                    let chunk = amv::chunks::make_chunk(2, &z);
                    if chunk.len() > 4096 {
                        continue;
                    }
                    cx.count("deflate_bombs");
                    let meter = Meter::start();
                    let _ = catch(|| {
                        let _ = Change::from_bytes(chunk.clone());
                        let _ = load_enc(&chunk, enc);
                    });
                    let u = meter.stop();
                    cx.max("deflate_expansion_bytes", n as u64);
                    if !judge(cx, "deflate-bomb", &format!("{} bytes inflate to {n}", chunk.len()), chunk.len(), u, &chunk) {
                        return;
                    }
                }
                _ => {
                    // cursors / ids with extreme numbers
                    let mut b = if rng.chance(50) { corpus.cursors.first().map(|c| c.bytes.clone()).unwrap_or_default() } else { corpus.objids.first().map(|c| c.bytes.clone()).unwrap_or_default() };
                    if b.is_empty() {
                        continue;
                    }
                    let n = b.len();
                    let how = mutate_range(rng, &mut b, 0, n, &[]);
                    let meter = Meter::start();
                    let _ = catch(|| {
                        if let Ok(c) = Cursor::try_from(&b[..]) {
                            for (id, _) in corpus.world.gs.objs.iter().take(3) {
                                let _ = target.get_cursor_position(id, &c, None);
                            }
                        }
                        if let Ok(o) = ObjId::try_from(&b[..]) {
                            let _ = target.get(&o, 0usize);
                            let _ = target.length(&o);
                        }
                        let s = String::from_utf8_lossy(&b).to_string();
                        let _ = Cursor::try_from(s.as_str());
                    });
                    let u = meter.stop();
                    if !judge(cx, "cursor-or-id", how, b.len(), u, &b) {
                        return;
                    }
                }
            }
        }
        cx.sample(|| json!({"encoding": enc_name(enc), "note": "see observed.max_* for the worst amplification of this run"}));
    }
}

// ---------------------------------------------------------------------------
// C39
// ---------------------------------------------------------------------------
impl Check for C39 {
    fn id(&self) -> &'static str {
        "C39"
    }
    fn max_aborted_pct(&self) -> u64 {
        // the inputs of this check are hostile documents: the unchanged tree aborts on many of them
        // (C15/C17 report that); what decides C39 are its required observations
        90
    }
    fn in_panic_watch(&self) -> bool {
        false
    }
    fn panic_sig_of(&self, text: &str) -> String {
        panic_sig_fn(text)
    }
    fn cases(&self, tier: Tier) -> u64 {
        tier.pick(960, 80_000)
    }
    fn budget_s(&self, tier: Tier) -> u64 {
        tier.pick(40, 600)
    }
    fn panic_is_violation(&self) -> bool {
        false
    }
    fn rule(&self) -> String {
        "case = documents (uncompressed save, mutated inside the key / val / mark_name / message / actor columns), raw change chunks, bundles and the change payload of sync messages, each with invalid UTF-8 (overlong forms, lone surrogates, truncated sequences, 0xFF, random bytes) written into string-bearing bytes, lengths fixed up, checksums re-sealed and heads recomputed so that the validation layers above the column decoders are passed; the inputs are loaded (strict and with unverified heads), applied (load_incremental, Change::from_bytes + apply_changes, Bundle::to_changes) and received (sync message); afterwards every string the document hands out (keys, text, string values, mark names via OBS; change messages; actor ids) is re-validated and — the deciding observation — the H1 tripwire in front of hexane's only from_utf8_unchecked must never have seen invalid bytes (counter = 0), while having been exercised (calls > 0). Non-trivial = invalid UTF-8 was placed into a string column of an input that passed checksum and head checks; distinct by (column, input hash).".into()
    }
    fn required_counters(&self) -> Vec<&'static str> {
        vec!["inputs_with_invalid_utf8", "inputs_past_checksum", "unchecked_str_conversions_observed", "strings_revalidated"]
    }
    fn run_case(&self, cx: &mut Ctx, _case: u64, rng: &mut Rng) {
        let enc = enc_for(rng);
        let mut w = World::new(rng, 2, enc, Profile::contention());
        w.run(rng, rng.clone().range(3, cx.tier.pick(25, 40)));
        let mut m = w.merged();
        let plain = m.save_nocompress();
        let calls0 = hexane::verif_hooks::unchecked_calls();
        let bad_seqs: [&[u8]; 7] = [&[0xc0, 0x80], &[0xed, 0xa0, 0x80], &[0xff], &[0xe2, 0x82], &[0xf8, 0x88, 0x80, 0x80, 0x80], &[0x80], &[0xf4, 0x90, 0x80, 0x80]];
        let check_doc = |cx: &mut Ctx, d: &mut AutoCommit, how: &str, input: &[u8]| -> bool {
            let r = catch(|| {
                let o = observe_opts(d, None, true);
                let mut n = 0u64;
                // every string in the snapshot came out of the library as a Rust String: re-validate the bytes
                fn walk(j: &serde_json::Value, n: &mut u64) -> bool {
                    match j {
                        serde_json::Value::String(s) => {
                            *n += 1;
                            std::str::from_utf8(s.as_bytes()).is_ok()
                        }
                        serde_json::Value::Array(a) => a.iter().all(|x| walk(x, n)),
                        serde_json::Value::Object(m) => m.iter().all(|(k, v)| {
                            *n += 1;
                            std::str::from_utf8(k.as_bytes()).is_ok() && walk(v, n)
                        }),
                        _ => true,
                    }
                }
                let ok = walk(&o.snap, &mut n);
                for c in d.get_changes(&[]) {
                    if let Some(msg) = c.message() {
                        n += 1;
                        if std::str::from_utf8(msg.as_bytes()).is_err() {
                            return (false, n);
                        }
                    }
                    let _ = c.actor_id().to_hex_string();
                }
                (ok, n)
            });
            match r {
                Ok((ok, n)) => {
                    cx.add("strings_revalidated", n);
                    if !ok {
                        cx.violation("invalid-utf8-string-handed-out", format!("a string handed out after processing an input with invalid UTF-8 ({how}) is not valid UTF-8"), json!({"input_hex": hex::encode(&input[..input.len().min(600)])}));
                        return false;
                    }
                }
                Err(_) => cx.count("panics_left_to_C15"),
            }
            let bad = hexane::verif_hooks::invalid_utf8_count();
            if bad > 0 {
                cx.violation("invalid-utf8-reached-from_utf8_unchecked", format!("hexane's from_utf8_unchecked was handed invalid UTF-8 ({bad} times, first bytes {:?}) after an input with invalid UTF-8 ({how})", hexane::verif_hooks::first_invalid().map(hex::encode)), json!({"mutation": how, "input_hex": hex::encode(&input[..input.len().min(800)])}));
                return false;
            }
            true
        };
        // few hostile inputs per case: a worker death (allocation cap) on one of them costs only this case
        for k in 0..30 {
            let bad = *rng.pick(&bad_seqs);
            match k % 4 {
                0 | 1 => {
                    // inside a string-bearing column of the document
                    let Some(l) = doc_layout(&plain) else { return };
                    let ops = rng.chance(80);
                    let cols: Vec<&ColMeta> = if ops { l.op_cols.iter().filter(|c| matches!(c.spec >> 4, 1 | 5 | 10) && c.len > 0).collect() } else { l.change_cols.iter().filter(|c| matches!(c.spec >> 4, 4 | 0) && c.len > 0).collect() };
                    if cols.is_empty() {
                        continue;
                    }
                    let col = (*rng.pick(&cols)).clone();
                    let mut b = plain.clone();
                    let i = col.start + rng.below(col.len);
                    let n = bad.len().min(col.start + col.len - i);
                    b[i..i + n].copy_from_slice(&bad[..n]);
                    amv::chunks::reseal(&mut b, &l.chunk);
                    cx.count("inputs_with_invalid_utf8");
                    let how = format!("{}:{} bytes {}", if ops { "ops" } else { "changes" }, col_name(col.spec, ops), hex::encode(bad));
                    for cand in [Some(b.clone()), fix_heads(&b, enc)].into_iter().flatten() {
                        for unverified in [false, true] {
                            let r = catch(|| AutoCommit::load_with_options(&cand, LoadOptions::new().text_encoding(enc).verification_mode(if unverified { VerificationMode::DontCheck } else { VerificationMode::Check })));
                            match r {
                                Ok(Ok(mut d)) => {
                                    cx.count("inputs_past_checksum");
                                    cx.count("mutated_documents_accepted");
                                    cx.nontrivial(fnv(&cand) ^ col.spec as u64);
                                    if !check_doc(cx, &mut d, &how, &cand) {
                                        return;
                                    }
                                }
                                Ok(Err(e)) => {
                                    let es = e.to_string();
                                    if !es.contains("checksum") {
                                        cx.count("inputs_past_checksum");
                                        cx.nontrivial(fnv(&cand) ^ col.spec as u64);
                                    }
                                    cx.count("mutated_documents_rejected");
                                }
                                Err(_) => cx.count("panics_left_to_C15"),
                            }
                        }
                    }
                }
                2 => {
                    // inside a change chunk (re-sealed): from_bytes, apply, load_incremental, bundle-free
                    let c = rng.pick(&w.all_changes()).clone();
                    let raw = c.raw_bytes().to_vec();
                    let (cs, _) = parse_chunks(&raw);
                    let Some(ch) = cs.first().cloned() else { continue };
                    let mut b = raw.clone();
                    if ch.end - ch.data_start < 4 {
                        continue;
                    }
                    let i = rng.range(ch.data_start, ch.end - 1);
                    let n = bad.len().min(ch.end - i);
                    b[i..i + n].copy_from_slice(&bad[..n]);
                    amv::chunks::reseal(&mut b, &ch);
                    cx.count("inputs_with_invalid_utf8");
                    let how = format!("change chunk byte {i} := {}", hex::encode(bad));
                    let r = catch(|| Change::from_bytes(b.clone()));
                    if let Ok(Ok(ch2)) = r {
                        cx.count("inputs_past_checksum");
                        cx.count("mutated_changes_accepted");
                        cx.nontrivial(fnv(&b));
                        let mut d = m.clone();
                        let _ = catch(|| {
                            let _ = ch2.decode();
                            if let Some(msg) = ch2.message() {
                                let _ = std::str::from_utf8(msg.as_bytes());
                            }
                            let _ = d.apply_changes([ch2.clone()]);
                        });
                        if !check_doc(cx, &mut d, &how, &b) {
                            return;
                        }
                        let mut d2 = m.clone();
                        let _ = catch(|| d2.load_incremental(&b));
                        if !check_doc(cx, &mut d2, &how, &b) {
                            return;
                        }
                        // as the payload of a sync message
                        let mut d3 = m.clone();
                        let _ = catch(|| {
                            let msg = sync::Message { heads: vec![], need: vec![], have: vec![], changes: vec![b.clone()].into(), flags: None, version: sync::MessageVersion::V1 };
                            if let Ok(mm) = sync::Message::decode(&msg.encode()) {
                                let mut st = sync::State::new();
                                let _ = d3.sync().receive_sync_message(&mut st, mm);
                            }
                        });
                        if !check_doc(cx, &mut d3, &how, &b) {
                            return;
                        }
                    } else {
                        cx.count("mutated_changes_rejected");
                    }
                }
                _ => {
                    // inside a bundle
                    let hashes: Vec<ChangeHash> = w.ledger.keys().copied().collect();
                    let Ok(bun) = m.bundle(hashes.iter().copied()) else { continue };
                    let raw = bun.bytes().to_vec();
                    let (cs, _) = parse_chunks(&raw);
                    let Some(ch) = cs.first().cloned() else { continue };
                    let mut b = raw.clone();
                    let i = rng.range(ch.data_start, ch.end - 1);
                    let n = bad.len().min(ch.end - i);
                    b[i..i + n].copy_from_slice(&bad[..n]);
                    amv::chunks::reseal(&mut b, &ch);
                    cx.count("inputs_with_invalid_utf8");
                    let how = format!("bundle byte {i} := {}", hex::encode(bad));
                    let r = catch(|| Bundle::try_from(&b[..]).ok().and_then(|x| x.to_changes().ok()));
                    if let Ok(Some(changes)) = r {
                        cx.count("inputs_past_checksum");
                        cx.count("mutated_bundles_accepted");
                        cx.nontrivial(fnv(&b));
                        let mut d = fresh(enc, 31);
                        let _ = catch(|| d.apply_changes(changes));
                        if !check_doc(cx, &mut d, &how, &b) {
                            return;
                        }
                    }
                    let mut d2 = fresh(enc, 32);
                    let _ = catch(|| d2.load_incremental(&b));
                    if !check_doc(cx, &mut d2, &how, &b) {
                        return;
                    }
                }
            }
        }
        cx.add("unchecked_str_conversions_observed", hexane::verif_hooks::unchecked_calls() - calls0);
        cx.sample(|| json!({"encoding": enc_name(enc), "document_bytes": plain.len(), "unchecked_conversions_this_case": hexane::verif_hooks::unchecked_calls() - calls0}));
    }
}
