//! C01 — convergence: replicas with the same changes show the same document,
//! whatever the order, batching, duplication or ingestion path.
use amv::fw::*;
use amv::gen::{Profile, World};
use amv::obs::{enc_name, first_diff, fingerprint, observe};
use amv::util::*;
use automerge::{AutoCommit, Change};
use serde_json::json;

pub struct C01;

fn label_doc(cx: &mut Ctx, label: &str, d: &mut AutoCommit, reference: &(serde_json::Value, Vec<automerge::ChangeHash>, Vec<automerge::ChangeHash>), w: &World, order: &str) -> bool {
    cx.count("documents_compared");
    cx.count(&format!("path_{}", label.split(':').next().unwrap_or(label)));
    d.commit();
    let hashes = hashes_sorted(d);
    if hashes != reference.2 {
        cx.violation(
            &format!("changes-missing|{}", label.split(':').next().unwrap_or(label)),
            format!("path {label}: the document holds {} changes, expected {} (a delivered change was lost or never applied)", hashes.len(), reference.2.len()),
            json!({"path": label, "order": order, "log": tail(&w.log, 40)}),
        );
        return false;
    }
    let heads = heads_sorted(d);
    if heads != reference.1 {
        cx.violation(
            &format!("heads-differ|{}", label.split(':').next().unwrap_or(label)),
            format!("path {label}: heads {:?} differ from the reference {:?} although the change sets are equal", hash_hex(&heads), hash_hex(&reference.1)),
            json!({"path": label, "order": order, "log": tail(&w.log, 40)}),
        );
        return false;
    }
    let o = observe(d, None);
    let core = o.core_errors();
    if !core.is_empty() {
        cx.violation(
            &format!("read-inconsistency|{}", label.split(':').next().unwrap_or(label)),
            format!("path {label}: reads of the document disagree: {}", core[0]),
            json!({"path": label, "errors": core, "order": order, "log": tail(&w.log, 40)}),
        );
        return false;
    }
    if let Some(diff) = first_diff(&reference.0, &o.snap) {
        let what = if diff.contains("/marks") { "marks" } else { "state" };
        cx.violation(
            &format!("{what}-differs|{}", label.split(':').next().unwrap_or(label)),
            format!("same changes, different document: reference (left) vs path {label} (right) {diff}"),
            json!({"path": label, "diff": diff, "order": order, "encoding": enc_name(w.enc), "log": tail(&w.log, 60)}),
        );
        return false;
    }
    check_h3(cx, d, label)
}

/// replay aid (VERIF_C01_DUMP=<dir>): the document and the change of the latest one-by-one delivery
fn dump_step(d: &mut AutoCommit, c: &Change, path: &str) {
    if let Ok(dir) = std::env::var("VERIF_C01_DUMP") {
        let _ = std::fs::write(format!("{dir}/doc.bin"), d.clone().save());
        let _ = std::fs::write(format!("{dir}/change.bin"), c.raw_bytes());
        let _ = std::fs::write(format!("{dir}/path.txt"), path);
    }
}

impl Check for C01 {
    fn id(&self) -> &'static str {
        "C01"
    }
    fn cases(&self, tier: Tier) -> u64 {
        tier.pick(1600, 120_000)
    }
    fn rule(&self) -> String {
        "case = a seeded multi-replica editing program (2–5 actors; maps, lists, text, counters, marks, nested objects; concurrent edits of the same keys/positions); its final change set S is ingested through 11 paths: pairwise merges in two orders, apply_changes one-by-one in a random topological order, one shuffled batch with duplicates, reverse order one-by-one (pending queue), load(save), load(save_nocompress), save of a prefix + shuffled load_incremental of the remaining change chunks, sync from an empty peer, fork_at(heads), merge into a document that already holds a subset. All must show identical heads and OBS snapshots (values, conflict sets with op ids, order, counters, marks) and pass the H3 invariant walk. Non-trivial = ≥2 actors with causally concurrent changes (a merge of diverged heads happened); distinct by (final snapshot, delivery-order hash).".into()
    }
    fn required_counters(&self) -> Vec<&'static str> {
        vec!["path_merge", "path_apply1", "path_batch", "path_reverse", "path_load", "path_incremental", "path_sync", "path_fork_at", "queued_deliveries"]
    }
    fn run_case(&self, cx: &mut Ctx, _case: u64, rng: &mut Rng) {
        let enc = enc_for(rng);
        let n = rng.range(2, cx.tier.pick(4, 5));
        let mut w = World::new(rng, n, enc, Profile { text_elem_ops: rng.clone().chance(40), ..Profile::contention() });
        w.verbose = cx.verbose;
        let steps = rng.range(15, cx.tier.pick(70, 200));
        w.run(rng, steps);
        let changes: Vec<Change> = w.topo_changes();
        // reference: replica-order merge
        let mut refdoc = w.merged();
        let rs = observe(&refdoc, None);
        let reference = (rs.snap.clone(), heads_sorted(&mut refdoc), hashes_sorted(&mut refdoc));
        if reference.2.len() != changes.len() {
            cx.violation("merge-lost-changes", format!("merging all replicas yields {} changes, the replicas hold {} distinct ones", reference.2.len(), changes.len()), json!({"log": tail(&w.log, 40)}));
            return;
        }
        let core = rs.core_errors();
        if !core.is_empty() {
            cx.violation("read-inconsistency|merge", format!("reads of the merged document disagree: {}", core[0]), json!({"errors": core, "log": tail(&w.log, 40)}));
            return;
        }
        check_h3(cx, &refdoc, "merge:replica-order");
        cx.count("path_merge");
        let mut order_sig = 0u64;

        // (a') merge in reverse replica order
        {
            let k = w.docs.len();
            let mut m = w.docs[k - 1].fork().with_actor(amv::gen::actor(91));
            for i in (0..k - 1).rev() {
                let _ = m.merge(&mut w.docs[i]);
            }
            if !label_doc(cx, "merge:reverse-replica-order", &mut m, &reference, &w, "") {
                return;
            }
        }
        // (b) one at a time, random topological order
        {
            let order = random_topo(rng, &changes);
            order_sig ^= fnv(format!("{:?}", order.iter().map(|c| c.hash()).collect::<Vec<_>>()).as_bytes());
            let mut d = fresh(enc, 92);
            for c in &order {
                dump_step(&mut d, c, "b");
                if let Err(e) = d.apply_changes([c.clone()]) {
                    cx.violation("apply-valid-change-failed", format!("apply_changes of a valid change failed: {e}"), json!({"change": c.hash().to_string(), "log": tail(&w.log, 30)}));
                    return;
                }
            }
            if !label_doc(cx, "apply1:random-topological", &mut d, &reference, &w, "topological") {
                return;
            }
        }
        // (c) one batch, shuffled, with duplicates
        {
            let mut batch = changes.clone();
            for _ in 0..rng.below(4) {
                let c = rng.pick(&changes).clone();
                batch.push(c);
            }
            rng.shuffle(&mut batch);
            order_sig ^= fnv(format!("{:?}", batch.iter().map(|c| c.hash()).collect::<Vec<_>>()).as_bytes()).rotate_left(7);
            let mut d = fresh(enc, 93);
            if let Err(e) = d.apply_changes(batch) {
                cx.violation("apply-valid-change-failed", format!("apply_changes of a shuffled batch of valid changes (with duplicates) failed: {e}"), json!({"log": tail(&w.log, 30)}));
                return;
            }
            if !label_doc(cx, "batch:shuffled+duplicates", &mut d, &reference, &w, "shuffled batch") {
                return;
            }
        }
        // (d) reverse topological order, one at a time (exercises the pending queue)
        {
            let mut d = fresh(enc, 94);
            let mut queued = 0;
            for c in changes.iter().rev() {
                dump_step(&mut d, c, "d");
                if let Err(e) = d.apply_changes([c.clone()]) {
                    cx.violation("apply-valid-change-failed", format!("apply_changes (reverse order) of a valid change failed: {e}"), json!({"change": c.hash().to_string(), "log": tail(&w.log, 30)}));
                    return;
                }
                if !d.get_missing_deps(&[]).is_empty() {
                    queued += 1;
                }
            }
            cx.add("queued_deliveries", queued);
            if !label_doc(cx, "reverse:one-at-a-time", &mut d, &reference, &w, "reverse") {
                return;
            }
        }
        // (e) load(save) / load(save_nocompress)
        {
            let bytes = refdoc.save();
            match load_enc(&bytes, enc) {
                Ok(mut d) => {
                    if !label_doc(cx, "load:save", &mut d, &reference, &w, "") {
                        return;
                    }
                }
                Err(e) => {
                    cx.violation("load-of-save-failed", format!("load(save()) failed: {e}"), json!({"log": tail(&w.log, 30)}));
                    return;
                }
            }
            let bytes = refdoc.save_nocompress();
            match load_enc(&bytes, enc) {
                Ok(mut d) => {
                    if !label_doc(cx, "load:save_nocompress", &mut d, &reference, &w, "") {
                        return;
                    }
                }
                Err(e) => {
                    cx.violation("load-of-save-failed", format!("load(save_nocompress()) failed: {e}"), json!({"log": tail(&w.log, 30)}));
                    return;
                }
            }
        }
        // (f) save of a prefix + shuffled incremental change chunks
        {
            let topo = &changes;
            let k = rng.below(topo.len() + 1);
            let mut p = fresh(enc, 95);
            let _ = p.apply_changes(topo[..k].iter().cloned());
            let base = p.save();
            let mut rest: Vec<&Change> = topo[k..].iter().collect();
            rng.shuffle(&mut rest);
            let mut d = match load_enc(&base, enc) {
                Ok(d) => d,
                Err(e) => {
                    cx.violation("load-of-save-failed", format!("load(save()) of a prefix failed: {e}"), json!({}));
                    return;
                }
            };
            if rng.chance(50) {
                let mut cat = vec![];
                for c in &rest {
                    cat.extend_from_slice(c.raw_bytes());
                }
                if !cat.is_empty() {
                    if let Err(e) = d.load_incremental(&cat) {
                        cx.violation("load-incremental-failed", format!("load_incremental of concatenated valid change chunks failed: {e}"), json!({"log": tail(&w.log, 30)}));
                        return;
                    }
                }
            } else {
                for c in &rest {
                    if let Err(e) = d.load_incremental(c.raw_bytes()) {
                        cx.violation("load-incremental-failed", format!("load_incremental of a valid change chunk failed: {e}"), json!({"log": tail(&w.log, 30)}));
                        return;
                    }
                }
            }
            if !label_doc(cx, "incremental:prefix-save+shuffled-chunks", &mut d, &reference, &w, "shuffled incremental") {
                return;
            }
        }
        // (g) sync from an empty peer
        {
            let mut d = fresh(enc, 96);
            let mut src = refdoc.fork().with_actor(amv::gen::actor(97));
            let bound = 10 + 3 * changes.len();
            match sync_until_quiet(&mut d, &mut src, bound) {
                Some(r) => cx.max("sync_rounds", r as u64),
                None => {
                    cx.count("sync_not_quiet_left_to_C20");
                }
            }
            if hashes_sorted(&mut d) == reference.2 {
                if !label_doc(cx, "sync:from-empty-peer", &mut d, &reference, &w, "sync") {
                    return;
                }
            } else {
                cx.count("sync_incomplete_left_to_C20");
            }
        }
        // (h) fork_at(heads)
        {
            match refdoc.fork_at(&reference.1) {
                Ok(mut d) => {
                    d.set_actor(amv::gen::actor(98));
                    if !label_doc(cx, "fork_at:heads", &mut d, &reference, &w, "") {
                        return;
                    }
                }
                Err(e) => {
                    cx.violation("fork-at-heads-failed", format!("fork_at(current heads) failed: {e}"), json!({}));
                    return;
                }
            }
        }
        // (i) merge into a replica that already holds a subset
        {
            let r = rng.below(w.docs.len());
            let mut d = w.docs[r].fork().with_actor(amv::gen::actor(99));
            let mut others = changes.clone();
            rng.shuffle(&mut others);
            if let Err(e) = d.apply_changes(others) {
                cx.violation("apply-valid-change-failed", format!("apply_changes of the full set onto a replica holding a subset failed: {e}"), json!({}));
                return;
            }
            if !label_doc(cx, "batch:onto-subset", &mut d, &reference, &w, "shuffled") {
                return;
            }
        }
        if w.concurrent_merges > 0 && n >= 2 {
            cx.nontrivial(fingerprint(&reference.0) ^ order_sig);
        }
        cx.add("changes", changes.len() as u64);
        cx.add("concurrent_merges", w.concurrent_merges);
        cx.sample(|| json!({"encoding": enc_name(enc), "replicas": n, "steps": steps, "changes": changes.len(), "program_tail": tail(&w.log, 10)}));
    }
}
