//! C37 — public API calls never panic.
//!
//! Three workloads, all under a panic-catching harness:
//!  (1) hostile calls: every read and edit entry point with arguments drawn from valid, stale
//!      (other documents, other times, rolled-back transactions) and out-of-range values;
//!  (2) library-produced values fed back (patches into hydrate::Value::apply_patches, changes
//!      into decode/apply, messages into receive);
//!  (3) panic watch: the case generators of the other behavioural checks are run with their
//!      verdicts ignored; any panic of the library in them is reported here.
use amv::fw::*;
use amv::gen::{actor, invalid_edit, random_edit, Profile, World};
use amv::obs::{enc_name, observe_opts};
use amv::util::*;
use automerge::marks::{ExpandMark, Mark};
use automerge::sync::{self, SyncDoc};
use automerge::transaction::Transactable;
use automerge::{AutoCommit, Automerge, ChangeHash, Cursor, CursorPosition, MoveCursor, ObjId, ObjType, PatchLog, ReadDoc, ScalarValue, ROOT};
use serde_json::json;

pub struct C37;

struct Pools {
    objs: Vec<(ObjId, &'static str)>,
    heads: Vec<(Vec<ChangeHash>, &'static str)>,
    cursors: Vec<(Cursor, &'static str)>,
    idx: Vec<usize>,
}

fn pools(rng: &mut Rng, w: &mut World, d: &mut AutoCommit, foreign: &mut World) -> Pools {
    let mut objs: Vec<(ObjId, &'static str)> = vec![(ROOT, "root")];
    for (id, _) in w.gs.objs.iter() {
        objs.push((id.clone(), "own"));
        if let ObjId::Id(c, a, i) = id {
            if rng.chance(15) {
                objs.push((ObjId::Id(*c, a.clone(), i + 7), "stale-actor-index"));
            }
            if rng.chance(10) {
                objs.push((ObjId::Id(*c + 1, a.clone(), *i), "neighbour-op"));
            }
        }
    }
    for (id, _) in foreign.gs.objs.iter().take(4) {
        objs.push((id.clone(), "foreign-document"));
    }
    objs.push((ObjId::Id(9_999_999, actor(200), 0), "unknown"));
    objs.push((ObjId::Id(u64::MAX, actor(1), usize::MAX), "extreme"));
    objs.push((ObjId::Id(0, actor(1), 0), "counter-zero"));
    // an object created in a transaction that was rolled back
    {
        let mut t = d.clone();
        if let Ok(o) = t.put_object(ROOT, "rolled-back", ObjType::List) {
            t.rollback();
            objs.push((o, "rolled-back"));
        }
    }
    let cur = d.get_heads();
    let mut heads: Vec<(Vec<ChangeHash>, &'static str)> = vec![(cur.clone(), "current"), (vec![], "empty")];
    for h in w.head_sets.iter().take(6) {
        heads.push((h.clone(), "historical"));
    }
    let all = d.get_changes(&[]);
    if let Some(c) = all.last() {
        // a head together with one of its ancestors (not an antichain), duplicated heads
        if let Some(dep) = c.deps().first() {
            heads.push((vec![c.hash(), *dep], "non-antichain"));
        }
        heads.push((vec![c.hash(), c.hash()], "duplicated"));
    }
    heads.push((vec![ChangeHash([0x5a; 32])], "unknown"));
    heads.push((vec![ChangeHash([0; 32]), ChangeHash([0xff; 32])], "unknown"));
    if let Some(h) = foreign.head_sets.last() {
        heads.push((h.clone(), "foreign-document"));
        let mut mix = cur.clone();
        mix.extend(h.iter().copied());
        heads.push((mix, "mixed-known-unknown"));
    }
    let mut cursors: Vec<(Cursor, &'static str)> = vec![];
    for (id, t) in w.gs.objs.iter() {
        if matches!(t, ObjType::List | ObjType::Text) {
            let len = d.length(id);
            for p in [0, len / 2, len.saturating_sub(1)] {
                if let Ok(c) = d.get_cursor(id, p, None) {
                    cursors.push((c, "own"));
                }
                if let Ok(c) = d.get_cursor_moving(id, p, None, MoveCursor::Before) {
                    cursors.push((c, "own"));
                }
            }
            if let Ok(c) = d.get_cursor(id, CursorPosition::End, None) {
                cursors.push((c, "end"));
            }
            if let Ok(c) = d.get_cursor(id, CursorPosition::Start, None) {
                cursors.push((c, "start"));
            }
        }
    }
    for (id, t) in foreign.gs.objs.iter() {
        if matches!(t, ObjType::List | ObjType::Text) {
            if let Ok(c) = foreign.docs[0].get_cursor(id, 0, None) {
                cursors.push((c, "foreign-document"));
            }
        }
    }
    Pools { objs, heads, cursors, idx: vec![0, 1, 2, 3, 5, 8, 13, 40, 1000, usize::MAX, usize::MAX - 1, usize::MAX / 2, usize::MAX / 2 + 1, u32::MAX as usize, (u32::MAX as usize) + 1] }
}

macro_rules! call {
    ($cx:expr, $name:expr, $args:expr, $e:expr) => {{
        $cx.count("calls");
        // distinct (entry point, argument classes)
        $cx.nontrivial(fnv(format!("{}|{}", $name, $args.split(" i=").next().unwrap_or("")).as_bytes()));
        match catch(|| {
            let _ = $e;
        }) {
            Ok(()) => {}
            Err(p) => {
                $cx.violation(&format!("{}|{}", panic_sig_fn(&p), $name), format!("{}({}) panicked: {p}", $name, $args), json!({"api": $name, "args": $args}));
                return false;
            }
        }
    }};
}

/// ~40 read calls with hostile arguments; returns false after reporting a panic
fn hostile_reads(cx: &mut Ctx, rng: &mut Rng, d: &AutoCommit, p: &Pools) -> bool {
    for _ in 0..40 {
        let (o, oc) = rng.pick(&p.objs).clone();
        let (h, hc) = rng.pick(&p.heads).clone();
        let i = if rng.chance(60) { rng.below(d.length(&o) + 3) } else { *rng.pick(&p.idx) };
        let j = if rng.chance(60) { rng.below(d.length(&o) + 3) } else { *rng.pick(&p.idx) };
        let key = rng.pick(&["k0", "k1", "t", "l", "m", "", "missing", "ключ"]).to_string();
        let args = format!("obj={oc} heads={hc} i={i} j={j} key={key:?}");
        cx.count(&format!("argclass_obj_{oc}"));
        cx.count(&format!("argclass_heads_{hc}"));
        match rng.below(34) {
            0 => call!(cx, "get", args, (d.get(&o, key.as_str()).map(|_| ()), d.get(&o, i).map(|_| ()))),
            1 => call!(cx, "get_at", args, (d.get_at(&o, key.as_str(), &h).map(|_| ()), d.get_at(&o, i, &h).map(|_| ()))),
            2 => call!(cx, "get_all", args, (d.get_all(&o, key.as_str()).map(|_| ()), d.get_all(&o, i).map(|_| ()))),
            3 => call!(cx, "get_all_at", args, (d.get_all_at(&o, key.as_str(), &h).map(|_| ()), d.get_all_at(&o, i, &h).map(|_| ()))),
            4 => call!(cx, "keys", args, (d.keys(&o).count(), d.keys_at(&o, &h).count())),
            5 => call!(cx, "values", args, (d.values(&o).count(), d.values_at(&o, &h).count())),
            6 => call!(cx, "length", args, (d.length(&o), d.length_at(&o, &h))),
            7 => call!(cx, "object_type", args, d.object_type(&o).map(|_| ())),
            8 => call!(cx, "text", args, (d.text(&o).map(|_| ()), d.text_at(&o, &h).map(|_| ()))),
            9 => call!(cx, "marks", args, (d.marks(&o).map(|_| ()), d.marks_at(&o, &h).map(|_| ()))),
            10 => call!(cx, "get_marks", args, (d.get_marks(&o, i, None).map(|_| ()), d.get_marks(&o, i, Some(&h)).map(|_| ()))),
            11 => call!(cx, "spans", args, (d.spans(&o).map(|s| s.count()), d.spans_at(&o, &h).map(|s| s.count()))),
            12 => call!(cx, "parents", args, (d.parents(&o).map(|p| p.count()), d.parents_at(&o, &h).map(|p| p.count()))),
            13 => call!(cx, "parents.path", args, d.parents(&o).map(|p| p.path())),
            14 => call!(cx, "hydrate", args, (d.hydrate(&o, None).map(|_| ()), d.hydrate(&o, Some(&h)).map(|_| ()))),
            15 => call!(cx, "list_range", args, (d.list_range(&o, i..j).count(), d.list_range(&o, ..).count(), d.list_range(&o, i..).count(), d.list_range(&o, ..=j.min(usize::MAX - 1)).count())),
            16 => call!(cx, "list_range_at", args, (d.list_range_at(&o, i..j, &h).count(), d.list_range_at(&o, .., &h).count())),
            17 => call!(cx, "map_range", args, (d.map_range(&o, key.clone()..).count(), d.map_range(&o, ..).count(), d.map_range(&o, "z".to_string().."a".to_string()).count())),
            18 => call!(cx, "map_range_at", args, (d.map_range_at(&o, key.clone().., &h).count(), d.map_range_at(&o, .., &h).count())),
            19 => call!(cx, "iter_at", args, (d.iter_at(&o, None).count(), d.iter_at(&o, Some(&h)).count())),
            20 => call!(cx, "get_cursor", args, (d.get_cursor(&o, i, None).map(|_| ()), d.get_cursor(&o, i, Some(&h)).map(|_| ()), d.get_cursor(&o, CursorPosition::End, Some(&h)).map(|_| ()))),
            21 => call!(cx, "get_cursor_moving", args, (d.get_cursor_moving(&o, i, None, MoveCursor::Before).map(|_| ()), d.get_cursor_moving(&o, i, Some(&h), MoveCursor::After).map(|_| ()))),
            22 | 23 => {
                if p.cursors.is_empty() {
                    continue;
                }
                let (c, cc) = rng.pick(&p.cursors).clone();
                let args = format!("{args} cursor={cc}:{c}");
                cx.count(&format!("argclass_cursor_{cc}"));
                call!(cx, "get_cursor_position", args, (d.get_cursor_position(&o, &c, None).map(|_| ()), d.get_cursor_position(&o, &c, Some(&h)).map(|_| ())))
            }
            24 => call!(cx, "get_missing_deps", args, d.get_missing_deps(&h)),
            25 => call!(cx, "get_change_by_hash", args, h.first().map(|x| d.get_change_by_hash(x).map(|c| c.decode()))),
            26 => call!(cx, "hash_for_opid", args, d.hash_for_opid(&o)),
            27 => call!(cx, "bundle", args, d.bundle(h.iter().copied()).map(|b| b.to_changes().map(|_| ()))),
            28 => call!(cx, "import", args, (d.import(&o.to_string()).map(|_| ()), d.import_obj(&o.to_string()).map(|_| ()))),
            29 => call!(cx, "stats", args, d.stats()),
            30 => call!(cx, "get_fragment", args, h.first().map(|x| d.get_fragment(*x))),
            31 => call!(cx, "fragments", args, d.fragments(..).len()),
            32 => call!(cx, "observe_at", args, observe_opts(d, Some(&h), false).snap),
            _ => call!(cx, "iter", args, d.iter().count()),
        }
    }
    true
}

/// calls that need `&mut`: document-level operations with hostile heads, and edits with hostile arguments
fn hostile_mut(cx: &mut Ctx, rng: &mut Rng, d: &mut AutoCommit, p: &Pools) -> bool {
    for _ in 0..24 {
        let (o, oc) = rng.pick(&p.objs).clone();
        let (h, hc) = rng.pick(&p.heads).clone();
        let (h2, h2c) = rng.pick(&p.heads).clone();
        let len = d.length(&o);
        let i = if rng.chance(60) { rng.below(len + 3) } else { *rng.pick(&p.idx) };
        let j = if rng.chance(60) { rng.below(len + 3) } else { *rng.pick(&p.idx) };
        let del = *rng.pick(&[0isize, 1, -1, 3, -3, isize::MAX, isize::MIN, isize::MIN + 1]);
        let args = format!("obj={oc} heads={hc} heads2={h2c} i={i} j={j} del={del}");
        cx.count(&format!("argclass_obj_{oc}"));
        cx.count(&format!("argclass_heads_{hc}"));
        let mut t = d.clone();
        if let Ok(dir) = std::env::var("VERIF_C37_DUMP") {
            // replay aid: the document and arguments of the latest hostile call
            let _ = std::fs::write(format!("{dir}/doc.bin"), d.clone().save());
            let _ = std::fs::write(format!("{dir}/args.txt"), format!("{args}\nobj={o}\n"));
        }
        match rng.below(30) {
            0 => call!(cx, "diff", args, t.diff(&h, &h2).len()),
            1 => call!(cx, "diff_obj", args, (t.diff_obj(&o, &h, &h2, true).map(|v| v.len()), t.diff_obj(&o, &h, &h2, false).map(|v| v.len()))),
            2 => call!(cx, "fork_at", args, t.fork_at(&h).map(|mut f| f.save().len())),
            3 => call!(cx, "isolate", args, {
                t.isolate(&h);
                let _ = t.put(ROOT, "iso", 1);
                let _ = observe_opts(&t, None, false);
                t.commit();
                t.integrate();
                observe_opts(&t, None, false).snap
            }),
            4 => call!(cx, "save_after", args, t.save_after(&h).len()),
            5 => call!(cx, "get_changes", args, t.get_changes(&h).len()),
            6 => call!(cx, "get_changes_meta", args, t.get_changes_meta(&h).len()),
            7 => call!(cx, "transaction_at", args, {
                let mut a: Automerge = t.document().clone();
                if let Ok(mut tx) = a.transaction_at(PatchLog::inactive(), &h) {
                    let _ = tx.put(ROOT, "scoped", 1);
                    let _ = tx.splice_text(&o, i, del, "zz");
                    let _ = tx.insert(&o, i, 1);
                    tx.commit();
                };
            }),
            8 => call!(cx, "insert", args, t.insert(&o, i, 1)),
            9 => call!(cx, "insert_object", args, t.insert_object(&o, i, ObjType::Map).map(|_| ())),
            10 => call!(cx, "put", args, (t.put(&o, i, 1), t.put(&o, "", 1), t.put(&o, "k0", ScalarValue::counter(1)))),
            11 => call!(cx, "put_object", args, (t.put_object(&o, i, ObjType::Text).map(|_| ()), t.put_object(&o, "", ObjType::List).map(|_| ()))),
            12 => call!(cx, "delete", args, (t.delete(&o, i), t.delete(&o, "missing"), t.delete(&o, ""))),
            13 => call!(cx, "increment", args, (t.increment(&o, i, 1), t.increment(&o, "k0", i64::MAX), t.increment(&o, "c", i64::MIN))),
            14 => call!(cx, "splice_text", args, t.splice_text(&o, i, del, "zz")),
            15 => call!(cx, "splice", args, t.splice(&o, i, del, vec![ScalarValue::Int(1), ScalarValue::Null])),
            16 => call!(cx, "mark", args, (t.mark(&o, Mark::new("bold".into(), true, i, j), ExpandMark::Both), t.mark(&o, Mark::new("".into(), ScalarValue::Null, j, i), ExpandMark::None))),
            17 => call!(cx, "unmark", args, (t.unmark(&o, "bold", i, j, ExpandMark::After), t.unmark(&o, "never-set", j, i, ExpandMark::Before))),
            18 => call!(cx, "split_block", args, t.split_block(&o, i).map(|_| ())),
            19 => call!(cx, "join_block", args, t.join_block(&o, i)),
            20 => call!(cx, "replace_block", args, t.replace_block(&o, i).map(|_| ())),
            21 => call!(cx, "update_text", args, (t.update_text(&o, ""), t.update_text(&o, "new 😀 text"))),
            22 => call!(cx, "update_object", args, t.update_object(&o, &automerge::hydrate::Value::from(automerge::hydrate::Map::default()))),
            23 => call!(cx, "update_spans", args, t.update_spans(&o, automerge::marks::UpdateSpansConfig::default(), vec![automerge::iter::Span::Text { text: "ab".into(), marks: None }])),
            24 => call!(cx, "get_changes_added", args, {
                let mut other = amv::util::fresh(t.text_encoding(), 70);
                let _ = other.put(ROOT, "x", 1);
                (t.get_changes_added(&mut other).len(), other.get_changes_added(&mut t).len())
            }),
            25 => call!(cx, "apply_changes(own)", args, {
                let cs = t.get_changes(&[]);
                let mut e = amv::util::fresh(t.text_encoding(), 71);
                e.apply_changes(cs.into_iter().rev())
            }),
            26 => call!(cx, "rollback-then-use", args, {
                let r = t.put_object(ROOT, "tmp", ObjType::Text);
                t.rollback();
                if let Ok(o2) = r {
                    let _ = t.splice_text(&o2, 0, 0, "x");
                    let _ = t.text(&o2);
                    let _ = t.length(&o2);
                }
            }),
            27 => call!(cx, "empty_change+diff_incremental", args, {
                t.update_diff_cursor();
                t.empty_change(Default::default());
                let _ = t.insert(&o, i.min(len), 1);
                t.diff_incremental().len()
            }),
            28 => call!(cx, "has_our_changes", args, {
                let mut st = sync::State::new();
                st.shared_heads = h.clone();
                st.their_heads = Some(h2.clone());
                st.their_need = Some(h.clone());
                let _ = t.has_our_changes(&st);
                let _ = t.sync().generate_sync_message(&mut st);
            }),
            _ => call!(cx, "commit_with", args, {
                let _ = t.put(ROOT, "k0", 1);
                t.commit_with(automerge::transaction::CommitOptions::default().with_time(i64::MIN).with_message(""))
            }),
        }
    }
    true
}

impl Check for C37 {
    fn id(&self) -> &'static str {
        "C37"
    }
    fn cases(&self, tier: Tier) -> u64 {
        tier.pick(640, 60_000)
    }
    fn budget_s(&self, tier: Tier) -> u64 {
        tier.pick(50, 600)
    }
    fn panic_is_violation(&self) -> bool {
        true
    }
    fn panic_sig_of(&self, text: &str) -> String {
        panic_sig_fn(text)
    }
    fn rule(&self) -> String {
        "case kinds (rotating): (1) hostile calls — on a replica of a generated multi-replica history, ~40 read calls (get/get_all/keys/values/length/text/marks/get_marks/spans/parents/hydrate/list_range/map_range/iter/cursors/get_missing_deps/bundle/import/fragments and their *_at forms) and ~24 mutating or document-level calls (diff, diff_obj, fork_at, isolate+integrate, save_after, get_changes, transaction_at, insert/put/delete/increment/splice/splice_text/mark/unmark/split_block/join_block/replace_block/update_text/update_object/update_spans, get_changes_added, rollback-then-use, diff_incremental, has_our_changes) with arguments drawn from pools: object ids (own, stale actor index, neighbour op, other document, unknown, extreme, created in a rolled-back transaction), heads (current, empty, historical, non-antichain, duplicated, unknown, other document, mixed), indexes (in range, len..len+2, 2^32±1, usize::MAX/2±1, usize::MAX-1, usize::MAX), negative/extreme delete counts, reversed ranges, empty keys, cursors (own, other object, other document, Start/End), interleaved with the generator's own invalid edits with extreme indexes; (2) fed-back values — every patch list produced by diff() between sampled head pairs and by diff_incremental() after merges is applied to hydrate values of the 'before' state with hydrate::Value::apply_patches, every change is decoded, every sync message of a session is received by a third document; (3) panic watch — the case generators of the other behavioural checks run with their own verdicts ignored. Any panic (debug-assertion builds included) or worker death is a violation. Non-trivial = the call received a stale / out-of-range / wrong-kind argument or a library-produced value; distinct by (entry point, argument class).".into()
    }
    fn required_counters(&self) -> Vec<&'static str> {
        vec!["calls", "argclass_obj_foreign-document", "argclass_obj_stale-actor-index", "argclass_obj_rolled-back", "argclass_heads_non-antichain", "argclass_heads_unknown", "argclass_heads_duplicated", "patch_lists_applied", "patches_applied", "panic_watch_cases", "invalid_edits"]
    }
    fn run_case(&self, cx: &mut Ctx, case: u64, rng: &mut Rng) {
        match case % 4 {
            0 | 1 => self.hostile(cx, rng),
            2 => self.fed_back(cx, rng),
            _ => self.watch(cx, case, rng),
        }
    }
}

impl C37 {
    fn hostile(&self, cx: &mut Ctx, rng: &mut Rng) {
        let enc = enc_for(rng);
        let n = rng.range(2, 3);
        let mut prof = Profile::with_invalid(25);
        prof.text_elem_ops = true;
        prof.extreme_indexes = true;
        let mut w = World::new(rng, n, enc, prof);
        w.verbose = cx.verbose;
        let mut foreign = World::new(rng, 2, enc, Profile::contention());
        foreign.run(rng, 12);
        let steps = rng.range(5, cx.tier.pick(40, 120));
        for s in 0..steps {
            w.step(rng);
            if s % 8 == 7 {
                let r = rng.below(n);
                let mut d = w.docs[r].clone();
                let p = pools(rng, &mut w, &mut d, &mut foreign);
                if !hostile_reads(cx, rng, &d, &p) {
                    return;
                }
                if !hostile_mut(cx, rng, &mut d, &p) {
                    return;
                }
                // the generator's invalid edits, inside the open transaction of the live replica
                for _ in 0..4 {
                    cx.count("invalid_edits");
                    let live = &mut w.docs[r];
                    let gs = &mut w.gs;
                    let mut rr = rng.fork();
                    match catch(|| invalid_edit(live, &mut rr, gs)) {
                        Ok(e) => {
                            cx.nontrivial(fnv(e.kind.as_bytes()));
                        }
                        Err(p) => {
                            cx.violation(&format!("{}|invalid_edit", panic_sig_fn(&p)), format!("an invalid edit call panicked: {p}"), json!({"log": tail(&w.log, 10)}));
                            return;
                        }
                    }
                }
                for (k, v) in cx.counters.clone().iter() {
                    if k.starts_with("argclass_") && *v > 0 {
                        cx.nontrivial(fnv(k.as_bytes()));
                    }
                }
            }
        }
        cx.sample(|| json!({"kind": "hostile-calls", "encoding": enc_name(enc), "steps": steps}));
    }

    fn fed_back(&self, cx: &mut Ctx, rng: &mut Rng) {
        let enc = enc_for(rng);
        let n = rng.range(2, 3);
        let mut w = World::new(rng, n, enc, Profile::contention());
        w.run(rng, rng.clone().range(5, cx.tier.pick(40, 120)));
        let mut m = w.merged();
        let mut sets = w.head_sets.clone();
        rng.shuffle(&mut sets);
        sets.truncate(5);
        sets.push(vec![]);
        sets.push(m.get_heads());
        // diff patches applied to the hydrate value of the 'before' state
        for a in &sets {
            for b in &sets {
                let patches = match catch(|| m.diff(a, b)) {
                    Ok(p) => p,
                    Err(p) => {
                        cx.violation(&format!("{}|diff", panic_sig_fn(&p)), format!("diff panicked: {p}"), json!({}));
                        return;
                    }
                };
                let Ok(mut v) = m.hydrate(ROOT, Some(a)) else { continue };
                cx.count("patch_lists_applied");
                cx.add("patches_applied", patches.len() as u64);
                let kinds: Vec<String> = patches.iter().map(|p| format!("{:?}", p.action).split(|c: char| !c.is_alphanumeric()).next().unwrap_or("").to_string()).collect();
                match catch(|| v.apply_patches(enc, patches.clone())) {
                    Ok(_) => {}
                    Err(p) => {
                        cx.violation(&format!("{}|apply_patches", panic_sig_fn(&p)), format!("hydrate::Value::apply_patches panicked on patches produced by diff(): {p}"), json!({"patch_kinds": kinds}));
                        return;
                    }
                }
                for k in kinds {
                    cx.nontrivial(fnv(format!("patchkind {k}").as_bytes()));
                }
            }
        }
        // incremental patches after merges
        let mut r0 = w.docs[0].clone();
        r0.update_diff_cursor();
        let Ok(mut v) = r0.hydrate(ROOT, None) else { return };
        for i in 1..w.docs.len() {
            let mut other = w.docs[i].clone();
            let r = catch(|| {
                let _ = r0.merge(&mut other);
                r0.diff_incremental()
            });
            match r {
                Ok(patches) => {
                    cx.count("patch_lists_applied");
                    cx.add("patches_applied", patches.len() as u64);
                    if let Err(p) = catch(|| v.apply_patches(enc, patches.clone())) {
                        cx.violation(&format!("{}|apply_patches", panic_sig_fn(&p)), format!("hydrate::Value::apply_patches panicked on patches produced by diff_incremental(): {p}"), json!({}));
                        return;
                    }
                }
                Err(p) => {
                    cx.violation(&format!("{}|merge+diff_incremental", panic_sig_fn(&p)), format!("merge/diff_incremental panicked: {p}"), json!({}));
                    return;
                }
            }
        }
        // changes decoded, messages received by a third party
        for c in w.all_changes() {
            cx.count("changes_decoded");
            if let Err(p) = catch(|| c.decode()) {
                cx.violation(&format!("{}|decode", panic_sig_fn(&p)), format!("Change::decode panicked: {p}"), json!({}));
                return;
            }
        }
        let mut a = w.docs[0].clone();
        let mut b = w.docs[1].clone();
        let mut third = fresh(enc, 72);
        let (mut sa, mut sb, mut st) = (sync::State::new(), sync::State::new(), sync::State::new());
        for _ in 0..12 {
            let ma = a.sync().generate_sync_message(&mut sa);
            let mb = b.sync().generate_sync_message(&mut sb);
            if ma.is_none() && mb.is_none() {
                break;
            }
            for (m, to_b) in [(ma, true), (mb, false)] {
                let Some(m) = m else { continue };
                cx.count("messages_fed_back");
                let m3 = m.clone();
                let r = catch(|| {
                    let _ = third.sync().receive_sync_message(&mut st, m3);
                    let _ = third.sync().generate_sync_message(&mut st);
                });
                if let Err(p) = r {
                    cx.violation(&format!("{}|receive(third party)", panic_sig_fn(&p)), format!("receiving a message meant for another peer panicked: {p}"), json!({}));
                    return;
                }
                let _ = if to_b { b.sync().receive_sync_message(&mut sb, m) } else { a.sync().receive_sync_message(&mut sa, m) };
            }
        }
        cx.sample(|| json!({"kind": "fed-back-values", "encoding": enc_name(enc)}));
    }

    fn watch(&self, cx: &mut Ctx, case: u64, rng: &mut Rng) {
        let reg = super::registry();
        let watched: Vec<&Box<dyn Check>> = reg.iter().filter(|c| c.in_panic_watch() && c.id() != "C37").collect();
        let c = watched[(case / 4) as usize % watched.len()];
        cx.count("panic_watch_cases");
        cx.count(&format!("panic_watch_{}", c.id()));
        let mut scratch = Ctx::new(c.id(), cx.tier, cx.seed);
        let sub = rng.next() % c.cases(cx.tier).max(1);
        let mut r2 = Rng::for_case(cx.seed, c.id(), sub);
        let res = catch(|| c.run_case(&mut scratch, sub, &mut r2));
        if let Err(p) = res {
            cx.violation(&format!("{}|via-{}", panic_sig_fn(&p), c.id()), format!("the workload of {} (case {sub}) panicked inside the library: {p}", c.id()), json!({"via": c.id(), "sub_case": sub}));
            return;
        }
        cx.nontrivial(fnv(format!("watch {} {sub}", c.id()).as_bytes()));
    }
}
