//! C11 — save/load round-trips a document exactly.
//! C12 — incremental saves and loads compose.
use amv::fw::*;
use amv::gen::{actor, new_doc, Profile, World};
use amv::obs::{enc_name, first_diff, observe_opts};
use amv::util::*;
use automerge::transaction::Transactable;
use automerge::{AutoCommit, Change, ChangeHash, LoadOptions, ObjType, ReadDoc, SaveOptions, ScalarValue, TextEncoding, ROOT};
use serde_json::json;

pub struct C11;
pub struct C12;

/// a single-writer document tuned to column edge cases
fn columnar_doc(rng: &mut Rng, enc: TextEncoding, tier: Tier) -> AutoCommit {
    let mut d = new_doc(enc, 0);
    let l = d.put_object(ROOT, "l", ObjType::List).unwrap();
    let n = rng.range(70, tier.pick(300, 1200));
    match rng.below(5) {
        0 => {
            for i in 0..n {
                d.insert(&l, i, 7).unwrap();
            }
        }
        1 => {
            for i in 0..n {
                if i % 2 == 0 {
                    d.insert(&l, i, 1).unwrap();
                } else {
                    d.insert(&l, i, ScalarValue::Null).unwrap();
                }
            }
        }
        2 => {
            for i in 0..n {
                let v = *rng.pick(&[i64::MAX, i64::MIN, 0, -1, 1 << 40]);
                d.insert(&l, i, ScalarValue::counter(v)).unwrap();
                if rng.chance(30) {
                    let _ = d.increment(&l, i, if v > 0 { -3 } else { 3 });
                }
            }
        }
        3 => {
            let t = d.put_object(ROOT, "t", ObjType::Text).unwrap();
            let s: String = (0..n).map(|i| if i % 17 == 0 { "é" } else { "a" }).collect();
            d.splice_text(&t, 0, 0, &s).unwrap();
            for k in 0..rng.below(6) {
                let a = rng.below(n / 2);
                let _ = d.mark(&t, automerge::marks::Mark::new(format!("m{}", k % 2), true, a, a + 1 + rng.below(n / 2)), automerge::marks::ExpandMark::Both);
            }
            for _ in 0..rng.below(20) {
                let len = d.length(&t);
                if len > 0 {
                    let i = amv::gen::GenState::boundaries(&d, &t);
                    let a = *rng.pick(&i[..i.len() - 1]);
                    let _ = d.splice_text(&t, a, 1, "");
                }
            }
        }
        _ => {
            for i in 0..n {
                d.insert(&l, i, format!("string-{}", i % 3)).unwrap();
                if i % 5 == 0 {
                    d.put(ROOT, format!("key{}", i % 40), i as i64).unwrap();
                }
            }
            d.insert_object(&l, 0, ObjType::Map).unwrap();
            d.insert_object(&l, 1, ObjType::List).unwrap();
        }
    }
    d.commit();
    // many actors (multi-byte actor indexes need >127 actors)
    if rng.chance(tier.pick(15, 30)) {
        let k = rng.range(125, 140);
        for a in 0..k {
            let mut f = d.fork().with_actor(actor(300 + a));
            f.put(ROOT, "by", a as i64).unwrap();
            if a % 3 == 0 {
                let len = f.length(&l);
                let _ = f.insert(&l, len.min(a), a as i64);
            }
            f.commit();
            d.merge(&mut f).unwrap();
        }
    }
    d
}

fn roundtrip(cx: &mut Ctx, label: &str, d: &mut AutoCommit, enc: TextEncoding, ledger: Option<&std::collections::BTreeMap<ChangeHash, Change>>, head_sets: &[Vec<ChangeHash>], log: &[String]) -> bool {
    d.commit();
    let has_queue = !d.get_missing_deps(&[]).is_empty();
    for (deflate, retain) in [(true, true), (false, true), (true, false), (false, false)] {
        if !retain && !has_queue && !deflate {
            continue;
        }
        let bytes = d.save_with_options(SaveOptions { deflate, retain_orphans: retain });
        cx.count("roundtrips");
        cx.add("bytes_saved", bytes.len() as u64);
        if deflate {
            let plain = d.save_with_options(SaveOptions { deflate: false, retain_orphans: retain });
            if plain.len() > bytes.len() {
                cx.count("deflate_shrank_output");
            }
        }
        let mut l = match load_enc(&bytes, enc) {
            Ok(l) => l,
            Err(e) => {
                cx.violation("load-of-save-failed", format!("{label}: load(save{{deflate:{deflate},retain_orphans:{retain}}}) failed: {e}"), json!({"log": tail(log, 30)}));
                return false;
            }
        };
        let sig = format!("{}|{}", if deflate { "deflate" } else { "plain" }, if retain { "orphans" } else { "no-orphans" });
        // heads and change bytes
        let (hd, hl) = (heads_sorted(d), heads_sorted(&mut l));
        if hd != hl {
            cx.violation(&format!("heads-differ|{sig}"), format!("{label}: heads after reload differ"), json!({"log": tail(log, 30)}));
            return false;
        }
        let cd = d.get_changes(&[]);
        let cl = l.get_changes(&[]);
        if cd.len() != cl.len() {
            cx.violation(&format!("changes-differ|{sig}"), format!("{label}: {} changes before, {} after reload", cd.len(), cl.len()), json!({"log": tail(log, 30)}));
            return false;
        }
        let by: std::collections::BTreeMap<ChangeHash, &Change> = cd.iter().map(|c| (c.hash(), c)).collect();
        for c in &cl {
            cx.count("change_bytes_compared");
            let orig = ledger.and_then(|l| l.get(&c.hash())).or(by.get(&c.hash()).copied());
            match orig {
                Some(o) if o.raw_bytes() == c.raw_bytes() => {}
                Some(_) => {
                    cx.violation(&format!("change-bytes-differ|{sig}"), format!("{label}: change {} has different bytes after reload", c.hash()), json!({"log": tail(log, 30)}));
                    return false;
                }
                None => {
                    cx.violation(&format!("changes-differ|{sig}"), format!("{label}: reload contains change {} the original lacks", c.hash()), json!({}));
                    return false;
                }
            }
        }
        // pending queue
        let (mut md, mut ml) = (d.get_missing_deps(&[]), l.get_missing_deps(&[]));
        md.sort();
        ml.sort();
        if retain {
            if md != ml {
                cx.violation(&format!("orphans-differ|{sig}"), format!("{label}: pending out-of-order changes differ after reload (missing deps {:?} vs {:?})", hash_hex(&md), hash_hex(&ml)), json!({"log": tail(log, 30)}));
                return false;
            }
            if has_queue {
                cx.count("roundtrips_with_queue");
            }
        } else if !ml.is_empty() {
            cx.violation(&format!("orphans-not-dropped|{sig}"), format!("{label}: retain_orphans=false but the reload still has pending changes"), json!({}));
            return false;
        }
        // current state and historical states
        let od = observe_opts(d, None, false);
        let ol = observe_opts(&l, None, true);
        let core = ol.core_errors();
        if !core.is_empty() {
            cx.violation(&format!("read-inconsistency|{sig}"), format!("{label}: reloaded document reads inconsistently: {}", core[0]), json!({"errors": core, "log": tail(log, 30)}));
            return false;
        }
        if let Some(diff) = first_diff(&od.snap, &ol.snap) {
            let what = if diff.contains("/marks") { "marks" } else { "state" };
            cx.violation(&format!("{what}-differs|{sig}"), format!("{label}: original (left) vs reload (right) {diff}"), json!({"log": tail(log, 40), "encoding": enc_name(enc)}));
            return false;
        }
        let mut hs: Vec<&Vec<ChangeHash>> = head_sets.iter().filter(|h| h.iter().all(|x| by.contains_key(x))).collect();
        if hs.len() > 4 {
            let k = hs.len();
            hs = vec![hs[0], hs[k / 3], hs[2 * k / 3], hs[k - 1]];
        }
        for h in hs {
            cx.count("historical_states_compared");
            let a = observe_opts(d, Some(h), false);
            let b = observe_opts(&l, Some(h), false);
            if let Some(diff) = first_diff(&a.snap, &b.snap) {
                cx.violation(&format!("historical-state-differs|{sig}"), format!("{label}: state at heads {:?}: original (left) vs reload (right) {diff}", hash_hex(h)), json!({"log": tail(log, 40)}));
                return false;
            }
        }
        // save again: same bytes
        let again = l.save_with_options(SaveOptions { deflate, retain_orphans: retain });
        if again != bytes {
            cx.violation(&format!("resave-bytes-differ|{sig}"), format!("{label}: save(load(save(D))) differs from save(D) ({} vs {} bytes)", again.len(), bytes.len()), json!({"log": tail(log, 30)}));
            return false;
        }
        if !check_h3(cx, &l, label) {
            return false;
        }
    }
    true
}

impl Check for C11 {
    fn id(&self) -> &'static str {
        "C11"
    }
    fn cases(&self, tier: Tier) -> u64 {
        tier.pick(1200, 80_000)
    }
    fn rule(&self) -> String {
        "case = (a) a seeded multi-replica history (storage profile: repeated values, nulls, counters, marks, nested objects) — every replica, the merged document and a document with a non-empty pending queue (a causally incomplete subset applied) are saved with {deflate on/off}×{retain_orphans on/off} and loaded; or (b) a single-writer document tuned to column edge cases (runs ≥64, alternation with nulls, counters at i64 limits, long text crossing the DEFLATE threshold with marks and deletions, >127 actors). Compared: heads, bytes of every change against the ledger, OBS snapshot now and at up to 4 historical head sets, pending queue (missing deps), byte-identical re-save, H3 walk. Non-trivial = ≥2 actors and (deflate actually shrank a column, or non-empty queue, or marks); distinct by hash of the save bytes.".into()
    }
    fn required_counters(&self) -> Vec<&'static str> {
        vec!["roundtrips", "roundtrips_with_queue", "deflate_shrank_output", "historical_states_compared", "columnar_docs", "many_actor_docs"]
    }
    fn run_case(&self, cx: &mut Ctx, case: u64, rng: &mut Rng) {
        let enc = enc_for(rng);
        if case % 4 == 3 {
            let mut d = columnar_doc(rng, enc, cx.tier);
            cx.count("columnar_docs");
            let actors = d.get_changes(&[]).iter().map(|c| c.actor_id().clone()).collect::<std::collections::BTreeSet<_>>().len();
            if actors > 127 {
                cx.count("many_actor_docs");
            }
            let heads = vec![d.get_heads()];
            if roundtrip(cx, "columnar", &mut d, enc, None, &heads, &[]) {
                cx.nontrivial(fnv(&d.save()));
            }
            cx.sample(|| json!({"kind": "columnar", "encoding": enc_name(enc), "actors": actors, "save_bytes": d.save().len()}));
            return;
        }
        let n = rng.range(2, 4);
        let prof = if rng.chance(50) { Profile::storage() } else { Profile::contention() };
        let mut w = World::new(rng, n, enc, prof);
        w.verbose = cx.verbose;
        let steps = rng.range(15, cx.tier.pick(70, 250));
        w.run(rng, steps);
        let ledger = w.ledger.clone();
        let hs = w.head_sets.clone();
        let log = w.log.clone();
        for r in 0..w.docs.len() {
            if !roundtrip(cx, &format!("replica {r}"), &mut w.docs[r], enc, Some(&ledger), &hs, &log) {
                return;
            }
        }
        let mut m = w.merged();
        if !roundtrip(cx, "merged", &mut m, enc, Some(&ledger), &hs, &log) {
            return;
        }
        // a document with a pending queue: apply everything except one non-head change
        let topo = w.topo_changes();
        if topo.len() >= 3 {
            let drop = rng.below(topo.len() - 1);
            let mut q = fresh(enc, 70);
            let subset: Vec<Change> = topo.iter().enumerate().filter(|(i, _)| *i != drop).map(|(_, c)| c.clone()).collect();
            if q.apply_changes(subset).is_ok() {
                if !roundtrip(cx, "with-pending-queue", &mut q, enc, Some(&ledger), &hs, &log) {
                    return;
                }
            }
        }
        cx.nontrivial(fnv(&m.save()));
        cx.sample(|| json!({"kind": "history", "encoding": enc_name(enc), "replicas": n, "changes": ledger.len(), "program_tail": tail(&log, 6)}));
    }
}

impl Check for C12 {
    fn id(&self) -> &'static str {
        "C12"
    }
    fn cases(&self, tier: Tier) -> u64 {
        tier.pick(1500, 100_000)
    }
    fn rule(&self) -> String {
        "case = a writer replica in a multi-replica history calls save() once and save_incremental()/save_after(heads) at arbitrary later points (interleaved with local edits and merges of other replicas' changes); checked: (a) load(save ‖ inc1 ‖ … ‖ incn) equals the writer (heads, change set, OBS snapshot, missing deps); (b) a reader loaded from the save taken at point p and fed every later piece through load_incremental — in written order, in shuffled order, and with duplicates — equals the writer; (c) feeding all pieces again changes nothing (snapshot, heads, H3); (d) a reader that starts empty and is fed the save itself and all pieces through load_incremental, in written and in shuffled order (so that later pieces wait in the queue until the save arrives), equals the writer. Non-trivial = ≥2 incremental pieces and a shuffled or duplicated feeding order; distinct by (pieces hash, order hash).".into()
    }
    fn required_counters(&self) -> Vec<&'static str> {
        vec!["concat_loads", "incremental_feeds", "shuffled_feeds", "refeeds", "save_after_pieces", "empty_reader_feeds", "empty_reader_fed_save_late"]
    }
    fn run_case(&self, cx: &mut Ctx, _case: u64, rng: &mut Rng) {
        let enc = enc_for(rng);
        let n = rng.range(2, 3);
        let mut w = World::new(rng, n, enc, Profile { text_elem_ops: rng.clone().chance(40), ..Profile::contention() });
        w.verbose = cx.verbose;
        // replica 0 is the writer
        for _ in 0..rng.range(3, 15) {
            w.step(rng);
        }
        w.commit(0);
        let base = w.docs[0].save();
        let mut pieces: Vec<Vec<u8>> = vec![];
        let rounds = rng.range(2, cx.tier.pick(6, 14));
        for _ in 0..rounds {
            for _ in 0..rng.range(1, cx.tier.pick(12, 30)) {
                w.step(rng);
            }
            w.commit(0);
            let p = if rng.chance(70) {
                w.docs[0].save_incremental()
            } else {
                // save_after some earlier heads of the writer (overlaps earlier pieces)
                let hs: Vec<Vec<ChangeHash>> = {
                    let known: std::collections::BTreeSet<ChangeHash> = w.docs[0].get_changes(&[]).iter().map(|c| c.hash()).collect();
                    w.head_sets.iter().filter(|h| h.iter().all(|x| known.contains(x))).cloned().collect()
                };
                cx.count("save_after_pieces");
                let h = rng.pick(&hs).clone();
                let p = w.docs[0].save_after(&h);
                // keep the incremental cursor semantics intact: also take the incremental piece
                let q = w.docs[0].save_incremental();
                if !q.is_empty() {
                    pieces.push(q);
                }
                p
            };
            if !p.is_empty() {
                pieces.push(p);
            }
        }
        let log = w.log.clone();
        // (a) concatenation
        let mut cat = base.clone();
        for p in &pieces {
            cat.extend_from_slice(p);
        }
        cx.count("concat_loads");
        let mut writer = w.docs[0].clone();
        match load_enc(&cat, enc) {
            Ok(mut l) => {
                if let Some(d) = docs_differ(&mut writer, &mut l) {
                    cx.violation("concat-load-differs", format!("load(save ‖ {} incremental pieces) differs from the writer: {d}", pieces.len()), json!({"pieces": pieces.len(), "log": tail(&log, 40)}));
                    return;
                }
            }
            Err(e) => {
                cx.violation("concat-load-failed", format!("load(save ‖ {} incremental pieces) failed: {e}", pieces.len()), json!({"log": tail(&log, 40)}));
                return;
            }
        }
        // (b) reader fed through load_incremental in several orders
        for mode in 0..3 {
            let mut reader = match AutoCommit::load_with_options(&base, LoadOptions::new().text_encoding(enc)) {
                Ok(r) => r.with_actor(actor(60 + mode)),
                Err(e) => {
                    cx.violation("load-of-save-failed", format!("load(save()) failed: {e}"), json!({}));
                    return;
                }
            };
            let mut order: Vec<usize> = (0..pieces.len()).collect();
            match mode {
                0 => {}
                1 => {
                    rng.shuffle(&mut order);
                    cx.count("shuffled_feeds");
                }
                _ => {
                    let extra: Vec<usize> = (0..rng.below(3) + 1).map(|_| rng.below(pieces.len().max(1))).collect();
                    order.extend(extra);
                    rng.shuffle(&mut order);
                    cx.count("shuffled_feeds");
                }
            }
            for &i in &order {
                if pieces.is_empty() {
                    break;
                }
                cx.count("incremental_feeds");
                if let Err(e) = reader.load_incremental(&pieces[i]) {
                    cx.violation("load-incremental-failed", format!("load_incremental of a piece written by save_incremental/save_after failed: {e}"), json!({"order": order, "log": tail(&log, 40)}));
                    return;
                }
            }
            if let Some(d) = docs_differ(&mut writer, &mut reader) {
                cx.violation(&format!("reader-differs|mode{mode}"), format!("reader fed {} pieces (order {:?}) differs from the writer: {d}", pieces.len(), order), json!({"log": tail(&log, 40)}));
                return;
            }
            // (c) feeding again has no effect
            let before = observe_opts(&reader, None, false).snap;
            let hb = heads_sorted(&mut reader);
            for p in &pieces {
                cx.count("refeeds");
                if let Err(e) = reader.load_incremental(p) {
                    cx.violation("refeed-failed", format!("feeding an already applied piece again failed: {e}"), json!({}));
                    return;
                }
            }
            let after = observe_opts(&reader, None, false).snap;
            if before != after || hb != heads_sorted(&mut reader) || !reader.get_missing_deps(&[]).is_empty() {
                cx.violation("refeed-changed-document", "feeding the same pieces again changed the document", json!({"diff": first_diff(&before, &after), "log": tail(&log, 40)}));
                return;
            }
            if !check_h3(cx, &reader, "reader after refeed") {
                return;
            }
            if pieces.len() >= 2 && mode > 0 {
                cx.nontrivial(fnv(&cat) ^ fnv(format!("{order:?}").as_bytes()));
            }
        }
        // (d) a reader that starts empty (the writer before its first change) and receives the save
        // itself and every later piece through load_incremental, in written and in shuffled order
        for mode in 0..2 {
            let mut all: Vec<&Vec<u8>> = vec![&base];
            all.extend(pieces.iter());
            let mut order: Vec<usize> = (0..all.len()).collect();
            if mode == 1 {
                rng.shuffle(&mut order);
            }
            let mut reader = fresh(enc, 64 + mode);
            cx.count("empty_reader_feeds");
            for &i in &order {
                if let Err(e) = reader.load_incremental(all[i]) {
                    cx.violation("load-incremental-failed|empty-reader", format!("an empty reader fed the save and the incremental pieces (order {order:?}, 0 = the save) failed at piece {i}: {e}"), json!({"order": order, "log": tail(&log, 40)}));
                    return;
                }
            }
            if let Some(d) = docs_differ(&mut writer, &mut reader) {
                cx.violation(&format!("reader-differs|empty-reader|mode{mode}"), format!("an empty reader fed the save and {} pieces through load_incremental (order {order:?}, 0 = the save) differs from the writer: {d}", pieces.len()), json!({"log": tail(&log, 40)}));
                return;
            }
            if mode == 1 && order.first() != Some(&0) {
                cx.count("empty_reader_fed_save_late");
                cx.nontrivial(fnv(&cat) ^ fnv(format!("empty{order:?}").as_bytes()));
            }
        }
        cx.add("pieces", pieces.len() as u64);
        cx.sample(|| json!({"encoding": enc_name(enc), "pieces": pieces.len(), "piece_sizes": pieces.iter().map(|p| p.len()).collect::<Vec<_>>(), "base_bytes": base.len()}));
    }
}
