//! C30 — object ids stay valid and stable.
use amv::fw::*;
use amv::gen::{actor, Profile, World};
use amv::obs::{enc_name, exid_str, first_diff, hydrate_json, observe_opts};
use amv::util::*;
use automerge::transaction::Transactable;
use automerge::{AutoCommit, Change, ObjId, ObjType, ReadDoc};
use serde_json::json;
use std::collections::BTreeSet;

pub struct C30;

/// does the document hold the change that created this object?
fn contains_obj(changes: &[Change], id: &ObjId) -> bool {
    match id {
        ObjId::Root => true,
        ObjId::Id(c, a, _) => changes.iter().any(|ch| ch.actor_id() == a && u64::from(ch.start_op()) <= *c && *c < u64::from(ch.start_op()) + ch.len() as u64),
    }
}

fn check_id(cx: &mut Ctx, label: &str, d: &mut AutoCommit, id: &ObjId, typ: ObjType, variant: &str, log: &[String]) -> bool {
    let changes = d.get_changes(&[]);
    let here = contains_obj(&changes, id);
    let sig_tail = format!("{variant}");
    let detail = || json!({"doc": label, "id": exid_str(id), "id_variant": variant, "log": tail(log, 20)});
    if here {
        cx.count("ids_resolved_where_present");
        match d.object_type(id) {
            Ok(t) if t == typ => {}
            Ok(t) => {
                cx.violation(&format!("wrong-object|{sig_tail}"), format!("{label}: id {} was created as {typ:?} but resolves to a {t:?}", exid_str(id)), detail());
                return false;
            }
            Err(e) => {
                cx.violation(&format!("id-not-resolved|{sig_tail}"), format!("{label}: id {} of an object this document contains gives {e}", exid_str(id)), detail());
                return false;
            }
        }
        // the canonical id for the same object, re-derived from the document's own string form
        let canon = match d.import(&id.to_string()) {
            Ok((c, t)) => {
                if t != typ {
                    cx.violation(&format!("wrong-object|import|{sig_tail}"), format!("{label}: import({}) gives a {t:?}, object was created as {typ:?}", id), detail());
                    return false;
                }
                c
            }
            Err(e) => {
                cx.violation(&format!("id-not-resolved|import|{sig_tail}"), format!("{label}: import({}) fails: {e}", id), detail());
                return false;
            }
        };
        let ha = d.hydrate(id, None).map(|v| hydrate_json(&v, true));
        let hb = d.hydrate(&canon, None).map(|v| hydrate_json(&v, true));
        match (ha, hb) {
            (Ok(x), Ok(y)) => {
                if let Some(diff) = first_diff(&x, &y) {
                    cx.violation(&format!("reads-differ|{sig_tail}"), format!("{label}: reading through the stored id (left) and through the document's own id for the same object (right) differ {diff}"), detail());
                    return false;
                }
            }
            (x, y) => {
                cx.violation(&format!("id-not-resolved|hydrate|{sig_tail}"), format!("{label}: hydrate via stored id ok={} via canonical id ok={}", x.is_ok(), y.is_ok()), detail());
                return false;
            }
        }
        if d.length(id) != d.length(&canon) || d.keys(id).collect::<Vec<_>>() != d.keys(&canon).collect::<Vec<_>>() {
            cx.violation(&format!("reads-differ|length-keys|{sig_tail}"), format!("{label}: length/keys through the stored id differ from the canonical id"), detail());
            return false;
        }
        // usable for edits (on a clone)
        let mut e = d.clone();
        let r = match typ {
            ObjType::Map | ObjType::Table => e.put(id, "via-id", 1).map(|_| ()),
            ObjType::List => e.insert(id, 0, 1).map(|_| ()),
            ObjType::Text => e.splice_text(id, 0, 0, "z").map(|_| ()),
        };
        if let Err(err) = r {
            cx.violation(&format!("id-not-usable-for-edit|{sig_tail}"), format!("{label}: editing through id {} fails: {err}", exid_str(id)), detail());
            return false;
        }
        let after = e.hydrate(&canon, None).map(|v| hydrate_json(&v, false)).unwrap_or_default();
        let before = d.hydrate(&canon, None).map(|v| hydrate_json(&v, false)).unwrap_or_default();
        if after == before {
            cx.violation(&format!("edit-went-elsewhere|{sig_tail}"), format!("{label}: an edit through id {} succeeded but the object did not change", exid_str(id)), detail());
            return false;
        }
    } else {
        cx.count("ids_probed_where_absent");
        let mut leaks = vec![];
        if d.object_type(id).is_ok() {
            leaks.push("object_type is Ok".to_string());
        }
        if d.length(id) != 0 {
            leaks.push(format!("length = {}", d.length(id)));
        }
        if d.keys(id).count() != 0 {
            leaks.push("keys non-empty".to_string());
        }
        if let Ok(Some(_)) = d.get(id, "k0") {
            leaks.push("get(k0) returns a value".to_string());
        }
        if let Ok(Some(_)) = d.get(id, 0usize) {
            leaks.push("get(0) returns a value".to_string());
        }
        if let Ok(t) = d.text(id) {
            if !t.is_empty() {
                leaks.push(format!("text = {t:?}"));
            }
        }
        if d.hydrate(id, None).is_ok() {
            leaks.push("hydrate is Ok".to_string());
        }
        if !leaks.is_empty() {
            cx.violation(&format!("absent-object-returns-data|{sig_tail}"), format!("{label}: id {} of an object this document does not contain returns data: {leaks:?}", exid_str(id)), detail());
            return false;
        }
        let mut e = d.clone();
        if e.put(id, "x", 1).is_ok() || e.insert(id, 0, 1).is_ok() {
            cx.violation(&format!("absent-object-editable|{sig_tail}"), format!("{label}: an edit through id {} of an absent object succeeded", exid_str(id)), detail());
            return false;
        }
    }
    true
}

impl Check for C30 {
    fn id(&self) -> &'static str {
        "C30"
    }
    fn cases(&self, tier: Tier) -> u64 {
        tier.pick(1200, 80_000)
    }
    fn rule(&self) -> String {
        "case = a seeded multi-replica history whose actors are chosen so that later actors sort before and after earlier ones (actor-table index shifts); every ObjId returned by put_object/insert_object/split_block is kept with its type. Later each id — as returned, after to_bytes/try_from, after Display/import, and with a deliberately stale actor index — is used on every replica, the merged document, a fork, load(save) and a document holding only part of the history: where the creating change is present the id must resolve to an object of the same type whose reads equal those through the document's own id for that object, and an edit through it must change that object; where absent every read must be an error or empty and edits must fail. Non-trivial = id used in another replica / after load / with an actor inserted before its actor; distinct by (id, document).".into()
    }
    fn required_counters(&self) -> Vec<&'static str> {
        vec!["ids_resolved_where_present", "ids_probed_where_absent", "stale_index_variants", "byte_roundtrips", "docs_with_shifted_actor_table"]
    }
    fn run_case(&self, cx: &mut Ctx, _case: u64, rng: &mut Rng) {
        let enc = enc_for(rng);
        let n = rng.range(2, 4);
        let mut w = World::new(rng, n, enc, Profile::contention());
        w.verbose = cx.verbose;
        let steps = rng.range(10, cx.tier.pick(60, 160));
        w.run(rng, steps);
        let log = w.log.clone();
        let ids = w.gs.objs.clone();
        if ids.is_empty() {
            return;
        }
        let topo = w.topo_changes();
        // documents
        let mut docs: Vec<(String, AutoCommit)> = vec![];
        for (i, d) in w.docs.iter().enumerate() {
            docs.push((format!("replica {i}"), d.clone()));
        }
        let mut m = w.merged();
        docs.push(("fork of merged".into(), m.fork().with_actor(actor(81))));
        match load_enc(&m.save(), enc) {
            Ok(l) => docs.push(("load(save(merged))".into(), l)),
            Err(e) => {
                cx.violation("load-of-save-failed", format!("load(save()) failed: {e}"), json!({}));
                return;
            }
        }
        // a document with a very small actor inserted first (shifts every actor index)
        let mut shifted = amv::util::fresh(enc, 7); // actor(7) starts with 0x05: sorts before the others
        let _ = shifted.put(automerge::ROOT, "first", 1);
        shifted.commit();
        let _ = shifted.merge(&mut m);
        cx.count("docs_with_shifted_actor_table");
        docs.push(("merged into a document whose actor sorts first".into(), shifted));
        docs.push(("merged".into(), m));
        // a partial document
        let k = rng.range(1, topo.len());
        let mut part = amv::util::fresh(enc, 82);
        let _ = part.apply_changes(topo[..k].iter().cloned());
        docs.push((format!("first {k} of {} changes", topo.len()), part));
        let mut picked: Vec<(ObjId, ObjType)> = ids.clone();
        rng.shuffle(&mut picked);
        picked.truncate(cx.tier.pick(5, 12));
        for (id, typ) in picked {
            let mut variants: Vec<(String, ObjId)> = vec![("as-returned".into(), id.clone())];
            match ObjId::try_from(&id.to_bytes()[..]) {
                Ok(b) => {
                    cx.count("byte_roundtrips");
                    if b != id {
                        cx.violation("bytes-roundtrip-not-equal", format!("ObjId {} != try_from(to_bytes())", exid_str(&id)), json!({}));
                        return;
                    }
                    variants.push(("bytes-roundtrip".into(), b));
                }
                Err(e) => {
                    cx.violation("bytes-roundtrip-failed", format!("ObjId::try_from(to_bytes()) of {} failed: {e}", exid_str(&id)), json!({}));
                    return;
                }
            }
            if let ObjId::Id(c, a, idx) = &id {
                cx.count("stale_index_variants");
                variants.push(("stale-index+1".into(), ObjId::Id(*c, a.clone(), idx + 1)));
                variants.push(("stale-index-0".into(), ObjId::Id(*c, a.clone(), 0)));
                variants.push(("stale-index-999".into(), ObjId::Id(*c, a.clone(), 999)));
            }
            for (vname, vid) in &variants {
                for (label, d) in docs.iter_mut() {
                    if !check_id(cx, label, d, vid, typ, vname, &log) {
                        return;
                    }
                    cx.nontrivial(fnv(format!("{}{label}{vname}", exid_str(vid)).as_bytes()));
                }
            }
        }
        let _ = (observe_opts::<AutoCommit>, BTreeSet::<u8>::new());
        cx.sample(|| json!({"encoding": enc_name(enc), "ids": ids.len(), "documents": docs.iter().map(|d| d.0.clone()).collect::<Vec<_>>()}));
    }
}
