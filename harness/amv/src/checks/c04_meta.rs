//! C04 — change metadata and heads follow causality.
use amv::fw::*;
use amv::gen::{actor, random_edit, Profile, World};
use amv::obs::enc_name;
use amv::util::*;
use automerge::transaction::CommitOptions;
use automerge::{Change, ChangeHash};
use serde_json::json;
use std::collections::{BTreeMap, BTreeSet};

pub struct C04;

struct Rep {
    known: BTreeMap<ChangeHash, Change>,
    isolation: Option<Vec<ChangeHash>>,
    actors_owned: Vec<usize>,
}

fn heads_of(known: &BTreeMap<ChangeHash, Change>) -> BTreeSet<ChangeHash> {
    let mut h: BTreeSet<ChangeHash> = known.keys().copied().collect();
    for c in known.values() {
        for d in c.deps() {
            h.remove(d);
        }
    }
    h
}

impl Check for C04 {
    fn id(&self) -> &'static str {
        "C04"
    }
    fn cases(&self, tier: Tier) -> u64 {
        tier.pick(2500, 150_000)
    }
    fn rule(&self) -> String {
        "case = a seeded program over 2–5 replicas mixing edits, commits (with message/time), empty changes, merges, forks with new actors, actor switches, isolate/integrate and save+load; after every step every newly created change is checked: seq = 1 + number of earlier changes of its actor in the document, start_op > every op counter applied before, deps = heads before the commit ∪ own previous change (isolated: exactly the isolation heads, then the previous isolated commit); and get_heads() = applied changes nothing applied depends on (recomputed from deps by the harness). Non-trivial = program contains a merge of diverged heads, an actor switch or an isolated commit; distinct by hash of the DAG shape (seq/deps structure).".into()
    }
    fn required_counters(&self) -> Vec<&'static str> {
        vec!["local_changes_checked", "isolated_changes_checked", "actor_switches", "empty_changes", "merges_of_diverged_heads", "reloads", "heads_checks"]
    }
    fn run_case(&self, cx: &mut Ctx, _case: u64, rng: &mut Rng) {
        let enc = enc_for(rng);
        let n = rng.range(2, 4);
        let mut w = World::new(rng, n, enc, Profile { bulk: false, ..Profile::contention() });
        w.verbose = cx.verbose;
        w.collect();
        let mut reps: Vec<Rep> = vec![];
        for i in 0..n {
            let known: BTreeMap<ChangeHash, Change> = w.docs[i].get_changes(&[]).into_iter().map(|c| (c.hash(), c)).collect();
            reps.push(Rep { known, isolation: None, actors_owned: vec![i] });
        }
        let steps = rng.range(10, cx.tier.pick(60, 160));
        let mut nontrivial = false;
        let mut dag_sig = 0u64;
        for _ in 0..steps {
            let r = rng.below(w.docs.len());
            let mut touched = vec![r];
            match rng.below(100) {
                0..=49 => {
                    let e = random_edit(&mut w.docs[r], rng, &mut w.gs);
                    w.logln(format!("R{r}: {} -> {}", e.desc, if e.ok { "ok" } else { "err" }));
                }
                50..=64 => {
                    w.time += 1;
                    let t = w.time;
                    let h = w.docs[r].commit_with(CommitOptions::default().with_time(t).with_message(format!("m{t}")));
                    w.logln(format!("R{r}: commit -> {h:?}"));
                }
                65..=69 if reps[r].isolation.is_some() => {
                    // empty_change under isolation: the statement does not say which heads it is
                    // "made on"; not judged
                    cx.count("skipped_empty_change_under_isolation");
                }
                65..=69 => {
                    w.time += 1;
                    let t = w.time;
                    let h = w.docs[r].empty_change(CommitOptions::default().with_time(t));
                    cx.count("empty_changes");
                    w.logln(format!("R{r}: empty_change -> {h}"));
                }
                70..=81 => {
                    let b = rng.below(w.docs.len());
                    if b != r && reps[r].isolation.is_none() && reps[b].isolation.is_none() {
                        let before = w.concurrent_merges;
                        w.merge(r, b);
                        if w.concurrent_merges > before {
                            cx.count("merges_of_diverged_heads");
                            nontrivial = true;
                        }
                        touched.push(b);
                    }
                }
                82..=85 => {
                    if w.docs.len() < 6 && reps[r].isolation.is_none() {
                        let a = w.next_actor;
                        w.next_actor += 1;
                        let f = w.docs[r].fork().with_actor(actor(a));
                        w.docs.push(f);
                        let known = reps[r].known.clone();
                        reps.push(Rep { known, isolation: None, actors_owned: vec![a] });
                        // the fork committed pending ops of r
                        w.logln(format!("R{r}: fork -> R{} (actor {a})", w.docs.len() - 1));
                        touched.push(w.docs.len() - 1);
                    }
                }
                86..=89 => {
                    // switch actor: a brand new one, or one this replica used before
                    let a = if rng.chance(50) || reps[r].actors_owned.len() < 2 {
                        let a = w.next_actor;
                        w.next_actor += 1;
                        reps[r].actors_owned.push(a);
                        a
                    } else {
                        *rng.pick(&reps[r].actors_owned)
                    };
                    w.docs[r].commit();
                    w.docs[r].set_actor(actor(a));
                    cx.count("actor_switches");
                    nontrivial = true;
                    w.logln(format!("R{r}: set_actor({a})"));
                }
                90..=94 => {
                    if reps[r].isolation.is_none() {
                        // isolate at a head set this replica has
                        let cands: Vec<Vec<ChangeHash>> = w.head_sets.iter().filter(|h| h.iter().all(|x| reps[r].known.contains_key(x))).cloned().collect();
                        if !cands.is_empty() {
                            w.docs[r].commit();
                            let h = rng.pick(&cands).clone();
                            if cx.verbose && std::env::var("VERIF_DUMP").is_ok() {
                                let _ = std::fs::create_dir_all("/verif/out/dump");
                                let mut c = w.docs[r].clone();
                                let _ = std::fs::write(format!("/verif/out/dump/iso-R{r}.bin"), c.save());
                                let _ = std::fs::write(format!("/verif/out/dump/iso-R{r}.txt"), format!("actor {}\nheads {:?}\n", c.get_actor().to_hex_string(), hash_hex(&h)));
                            }
                            w.docs[r].isolate(&h);
                            w.logln(format!("R{r}: isolate({:?})", hash_hex(&h)));
                            // the commit above may have created a change: account for it first
                            reps[r].isolation = Some(h);
                            // handled below: a change found now was created before isolation
                        }
                    } else {
                        w.docs[r].integrate();
                        w.logln(format!("R{r}: integrate"));
                        // integrate commits pending isolated ops first; isolation cleared after accounting
                    }
                }
                _ => {
                    if reps[r].isolation.is_none() {
                        let bytes = w.docs[r].save();
                        let a = w.docs[r].get_actor().clone();
                        match load_enc(&bytes, enc) {
                            Ok(d) => {
                                w.docs[r] = d.with_actor(a);
                                cx.count("reloads");
                                w.logln(format!("R{r}: save+load"));
                            }
                            Err(e) => {
                                cx.violation("load-of-save-failed", format!("load(save()) failed: {e}"), json!({"log": tail(&w.log, 30)}));
                                return;
                            }
                        }
                    }
                }
            }
            // account for new changes on the touched replicas. NB get_changes()/get_heads() on an
            // AutoCommit commit pending operations, which is a legitimate commit in the program.
            for &t in &touched {
                let was_isolated_before_step = reps[t].isolation.clone();
                let now: Vec<Change> = w.docs[t].get_changes(&[]);
                let mut fresh: Vec<Change> = vec![];
                for c in &now {
                    if !reps[t].known.contains_key(&c.hash()) {
                        if w.ledger.contains_key(&c.hash()) {
                            // came from another replica
                            reps[t].known.insert(c.hash(), c.clone());
                        } else {
                            fresh.push(c.clone());
                        }
                    }
                }
                // remote changes first (they were applied by merge before any new local change in this step)
                fresh.sort_by_key(|c| (c.start_op(), c.seq()));
                for c in fresh {
                    let prev = &reps[t].known;
                    cx.count("local_changes_checked");
                    let prev_seq = prev.values().filter(|p| p.actor_id() == c.actor_id()).map(|p| p.seq()).max().unwrap_or(0);
                    if c.seq() != prev_seq + 1 {
                        cx.violation("seq-not-next", format!("new change {} of actor {} has seq {} but the document held seq {} for that actor", c.hash(), c.actor_id(), c.seq(), prev_seq), json!({"log": tail(&w.log, 30)}));
                        return;
                    }
                    let max_op = prev.values().map(|p| u64::from(p.start_op()) + p.len() as u64 - 1).max().unwrap_or(0);
                    if u64::from(c.start_op()) <= max_op {
                        cx.violation("start-op-not-greater", format!("new change {} has start_op {} but an applied change already uses op counter {}", c.hash(), c.start_op(), max_op), json!({"log": tail(&w.log, 30)}));
                        return;
                    }
                    let deps: BTreeSet<ChangeHash> = c.deps().iter().copied().collect();
                    if deps.len() != c.deps().len() {
                        cx.violation("deps-duplicated", format!("new change {} lists a dependency twice", c.hash()), json!({"log": tail(&w.log, 30)}));
                        return;
                    }
                    let isolated = was_isolated_before_step.is_some() && reps[t].isolation.is_some();
                    let expected: BTreeSet<ChangeHash> = if isolated {
                        cx.count("isolated_changes_checked");
                        nontrivial = true;
                        reps[t].isolation.clone().unwrap().into_iter().collect()
                    } else {
                        let mut e = heads_of(prev);
                        if let Some(p) = prev.values().find(|p| p.actor_id() == c.actor_id() && p.seq() == prev_seq) {
                            e.insert(p.hash());
                        }
                        e
                    };
                    if deps != expected {
                        cx.violation(
                            if isolated { "deps-wrong|isolated" } else { "deps-wrong" },
                            format!("new change {} (isolated={isolated}) has deps {:?}, expected {:?}", c.hash(), hash_hex(c.deps()), hash_hex(&expected.iter().copied().collect::<Vec<_>>())),
                            json!({"log": tail(&w.log, 30)}),
                        );
                        return;
                    }
                    if isolated {
                        reps[t].isolation = Some(vec![c.hash()]);
                    }
                    dag_sig = dag_sig.rotate_left(5) ^ (c.seq() * 31 + c.deps().len() as u64 * 7 + u64::from(c.start_op()));
                    w.ledger.insert(c.hash(), c.clone());
                    reps[t].known.insert(c.hash(), c);
                }
                // isolate()/integrate() bookkeeping
                if let Some(last) = w.log.last() {
                    if last.starts_with(&format!("R{t}: integrate")) {
                        reps[t].isolation = None;
                    }
                }
                // heads
                cx.count("heads_checks");
                let expect = heads_of(&reps[t].known);
                // AutoCommit::get_heads() reports the isolation heads while isolated; the
                // document's own heads are read from the underlying Automerge
                if let Some(iso) = &reps[t].isolation {
                    let mut a = w.docs[t].get_heads();
                    a.sort();
                    let mut b = iso.clone();
                    b.sort();
                    if a != b {
                        cx.violation("isolated-heads-wrong", format!("isolated AutoCommit::get_heads() = {:?}, expected the isolation heads {:?}", hash_hex(&a), hash_hex(&b)), json!({"replica": t, "log": tail(&w.log, 30)}));
                        return;
                    }
                }
                let got: BTreeSet<ChangeHash> = w.docs[t].document().get_heads().into_iter().collect();
                if got != expect {
                    if cx.verbose {
                        for c in w.docs[t].get_changes(&[]) {
                            eprintln!("    doc change {} actor {} seq {} start {} len {} deps {:?}", c.hash(), c.actor_id(), c.seq(), c.start_op(), c.len(), hash_hex(c.deps()));
                        }
                        for c in reps[t].known.values() {
                            eprintln!("    known change {} seq {} deps {:?}", c.hash(), c.seq(), hash_hex(c.deps()));
                        }
                    }
                    cx.violation("heads-wrong", format!("get_heads() = {:?} but the applied changes nothing depends on are {:?}", hash_hex(&got.iter().copied().collect::<Vec<_>>()), hash_hex(&expect.iter().copied().collect::<Vec<_>>())), json!({"replica": t, "log": tail(&w.log, 30)}));
                    return;
                }
                let hs = w.docs[t].document().get_heads();
                if !w.head_sets.contains(&hs) {
                    w.head_sets.push(hs);
                }
                if !check_h3(cx, &w.docs[t], "after step") {
                    return;
                }
            }
        }
        if nontrivial {
            cx.nontrivial(dag_sig);
        }
        cx.sample(|| json!({"encoding": enc_name(enc), "replicas": w.docs.len(), "steps": steps, "changes": w.ledger.len(), "program_tail": tail(&w.log, 12)}));
    }
}
