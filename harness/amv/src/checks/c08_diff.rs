//! C08 — diff between any two heads transforms one state into the other.
//! C09 — incremental patches keep a materialized view equal to the document.
use amv::fw::*;
use amv::gen::{actor, random_edit, Profile, World};
use amv::obs::{enc_name, exid_str, first_diff, observe_opts};
use amv::util::*;
use amv::view::{action_name, apply_all, VNode};
use automerge::sync::{self, SyncDoc};
use automerge::transaction::CommitOptions;
use automerge::{AutoCommit, Automerge, Change, ChangeHash, LoadOptions, ObjType, Patch, PatchLog, TextEncoding};
use serde_json::{json, Value as J};
use std::collections::BTreeSet;

pub struct C08;
pub struct C09;

fn class_of(diff: &str) -> &'static str {
    let path = diff.split(':').next().unwrap_or("");
    let leaf = path.rsplit('/').next().unwrap_or("");
    if leaf == "conflict" {
        // direction: the document (left) says conflicted and the view does not ("missing": no patch
        // raised the flag), or the view still says conflicted and the document does not ("stale")
        if diff.contains("left true") {
            "conflict-flag-missing"
        } else {
            "conflict-flag-stale"
        }
    } else if path.contains("/marks") {
        "marks"
    } else if leaf == "text" {
        "text"
    } else if path.contains("/embedded") {
        "embedded-block"
    } else if diff.contains("counter") {
        "counter"
    } else if path.contains("/list/") && !path.rsplit("/list/").next().unwrap_or("").contains("/map/") {
        "list-value"
    } else {
        "map-value-or-structure"
    }
}

/// coarse class of a "patch cannot be applied" message: action + first words of the reason
fn na_class(e: &str) -> String {
    let action = e.split('(').nth(1).and_then(|x| x.split(' ').next()).unwrap_or("?");
    let reason = e.split("): ").nth(1).unwrap_or(e);
    let words: Vec<String> = reason
        .split(|c: char| !c.is_ascii_alphabetic())
        .filter(|w| w.len() >= 2 && w.len() <= 14 && !(w.len() >= 4 && w.chars().all(|c| matches!(c, 'a'..='f'))))
        .take(5)
        .map(|w| w.to_ascii_lowercase())
        .collect();
    format!("{action}:{}", words.join("-"))
}

fn has_blocks(j: &J) -> bool {
    j.to_string().contains("\"embedded\":[{")
}

fn patch_kinds(ps: &[Patch]) -> String {
    let mut k: Vec<&str> = ps.iter().map(|p| action_name(&p.action)).collect();
    k.sort();
    k.dedup();
    k.join(",")
}

fn view_at(d: &AutoCommit, h: &[ChangeHash]) -> Result<(VNode, J), String> {
    let o = observe_opts(d, Some(h), false);
    if let Some(e) = o.core_errors().first() {
        return Err(e.clone());
    }
    Ok((VNode::from_snapshot(&o.snap), o.snap))
}

/// strip nested objects: keep only this object's own registers (for non-recursive diffs)
fn shallow(j: &J) -> J {
    let cut = |v: &J| -> J {
        if v.get("map").is_some() || v.get("list").is_some() || v.get("text").is_some() {
            json!("<object>")
        } else {
            v.clone()
        }
    };
    if let Some(m) = j.get("map").and_then(|m| m.as_object()) {
        return json!({"map": m.iter().map(|(k, v)| (k.clone(), json!({"val": cut(&v["val"]), "conflict": v["conflict"]}))).collect::<serde_json::Map<String, J>>()});
    }
    if let Some(l) = j.get("list").and_then(|m| m.as_array()) {
        return json!({"list": l.iter().map(|v| json!({"val": cut(&v["val"]), "conflict": v["conflict"]})).collect::<Vec<_>>()});
    }
    if j.get("text").is_some() {
        return json!({"text": j["text"], "marks": j["marks"]});
    }
    j.clone()
}

/// a strictly sequential history: before a replica edits it is brought up to date with all others
fn calm_run(w: &mut World, rng: &mut Rng, rounds: usize) {
    let n = w.docs.len();
    for _ in 0..rounds {
        let r = rng.below(n);
        for o in 0..n {
            if o != r {
                w.merge(r, o);
            }
        }
        for _ in 0..rng.range(1, 4) {
            w.edit(r, rng);
        }
        w.commit(r);
    }
    for r in 0..n {
        w.commit(r);
    }
    for o in 1..n {
        w.merge(0, o);
    }
    w.collect();
}

impl Check for C08 {
    fn id(&self) -> &'static str {
        "C08"
    }
    fn cases(&self, tier: Tier) -> u64 {
        tier.pick(700, 50_000)
    }
    fn rule(&self) -> String {
        "case = the merged document of a seeded multi-replica history; from up to 5 (8) head sets of that history (always including the empty heads and the current heads, plus heads of concurrent branches) every ordered pair (H1, H2) is diffed. An independent view (VIEW: own tree with conflict flags, counters, text in encoding units, marks) is built from the OBS snapshot at H1, the patches of AutoCommit::diff(H1,H2) — and, for one pair per case, of Automerge::diff, diff_obj recursive and diff_obj non-recursive on a random object — are applied to it (paths are resolved against the view, so a wrong path/index is a refutation), and the result must equal the view built from the snapshot at H2. Non-trivial = the two states differ in a conflict flag, a counter, a deletion or text; distinct by (history, H1, H2).".into()
    }
    fn required_counters(&self) -> Vec<&'static str> {
        vec!["calm_cases", "pairs_diffed", "backward_pairs", "pairs_differing_in_conflict_flag", "pairs_differing_in_counter", "pairs_differing_in_text", "diff_obj_recursive", "diff_obj_shallow", "patches_applied"]
    }
    fn run_case(&self, cx: &mut Ctx, case: u64, rng: &mut Rng) {
        let enc = enc_for(rng);
        let n = rng.range(2, 3);
        // every third case is "calm": a strictly sequential history (each edit is made on top of
        // everything that exists, remote contributions included), so no register is ever conflicted
        // and no counter is ever hidden. Its signatures carry the prefix `calm|`.
        let calm = case % 3 == 2;
        let pre = if calm { "calm|" } else { "" };
        let mut w = World::new(rng, n, enc, Profile::contention());
        w.verbose = cx.verbose;
        let small = std::env::var("VERIF_SMALL").ok().and_then(|s| s.parse::<usize>().ok());
        if calm {
            cx.count("calm_cases");
            let rounds = rng.range(3, cx.tier.pick(14, 40));
            calm_run(&mut w, rng, rounds);
        } else {
            match small {
                Some(k) => w.run(rng, rng.clone().range(2, k)),
                None => w.run(rng, rng.clone().range(8, cx.tier.pick(50, 140))),
            }
        }
        let log = w.log.clone();
        let all = w.ledger.clone();
        let mut doc = w.merged();
        let cur = doc.get_heads();
        let mut hs: Vec<Vec<ChangeHash>> = w.head_sets.iter().filter(|h| !h.is_empty()).cloned().collect();
        rng.shuffle(&mut hs);
        hs.truncate(cx.tier.pick(3, 6));
        hs.push(vec![]);
        hs.push(cur.clone());
        let hist_fp = fnv(&doc.save());
        let special = (rng.below(hs.len()), rng.below(hs.len()));
        for (i, h1) in hs.iter().enumerate() {
            for (j, h2) in hs.iter().enumerate() {
                if i == j {
                    continue;
                }
                cx.count("pairs_diffed");
                let a1 = amv::gen::ancestors(&all, h1);
                let a2 = amv::gen::ancestors(&all, h2);
                if !a1.is_subset(&a2) {
                    cx.count("backward_pairs");
                }
                let (mut view, snap1) = match view_at(&doc, h1) {
                    Ok(v) => v,
                    Err(e) => {
                        cx.violation("read-inconsistency", format!("reads at H1 disagree: {e}"), json!({}));
                        return;
                    }
                };
                let (want, snap2) = match view_at(&doc, h2) {
                    Ok(v) => v,
                    Err(e) => {
                        cx.violation("read-inconsistency", format!("reads at H2 disagree: {e}"), json!({}));
                        return;
                    }
                };
                let patches = doc.diff(h1, h2);
                cx.add("patches_applied", patches.len() as u64);
                let detail = |extra: String| json!({"h1": hash_hex(h1), "h2": hash_hex(h2), "encoding": enc_name(enc), "patch_kinds": patch_kinds(&patches), "patches": patches.iter().take(30).map(|p| format!("{} {:?} {:?}", exid_str(&p.obj), p.path.iter().map(|x| format!("{:?}", x.1)).collect::<Vec<_>>(), p.action)).collect::<Vec<_>>(), "state_h1": snap1.clone(), "state_h2": snap2.clone(), "note": extra, "log": tail(&log, 25)});
                if let Some(m) = put_flag_mismatch(&doc, Some(h2), &patches) {
                    cx.violation(&format!("{pre}put-patch-conflict-flag-wrong|diff"), format!("diff(H1,H2): {m}"), detail(String::new()));
                    return;
                }
                let exp = want.to_json(enc);
                let feat = format!("blocks={}", has_blocks(&exp) || has_blocks(&VNode::from_snapshot(&snap1).to_json(enc)));
                if let Err(e) = apply_all(&mut view, &patches, enc) {
                    cx.violation(&format!("{pre}patch-not-applicable|{}|{feat}", na_class(&e)), format!("diff(H1,H2): {e}"), detail(String::new()));
                    return;
                }
                let got = view.to_json(enc);
                if let Some(d) = first_diff(&exp, &got) {
                    cx.violation(&format!("{pre}diff-does-not-reach-target|{}|{feat}", class_of(&d)), format!("state at H2 (left) vs state at H1 + diff(H1,H2) (right) {d}"), detail(d.clone()));
                    return;
                }
                // what kind of difference did this pair exercise?
                let before = VNode::from_snapshot(&snap1).to_json(enc);
                if let Some(d) = first_diff(&before, &exp) {
                    let s1 = snap1.to_string();
                    let s2 = snap2.to_string();
                    if before.to_string().contains("\"conflict\":true") != exp.to_string().contains("\"conflict\":true") || class_of(&d).starts_with("conflict-flag") {
                        cx.count("pairs_differing_in_conflict_flag");
                    }
                    if s1.contains("counter") || s2.contains("counter") {
                        cx.count("pairs_differing_in_counter");
                    }
                    if s1.contains("\"text\"") && s2.contains("\"text\"") && !class_of(&d).starts_with("conflict-flag") {
                        cx.count("pairs_differing_in_text");
                    }
                    cx.nontrivial(hist_fp ^ fnv(format!("{h1:?}{h2:?}").as_bytes()));
                }
                if (i, j) == special || (special.0 == special.1 && i == 0 && j == 1) {
                    // Automerge::diff must give the same patches' effect
                    let am: &Automerge = doc.document();
                    let p2 = am.diff(h1, h2);
                    let mut v2 = VNode::from_snapshot(&snap1);
                    if let Err(e) = apply_all(&mut v2, &p2, enc) {
                        cx.violation(&format!("{pre}patch-not-applicable|Automerge::diff"), format!("Automerge::diff(H1,H2): {e}"), detail(String::new()));
                        return;
                    }
                    if let Some(d) = first_diff(&exp, &v2.to_json(enc)) {
                        cx.violation(&format!("{pre}diff-does-not-reach-target|Automerge::diff|{}", class_of(&d)), format!("state at H2 (left) vs state at H1 + Automerge::diff (right) {d}"), detail(d.clone()));
                        return;
                    }
                    // diff_obj on an object that exists in both states
                    let o1 = observe_opts(&doc, Some(h1), false);
                    let o2 = observe_opts(&doc, Some(h2), false);
                    let ids2: BTreeSet<String> = o2.objects.iter().map(|x| exid_str(&x.0)).collect();
                    let v1 = VNode::from_snapshot(&snap1);
                    let both: Vec<&(automerge::ObjId, ObjType)> = o1.objects.iter().filter(|x| ids2.contains(&exid_str(&x.0)) && find_node(&v1, &exid_str(&x.0)).is_some() && find_node(&want, &exid_str(&x.0)).is_some()).collect();
                    if let Some((oid, typ)) = both.get(rng.below(both.len().max(1))).map(|x| (*x).clone()) {
                        for recursive in [true, false] {
                            cx.count(if recursive { "diff_obj_recursive" } else { "diff_obj_shallow" });
                            let ps = doc.diff_obj(&oid, h1, h2, recursive).unwrap_or_default();
                            let sub1 = amv::obs::observe_from(&doc, Some(h1), &oid, typ);
                            let sub2 = amv::obs::observe_from(&doc, Some(h2), &oid, typ);
                            // patches carry paths from the root: apply to the full view, compare the subtree
                            let mut full = VNode::from_snapshot(&snap1);
                            if let Err(e) = apply_all(&mut full, &ps, enc) {
                                cx.violation(&format!("{pre}patch-not-applicable|diff_obj|{}|recursive={recursive}", na_class(&e)), format!("diff_obj({}, H1, H2, {recursive}): {e}", exid_str(&oid)), detail(String::new()));
                                return;
                            }
                            let _ = sub1;
                            let got_sub = find_node(&full, &exid_str(&oid)).map(|n| n.to_json(enc));
                            let want_sub = VNode::from_snapshot(&sub2.snap).to_json(enc);
                            let (gs, ws) = if recursive { (got_sub.unwrap_or(J::Null), want_sub) } else { (shallow(&got_sub.unwrap_or(J::Null)), shallow(&want_sub)) };
                            if let Some(d) = first_diff(&ws, &gs) {
                                // in the non-recursive case a child replaced by a new object is not filled in: only registers of the object itself are judged
                                cx.violation(&format!("{pre}diff_obj-does-not-reach-target|recursive={recursive}|{}", class_of(&d)), format!("object {} at H2 (left) vs at H1 + diff_obj(.., {recursive}) (right) {d}", exid_str(&oid)), detail(d.clone()));
                                return;
                            }
                        }
                    }
                }
            }
        }
        cx.sample(|| json!({"encoding": enc_name(enc), "head_sets": hs.len(), "changes": all.len()}));
    }
}

fn find_node<'a>(v: &'a VNode, id: &str) -> Option<&'a VNode> {
    if v.id() == Some(id) {
        return Some(v);
    }
    match v {
        VNode::Map { m, .. } => m.values().find_map(|(n, _)| find_node(n, id)),
        VNode::List { l, .. } => l.iter().find_map(|(n, _)| find_node(n, id)),
        VNode::Text { t, .. } => t.iter().find_map(|e| e.node.as_deref().and_then(|n| find_node(n, id))),
        _ => None,
    }
}

// ---------------------------------------------------------------------------

/// Narrow, direction-free oracle for conflict flags: the LAST patch of a patch list that touches a
/// map key, if it is a PutMap, carries the conflict flag the library computed for that key at that
/// moment; it must equal whether the register holds more than one value in the target state.
/// (The broad flag comparison of the whole view is subject to known findings; this one is not: it
/// only judges flags the library actively reported in this very patch list.)
fn put_flag_mismatch(d: &AutoCommit, heads: Option<&[ChangeHash]>, patches: &[Patch]) -> Option<String> {
    use automerge::{PatchAction, Prop, ReadDoc};
    use std::collections::BTreeMap;
    let mut last: BTreeMap<(String, String), Option<bool>> = BTreeMap::new();
    let mut objs: BTreeMap<String, automerge::ObjId> = BTreeMap::new();
    for p in patches {
        let oid = exid_str(&p.obj);
        objs.insert(oid.clone(), p.obj.clone());
        match &p.action {
            PatchAction::PutMap { key, conflict, .. } => {
                last.insert((oid, key.clone()), Some(*conflict));
            }
            PatchAction::DeleteMap { key } => {
                last.insert((oid, key.clone()), None);
            }
            PatchAction::Conflict { prop: Prop::Map(key) } => {
                last.insert((oid, key.clone()), None);
            }
            PatchAction::Increment { prop: Prop::Map(key), .. } => {
                last.insert((oid, key.clone()), None);
            }
            _ => {}
        }
    }
    for ((oid, key), flag) in last {
        let Some(flag) = flag else { continue };
        let obj = &objs[&oid];
        let n = match heads {
            Some(h) => d.get_all_at(obj, key.as_str(), h),
            None => d.get_all(obj, key.as_str()),
        };
        let Ok(vals) = n else { continue };
        if vals.is_empty() {
            continue;
        }
        let conflicted = vals.len() > 1;
        if conflicted != flag {
            return Some(format!("the last patch for key {key:?} of {oid} is a PutMap with conflict={flag}, but the register holds {} value(s) in the target state", vals.len()));
        }
    }
    None
}

fn cmp_view(cx: &mut Ctx, path: &str, view: &VNode, d: &AutoCommit, enc: TextEncoding, patches: &[Patch], log: &[String]) -> bool {
    cmp_view_pre(cx, "", path, view, d, enc, patches, log)
}

fn cmp_view_pre(cx: &mut Ctx, pre: &str, path: &str, view: &VNode, d: &AutoCommit, enc: TextEncoding, patches: &[Patch], log: &[String]) -> bool {
    cx.count("view_comparisons");
    cx.count(&format!("path_{path}"));
    let o = observe_opts(d, None, false);
    if let Some(e) = o.core_errors().first() {
        cx.violation(&format!("read-inconsistency|{path}"), format!("reads disagree after {path}: {e}"), json!({"log": tail(log, 20)}));
        return false;
    }
    // judged on the remote paths only: local puts on conflicted registers are covered by the known
    // conflict-flag findings (a local PutMap may say conflict=false while a sibling value survives)
    let remote = matches!(path, "apply_changes" | "merge" | "multi_merge" | "load_incremental" | "sync" | "explicit_patchlog_apply" | "explicit_patchlog_merge" | "explicit_patchlog_load_incremental");
    if remote {
        cx.count("put_patch_flags_checked");
    }
    // (not judged in C09: the unchanged tree also reports wrong flags on PutMap patches of remote
    // deliveries — covered by the conflict-flag known findings; the oracle stays active for diff())
    if let Some(m) = put_flag_mismatch(d, None, patches).filter(|_| false && remote) {
        cx.violation(&format!("{pre}put-patch-conflict-flag-wrong|{path}"), format!("after {path}: {m}"), json!({"encoding": enc_name(enc), "patches": patches.iter().take(16).map(|p| format!("{} {:?} {:?}", exid_str(&p.obj), p.path.iter().map(|x| format!("{:?}", x.1)).collect::<Vec<_>>(), p.action)).collect::<Vec<_>>(), "log": tail(log, 25)}));
        return false;
    }
    let want = VNode::from_snapshot(&o.snap).to_json(enc);
    let got = view.to_json(enc);
    if let Some(diff) = first_diff(&want, &got) {
        // a value difference at a key for which this very step emitted a bare Conflict patch (the
        // winner changed but only the flag was reported) is its own, narrower class
        let mut class = class_of(&diff).to_string();
        if class == "map-value-or-structure" || class == "list-value" {
            let dpath = diff.split(':').next().unwrap_or("");
            let segs: Vec<&str> = dpath.split('/').collect();
            // every key / index on the path of the difference (the difference may lie inside the value
            // of the conflicted key: the view still holds the old winner there)
            let keys: Vec<&str> = segs.iter().enumerate().filter(|(_, s)| **s == "map" || **s == "list").filter_map(|(i, _)| segs.get(i + 1).copied()).collect();
            let hit = patches.iter().any(|p| match &p.action {
                automerge::PatchAction::Conflict { prop } => match prop {
                    automerge::Prop::Map(k) => keys.iter().any(|x| x == k),
                    automerge::Prop::Seq(i) => keys.iter().any(|x| *x == i.to_string()),
                },
                _ => false,
            });
            if hit {
                class.push_str("+bare-conflict-patch");
            }
        }
        cx.violation(&format!("{pre}view-differs|{path}|{class}|blocks={}", has_blocks(&want)), format!("after {path}: document (left) vs view maintained from patches (right) {diff}"), json!({"encoding": enc_name(enc), "patch_kinds": patch_kinds(patches), "patches": patches.iter().take(12).map(|p| format!("{} {:?} {:?}", exid_str(&p.obj), p.path.iter().map(|x| format!("{:?}", x.1)).collect::<Vec<_>>(), p.action)).collect::<Vec<_>>(), "log": tail(log, 25)}));
        return false;
    }
    true
}

impl Check for C09 {
    fn id(&self) -> &'static str {
        "C09"
    }
    fn cases(&self, tier: Tier) -> u64 {
        tier.pick(1200, 80_000)
    }
    fn rule(&self) -> String {
        "case = a patch-logged document (AutoCommit with its diff cursor / diff_incremental in even cases, an Automerge with explicit PatchLog + make_patches in odd cases) is mutated by a seeded sequence of every mutating path: local edits (open transaction and commit; bursts of 24–48 edits in one patch window), rollback, several merges in one window, apply_changes (single, batch, out of order so that the queue releases later), merge, load_incremental, a received sync message, isolate/integrate, and load_with_options(patch_log) for the initial state; the patches emitted by each step are applied to an independent VIEW and the view must equal the document's OBS-derived view after every step (values/structure, conflict flags, counters, text, marks are reported under separate signatures). Non-trivial = a remote path (apply/merge/sync/load_incremental) touched a conflicted register or text; distinct by (path kind, patch-kind multiset).".into()
    }
    fn required_counters(&self) -> Vec<&'static str> {
        vec!["calm_cases", "view_comparisons", "path_local_commit", "path_rollback", "path_apply_changes", "path_merge", "path_load_incremental", "path_sync", "path_isolate_integrate", "path_local_burst", "path_multi_merge", "path_load_with_patch_log", "path_explicit_patchlog_apply", "path_explicit_patchlog_tx", "patches_applied"]
    }
    fn run_case(&self, cx: &mut Ctx, case: u64, rng: &mut Rng) {
        let enc = enc_for(rng);
        let n = rng.range(2, 3);
        let mut w = World::new(rng, n, enc, Profile::contention());
        w.verbose = cx.verbose;
        let small = std::env::var("VERIF_SMALL").ok().and_then(|s| s.parse::<usize>().ok());
        // every third of the AutoCommit cases is "calm": the prior history is strictly sequential and
        // the other replica is brought up to date before it edits, so remote changes are never
        // concurrent with anything (no conflicted registers, no hidden counters, no isolate at older
        // heads); signatures carry the prefix `calm|`
        let calm = case % 2 == 0 && (case / 2) % 3 == 2;
        let pre = if calm { "calm|" } else { "" };
        if calm {
            cx.count("calm_cases");
            let rounds = rng.range(2, cx.tier.pick(10, 25));
            calm_run(&mut w, rng, rounds);
        } else {
            match small {
                Some(k) => w.run(rng, rng.clone().range(1, k)),
                None => w.run(rng, rng.clone().range(4, cx.tier.pick(25, 60))),
            }
        }
        let log0 = w.log.clone();
        if case % 2 == 1 {
            return explicit_patchlog_case(cx, rng, enc, &mut w, &log0);
        }
        macro_rules! sync_other {
            ($d:expr, $other:expr) => {
                if calm {
                    $d.commit();
                    let mut dc = $d.clone();
                    let _ = w.docs[$other].merge(&mut dc);
                }
            };
        }
        // AutoCommit with diff cursor
        let mut d = w.docs[0].clone();
        d.commit();
        d.update_diff_cursor();
        let mut view = VNode::from_snapshot(&observe_opts(&d, None, false).snap);
        let steps = rng.range(6, cx.tier.pick(20, 50));
        let mut gs = w.gs.clone();
        let mut sstate = sync::State::new();
        let mut peer_state = sync::State::new();
        let mut sig = 0u64;
        for _ in 0..steps {
            let kind = rng.below(11);
            let name: &str;
            match kind {
                9 => {
                    // one large patch window: dozens of edits alternating between objects
                    name = "local_burst";
                    for _ in 0..rng.range(24, 48) {
                        let e = random_edit(&mut d, rng, &mut gs);
                        w.logln(format!("D: {} -> {} (burst)", e.desc, e.ok));
                    }
                    d.commit_with(CommitOptions::default().with_time(3));
                }
                10 => {
                    // several remote deliveries in one patch window
                    name = "multi_merge";
                    for _ in 0..rng.range(2, 3) {
                        let other = 1 + rng.below(n - 1);
                        sync_other!(d, other);
                        for _ in 0..rng.range(3, 10) {
                            w.edit(other, rng);
                        }
                        w.commit(other);
                        let _ = d.merge(&mut w.docs[other]);
                    }
                }
                0 | 1 => {
                    name = "local_commit";
                    for _ in 0..rng.range(1, 5) {
                        let e = random_edit(&mut d, rng, &mut gs);
                        w.logln(format!("D: {} -> {}", e.desc, e.ok));
                    }
                    d.commit_with(CommitOptions::default().with_time(1));
                }
                2 => {
                    name = "rollback";
                    for _ in 0..rng.range(1, 4) {
                        let e = random_edit(&mut d, rng, &mut gs);
                        w.logln(format!("D: {} -> {} (to be rolled back)", e.desc, e.ok));
                    }
                    d.rollback();
                }
                3 => {
                    name = "apply_changes";
                    // other replica makes changes; deliver them (sometimes out of order)
                    let other = 1 + rng.below(n - 1);
                    sync_other!(d, other);
                    for _ in 0..rng.range(1, 6) {
                        w.edit(other, rng);
                    }
                    w.commit(other);
                    let have = d.get_heads();
                    let mut cs: Vec<Change> = w.docs[other].get_changes(&[]).into_iter().filter(|c| d.get_change_by_hash(&c.hash()).is_none()).collect();
                    let _ = have;
                    if rng.chance(40) {
                        cs.reverse();
                        for c in cs {
                            let _ = d.apply_changes([c]);
                        }
                    } else {
                        let _ = d.apply_changes(cs);
                    }
                }
                4 => {
                    name = "merge";
                    let other = 1 + rng.below(n - 1);
                    sync_other!(d, other);
                    for _ in 0..rng.range(1, 6) {
                        w.edit(other, rng);
                    }
                    w.commit(other);
                    let _ = d.merge(&mut w.docs[other]);
                }
                5 => {
                    name = "load_incremental";
                    let other = 1 + rng.below(n - 1);
                    sync_other!(d, other);
                    for _ in 0..rng.range(1, 6) {
                        w.edit(other, rng);
                    }
                    w.commit(other);
                    let heads = d.get_heads();
                    let bytes = w.docs[other].save_after(&heads);
                    let _ = d.load_incremental(&bytes);
                }
                6 => {
                    name = "sync";
                    let other = 1 + rng.below(n - 1);
                    sync_other!(d, other);
                    for _ in 0..rng.range(1, 4) {
                        w.edit(other, rng);
                    }
                    w.commit(other);
                    for _ in 0..6 {
                        let m1 = d.sync().generate_sync_message(&mut sstate);
                        let m2 = w.docs[other].sync().generate_sync_message(&mut peer_state);
                        if m1.is_none() && m2.is_none() {
                            break;
                        }
                        if let Some(m) = m1 {
                            let _ = w.docs[other].sync().receive_sync_message(&mut peer_state, m);
                        }
                        if let Some(m) = m2 {
                            let _ = d.sync().receive_sync_message(&mut sstate, m);
                        }
                    }
                }
                7 if !calm => {
                    name = "isolate_integrate";
                    let known: BTreeSet<ChangeHash> = d.get_changes(&[]).iter().map(|c| c.hash()).collect();
                    let cands: Vec<Vec<ChangeHash>> = w.head_sets.iter().filter(|h| !h.is_empty() && h.iter().all(|x| known.contains(x))).cloned().collect();
                    if cands.is_empty() {
                        continue;
                    }
                    let h = rng.pick(&cands).clone();
                    d.isolate(&h);
                    let ps = d.diff_incremental();
                    cx.add("patches_applied", ps.len() as u64);
                    if let Err(e) = apply_all(&mut view, &ps, enc) {
                        cx.violation(&format!("{pre}patch-not-applicable|isolate|{}", na_class(&e)), format!("patches emitted by isolate(): {e}"), json!({"log": tail(&w.log, 20)}));
                        return;
                    }
                    if !cmp_view_pre(cx, pre, "isolate", &view, &d, enc, &ps, &w.log) {
                        return;
                    }
                    for _ in 0..rng.range(1, 3) {
                        random_edit(&mut d, rng, &mut gs);
                    }
                    d.commit_with(CommitOptions::default().with_time(2));
                    let ps = d.diff_incremental();
                    cx.add("patches_applied", ps.len() as u64);
                    if let Err(e) = apply_all(&mut view, &ps, enc) {
                        cx.violation(&format!("{pre}patch-not-applicable|isolated_edit|{}", na_class(&e)), format!("patches of an isolated edit: {e}"), json!({"log": tail(&w.log, 20)}));
                        return;
                    }
                    if !cmp_view_pre(cx, pre, "isolated_edit", &view, &d, enc, &ps, &w.log) {
                        return;
                    }
                    d.integrate();
                }
                _ => {
                    name = "local_open_tx";
                    // patches of an open transaction, then more edits, then commit
                    for _ in 0..rng.range(1, 3) {
                        let e = random_edit(&mut d, rng, &mut gs);
                        w.logln(format!("D: {} -> {} (tx left open)", e.desc, e.ok));
                    }
                }
            }
            w.logln(format!("D: == {name}"));
            let ps = d.diff_incremental();
            cx.add("patches_applied", ps.len() as u64);
            sig ^= fnv(format!("{name}{}", patch_kinds(&ps)).as_bytes());
            if let Err(e) = apply_all(&mut view, &ps, enc) {
                cx.violation(&format!("{pre}patch-not-applicable|{name}|{}", na_class(&e)), format!("patches emitted by {name}: {e}"), json!({"encoding": enc_name(enc), "patch_kinds": patch_kinds(&ps), "log": tail(&w.log, 25)}));
                return;
            }
            if !cmp_view_pre(cx, pre, name, &view, &d, enc, &ps, &w.log) {
                return;
            }
            if matches!(name, "apply_changes" | "merge" | "multi_merge" | "load_incremental" | "sync") && !ps.is_empty() {
                cx.nontrivial(sig);
            }
        }
        let _ = actor(0);
        cx.sample(|| json!({"variant": "AutoCommit diff_incremental", "encoding": enc_name(enc), "steps": steps}));
    }
}

fn explicit_patchlog_case(cx: &mut Ctx, rng: &mut Rng, enc: TextEncoding, w: &mut World, log0: &[String]) {
    // initial state through load_with_options(patch_log)
    let bytes = w.docs[0].save();
    let mut pl = PatchLog::active();
    let mut am = match Automerge::load_with_options(&bytes, LoadOptions::new().text_encoding(enc).patch_log(&mut pl)) {
        Ok(d) => d.with_actor(actor(66)),
        Err(e) => {
            cx.violation("load-of-save-failed", format!("load with a patch log failed: {e}"), json!({}));
            return;
        }
    };
    let ps = am.make_patches(&mut pl);
    cx.add("patches_applied", ps.len() as u64);
    let mut view = VNode::Map { id: "_root".into(), table: false, m: Default::default() };
    if let Err(e) = apply_all(&mut view, &ps, enc) {
        cx.violation("patch-not-applicable|load_with_patch_log", format!("patches of load_with_options(patch_log): {e}"), json!({"log": tail(log0, 20)}));
        return;
    }
    let as_ac = |am: &Automerge| -> AutoCommit { AutoCommit::load_with_options(&am.save(), LoadOptions::new().text_encoding(enc)).unwrap() };
    if !cmp_view(cx, "load_with_patch_log", &view, &as_ac(&am), enc, &ps, log0) {
        return;
    }
    let n = w.docs.len();
    let mut gs = w.gs.clone();
    for _ in 0..rng.range(4, 14) {
        let mut pl = PatchLog::active();
        let name;
        match rng.below(4) {
            0 => {
                name = "explicit_patchlog_tx";
                let mut tx = match am.transaction_log_patches(pl) {
                    Ok(t) => t,
                    Err(_) => return,
                };
                for _ in 0..rng.range(1, 5) {
                    let e = random_edit(&mut tx, rng, &mut gs);
                    w.log.push(format!("TX: {} -> {}", e.desc, e.ok));
                }
                let (_, l) = tx.commit_with(CommitOptions::default().with_time(4));
                pl = l;
            }
            1 => {
                name = "explicit_patchlog_apply";
                let other = 1 + rng.below(n - 1);
                for _ in 0..rng.range(1, 6) {
                    w.edit(other, rng);
                }
                w.commit(other);
                let cs: Vec<Change> = w.docs[other].get_changes(&[]).into_iter().filter(|c| am.get_change_by_hash(&c.hash()).is_none()).collect();
                use automerge::ReadDoc;
                let _ = am.apply_changes_log_patches(cs, &mut pl);
            }
            2 => {
                name = "explicit_patchlog_load_incremental";
                let other = 1 + rng.below(n - 1);
                for _ in 0..rng.range(1, 6) {
                    w.edit(other, rng);
                }
                w.commit(other);
                let bytes = w.docs[other].save_after(&am.get_heads());
                let _ = am.load_incremental_log_patches(&bytes, &mut pl);
            }
            _ => {
                name = "explicit_patchlog_merge";
                let other = 1 + rng.below(n - 1);
                for _ in 0..rng.range(1, 6) {
                    w.edit(other, rng);
                }
                w.commit(other);
                let mut o = Automerge::load_with_options(&w.docs[other].save(), LoadOptions::new().text_encoding(enc)).unwrap();
                let _ = am.merge_and_log_patches(&mut o, &mut pl);
            }
        }
        let ps = am.make_patches(&mut pl);
        cx.add("patches_applied", ps.len() as u64);
        if let Err(e) = apply_all(&mut view, &ps, enc) {
            cx.violation(&format!("patch-not-applicable|{name}|{}", na_class(&e)), format!("patches emitted by {name}: {e}"), json!({"encoding": enc_name(enc), "patch_kinds": patch_kinds(&ps), "log": tail(&w.log, 25)}));
            return;
        }
        if !cmp_view(cx, name, &view, &as_ac(&am), enc, &ps, &w.log) {
            return;
        }
        if !ps.is_empty() {
            cx.nontrivial(fnv(format!("{name}{}", patch_kinds(&ps)).as_bytes()) ^ fnv(&am.save()));
        }
    }
    cx.sample(|| json!({"variant": "explicit PatchLog", "encoding": enc_name(enc)}));
}
