//! C28 — rollback restores the exact prior document.
use amv::fw::*;
use amv::gen::{actor, random_edit, Profile, World};
use amv::obs::{enc_name, first_diff, observe_opts};
use amv::util::*;
use automerge::transaction::CommitOptions;
use automerge::{AutoCommit, Automerge, LoadOptions, ReadDoc};
use serde_json::json;

pub struct C28;

struct Before {
    save: Vec<u8>,
    snap: serde_json::Value,
    heads: Vec<automerge::ChangeHash>,
    actor: automerge::ActorId,
    num_actors: u64,
    num_ops: u64,
    num_changes: u64,
}

fn capture_am(d: &Automerge) -> Before {
    let mut heads = d.get_heads();
    heads.sort();
    let st = d.stats();
    Before {
        save: d.save(),
        snap: observe_opts(d, None, false).snap,
        heads,
        actor: d.get_actor().clone(),
        num_actors: st.num_actors,
        num_ops: st.num_ops,
        num_changes: st.num_changes,
    }
}

fn compare(cx: &mut Ctx, variant: &str, before: &Before, after: &Before, ops: &[String], log: &[String]) -> bool {
    let detail = || json!({"variant": variant, "rolled_back_ops": ops, "log": tail(log, 25)});
    if before.heads != after.heads {
        cx.violation(&format!("heads-changed|{variant}"), "heads differ after rollback", detail());
        return false;
    }
    if let Some(d) = first_diff(&before.snap, &after.snap) {
        cx.violation(&format!("state-changed|{variant}"), format!("state before the transaction (left) vs after rollback (right) {d}"), detail());
        return false;
    }
    if before.actor != after.actor {
        cx.violation(&format!("actor-changed|{variant}"), "get_actor() differs after rollback", detail());
        return false;
    }
    if before.num_actors != after.num_actors {
        cx.violation(&format!("actor-table-changed|{variant}"), format!("stats().num_actors was {} and is {} after rollback", before.num_actors, after.num_actors), detail());
        return false;
    }
    if before.num_ops != after.num_ops || before.num_changes != after.num_changes {
        cx.violation(&format!("stats-changed|{variant}"), format!("stats() ops/changes were {}/{} and are {}/{} after rollback", before.num_ops, before.num_changes, after.num_ops, after.num_changes), detail());
        return false;
    }
    if before.save != after.save {
        cx.violation(&format!("save-bytes-changed|{variant}"), format!("save() bytes differ after rollback ({} vs {} bytes)", before.save.len(), after.save.len()), detail());
        return false;
    }
    true
}

impl Check for C28 {
    fn id(&self) -> &'static str {
        "C28"
    }
    fn cases(&self, tier: Tier) -> u64 {
        tier.pick(2500, 150_000)
    }
    fn rule(&self) -> String {
        "case = a seeded multi-replica prior history, then on one replica a transaction of 1–12 random edits (object creation, deletes of conflicted values, text splices, marks, blocks, increments, bulk updates, also invalid calls) that is rolled back through one of: AutoCommit::rollback, Transaction::rollback, Transaction dropped, transact(closure → Err), transaction_at(historical heads) rollback; about a third of the cases use an actor that has never committed. After rollback save() bytes, OBS snapshot, heads, actor, stats (actors/ops/changes) and H3 must equal the capture taken before; then the same continuation edits run on the rolled-back document and on a clone taken before the transaction must produce byte-identical changes. Non-trivial = the rolled-back transaction had ≥3 successful ops including an object creation, a delete/overwrite of a conflicted value, a mark or a first-change-of-actor; distinct by op-kind sequence.".into()
    }
    fn required_counters(&self) -> Vec<&'static str> {
        vec!["variant_autocommit", "variant_tx_rollback", "variant_tx_drop", "variant_transact_err", "variant_scoped", "new_actor_cases", "continuations_compared"]
    }
    fn run_case(&self, cx: &mut Ctx, _case: u64, rng: &mut Rng) {
        let enc = enc_for(rng);
        let n = rng.range(2, 3);
        let mut w = World::new(rng, n, enc, Profile::with_invalid(10));
        w.verbose = cx.verbose;
        let steps = rng.range(5, cx.tier.pick(50, 150));
        w.run(rng, steps);
        let r = rng.below(n);
        // bring in some conflicts
        if n > 1 {
            let b = (r + 1) % n;
            w.merge(r, b);
        }
        w.commit(r);
        let new_actor = rng.chance(33);
        if new_actor {
            w.docs[r].set_actor(actor(150 + rng.below(8)));
            cx.count("new_actor_cases");
        }
        let log = w.log.clone();
        let variant = rng.below(5);
        let k = rng.range(1, 12);
        let mut ops: Vec<String> = vec![];
        let mut kinds: Vec<&'static str> = vec![];
        let mut ok_ops = 0;
        let mut gs = w.gs.clone();
        let cont_seed = rng.next();
        // the untouched twin
        let mut twin: AutoCommit = w.docs[r].clone();
        let (before, after, mut rolled): (Before, Before, AutoCommit);
        match variant {
            0 => {
                cx.count("variant_autocommit");
                let d = &mut w.docs[r];
                before = capture_am(d.document());
                for _ in 0..k {
                    let e = random_edit(d, rng, &mut gs);
                    if e.ok {
                        ok_ops += 1;
                    }
                    kinds.push(e.kind);
                    ops.push(format!("{} -> {}", e.desc, if e.ok { "ok".into() } else { e.err.unwrap_or_default() }));
                }
                let pending = automerge::transaction::Transactable::pending_ops(d);
                let n_rolled = d.rollback();
                if n_rolled != pending {
                    cx.violation("rollback-count", format!("rollback() returned {n_rolled} but pending_ops() was {pending}"), json!({"ops": ops}));
                    return;
                }
                after = capture_am(d.document());
                rolled = d.clone();
            }
            _ => {
                // manual transactions on an Automerge
                let bytes = w.docs[r].save();
                let a = w.docs[r].get_actor().clone();
                let mut am = match Automerge::load_with_options(&bytes, LoadOptions::new().text_encoding(enc)) {
                    Ok(d) => d.with_actor(a.clone()),
                    Err(e) => {
                        cx.violation("load-of-save-failed", format!("load(save()) failed: {e}"), json!({}));
                        return;
                    }
                };
                twin = AutoCommit::load_with_options(&bytes, LoadOptions::new().text_encoding(enc)).unwrap().with_actor(a.clone());
                before = capture_am(&am);
                match variant {
                    1 | 2 => {
                        let mut tx = am.transaction();
                        for _ in 0..k {
                            let e = random_edit(&mut tx, rng, &mut gs);
                            if e.ok {
                                ok_ops += 1;
                            }
                            kinds.push(e.kind);
                            ops.push(format!("{} -> {}", e.desc, if e.ok { "ok".into() } else { e.err.unwrap_or_default() }));
                        }
                        if variant == 1 {
                            cx.count("variant_tx_rollback");
                            tx.rollback();
                        } else {
                            cx.count("variant_tx_drop");
                            drop(tx);
                        }
                    }
                    3 => {
                        cx.count("variant_transact_err");
                        let mut rng2 = rng.fork();
                        let res = am.transact::<_, (), String>(|tx| {
                            for _ in 0..k {
                                let e = random_edit(tx, &mut rng2, &mut gs);
                                if e.ok {
                                    ok_ops += 1;
                                }
                                kinds.push(e.kind);
                                ops.push(format!("{} -> {}", e.desc, if e.ok { "ok".into() } else { e.err.unwrap_or_default() }));
                            }
                            Err("abort".to_string())
                        });
                        if res.is_ok() {
                            cx.violation("transact-err-committed", "transact() with a closure returning Err reported success", json!({}));
                            return;
                        }
                    }
                    _ => {
                        cx.count("variant_scoped");
                        let known: std::collections::BTreeSet<automerge::ChangeHash> = am.get_changes(&[]).iter().map(|c| c.hash()).collect();
                        let cands: Vec<Vec<automerge::ChangeHash>> = w.head_sets.iter().filter(|h| !h.is_empty() && h.iter().all(|x| known.contains(x))).cloned().collect();
                        let heads = rng.pick(&cands).clone();
                        let mut tx = am.transaction_at(automerge::PatchLog::inactive(), &heads).expect("inactive patch log never mismatches");
                        for _ in 0..k {
                            let e = random_edit(&mut tx, rng, &mut gs);
                            if e.ok {
                                ok_ops += 1;
                            }
                            kinds.push(e.kind);
                            ops.push(format!("{} -> {}", e.desc, if e.ok { "ok".into() } else { e.err.unwrap_or_default() }));
                        }
                        tx.rollback();
                    }
                }
                after = capture_am(&am);
                if let Err(e) = am.verif_check_invariants(true) {
                    cx.violation("h3", format!("internal invariant broken after rollback: {e}"), json!({"ops": ops, "variant": variant}));
                    return;
                }
                rolled = AutoCommit::load_with_options(&am.save(), LoadOptions::new().text_encoding(enc)).unwrap().with_actor(a);
                // also continue on the very same Automerge object (not a reload)
                let mut rngc = Rng::new(cont_seed);
                let mut gsc = w.gs.clone();
                let mut tx = am.transaction();
                for _ in 0..4 {
                    random_edit(&mut tx, &mut rngc, &mut gsc);
                }
                let (h, _) = tx.commit_with(CommitOptions::default().with_time(77));
                let mut rngc = Rng::new(cont_seed);
                let mut gsc = w.gs.clone();
                for _ in 0..4 {
                    random_edit(&mut twin, &mut rngc, &mut gsc);
                }
                let h2 = twin.commit_with(CommitOptions::default().with_time(77));
                cx.count("continuations_compared");
                if h != h2 {
                    cx.violation(&format!("continuation-differs|v{variant}"), format!("the same edits after rollback produce change {h:?}, on the untouched document {h2:?}"), json!({"rolled_back_ops": ops, "log": tail(&log, 25)}));
                    return;
                }
            }
        }
        let vname = ["autocommit", "tx_rollback", "tx_drop", "transact_err", "scoped"][variant];
        if !compare(cx, vname, &before, &after, &ops, &log) {
            return;
        }
        if variant == 0 {
            if !check_h3(cx, &rolled, "after AutoCommit::rollback") {
                return;
            }
            let mut rngc = Rng::new(cont_seed);
            let mut gsc = w.gs.clone();
            for _ in 0..4 {
                random_edit(&mut rolled, &mut rngc, &mut gsc);
            }
            let h = rolled.commit_with(CommitOptions::default().with_time(77));
            let mut rngc = Rng::new(cont_seed);
            let mut gsc = w.gs.clone();
            for _ in 0..4 {
                random_edit(&mut twin, &mut rngc, &mut gsc);
            }
            let h2 = twin.commit_with(CommitOptions::default().with_time(77));
            cx.count("continuations_compared");
            if h != h2 {
                cx.violation("continuation-differs|autocommit", format!("the same edits after rollback produce change {h:?}, on the untouched clone {h2:?}"), json!({"rolled_back_ops": ops, "log": tail(&log, 25)}));
                return;
            }
        }
        let interesting = kinds.iter().any(|k| matches!(*k, "put_object" | "insert_object" | "mark" | "unmark" | "delete" | "delete_seq" | "split_block" | "splice" | "update_object")) || new_actor;
        if ok_ops >= 3 && interesting {
            cx.nontrivial(fnv(format!("{variant}{kinds:?}").as_bytes()));
        }
        cx.add("rolled_back_ops", ok_ops);
        cx.sample(|| json!({"variant": vname, "encoding": enc_name(enc), "new_actor": new_actor, "rolled_back": ops}));
    }
}
