//! C32 — serde export is a faithful image of the current state.
use amv::fw::*;
use amv::gen::{Profile, World};
use amv::obs::{enc_name, first_diff, observe_opts, winners};
use amv::util::*;
use automerge::AutoSerde;
use serde::ser::{self, Serialize};
use serde_json::{json, Value as J};
use std::cell::RefCell;
use std::rc::Rc;

pub struct C32;

/// expected JSON image from the winners-only view
fn expect_json(w: &J) -> J {
    if let Some(m) = w.get("map").and_then(|m| m.as_object()) {
        return J::Object(m.iter().map(|(k, v)| (k.clone(), expect_json(v))).collect());
    }
    if let Some(l) = w.get("list").and_then(|m| m.as_array()) {
        return J::Array(l.iter().map(expect_json).collect());
    }
    if let Some(t) = w.get("text") {
        return t.clone();
    }
    if let Some(s) = w.get("str") {
        return s.clone();
    }
    for k in ["int", "uint", "counter", "ts", "bool"] {
        if let Some(v) = w.get(k) {
            return v.clone();
        }
    }
    if w.get("null").is_some() {
        return J::Null;
    }
    if let Some(b) = w.get("f64").and_then(|b| b.as_str()) {
        let bits = u64::from_str_radix(b.trim_start_matches("0x"), 16).unwrap_or(0);
        return serde_json::to_value(f64::from_bits(bits)).unwrap_or(J::Null);
    }
    if let Some(b) = w.get("bytes").and_then(|b| b.as_str()) {
        return J::Array(hex::decode(b).unwrap_or_default().into_iter().map(|x| json!(x)).collect());
    }
    J::Null
}

// ---------------------------------------------------------------------------
// a serializer that enforces serde's length contract: every serialize_map /
// serialize_seq with Some(n) must be followed by exactly n entries; None is recorded
// ---------------------------------------------------------------------------
#[derive(Default, Debug)]
struct Log {
    containers: u64,
    announced_none: Vec<String>,
    mismatches: Vec<String>,
    nested_maps_with_other_size_than_root: u64,
    root_len: Option<usize>,
}

#[derive(Clone)]
struct LenCheck {
    log: Rc<RefCell<Log>>,
    path: String,
}

#[derive(Debug)]
struct SerErr(String);
impl std::fmt::Display for SerErr {
    fn fmt(&self, f: &mut std::fmt::Formatter<'_>) -> std::fmt::Result {
        write!(f, "{}", self.0)
    }
}
impl std::error::Error for SerErr {}
impl ser::Error for SerErr {
    fn custom<T: std::fmt::Display>(msg: T) -> Self {
        SerErr(msg.to_string())
    }
}

struct Container {
    log: Rc<RefCell<Log>>,
    path: String,
    kind: &'static str,
    announced: Option<usize>,
    seen: usize,
    last_key: String,
}

impl Container {
    fn finish(self) -> Result<(), SerErr> {
        let mut l = self.log.borrow_mut();
        l.containers += 1;
        match self.announced {
            None => l.announced_none.push(format!("{} {}", self.kind, self.path)),
            Some(n) => {
                if n != self.seen {
                    l.mismatches.push(format!("{} at {:?} announced {} entries but emitted {}", self.kind, self.path, n, self.seen));
                }
                if self.kind == "map" {
                    if self.path.is_empty() {
                        l.root_len = Some(self.seen);
                    } else if Some(self.seen) != l.root_len {
                        l.nested_maps_with_other_size_than_root += 1;
                    }
                }
            }
        }
        Ok(())
    }
}

impl ser::SerializeSeq for Container {
    type Ok = ();
    type Error = SerErr;
    fn serialize_element<T: ?Sized + Serialize>(&mut self, v: &T) -> Result<(), SerErr> {
        let p = format!("{}/{}", self.path, self.seen);
        self.seen += 1;
        v.serialize(LenCheck { log: self.log.clone(), path: p })
    }
    fn end(self) -> Result<(), SerErr> {
        self.finish()
    }
}
impl ser::SerializeTuple for Container {
    type Ok = ();
    type Error = SerErr;
    fn serialize_element<T: ?Sized + Serialize>(&mut self, v: &T) -> Result<(), SerErr> {
        ser::SerializeSeq::serialize_element(self, v)
    }
    fn end(self) -> Result<(), SerErr> {
        self.finish()
    }
}
impl ser::SerializeTupleStruct for Container {
    type Ok = ();
    type Error = SerErr;
    fn serialize_field<T: ?Sized + Serialize>(&mut self, v: &T) -> Result<(), SerErr> {
        ser::SerializeSeq::serialize_element(self, v)
    }
    fn end(self) -> Result<(), SerErr> {
        self.finish()
    }
}
impl ser::SerializeTupleVariant for Container {
    type Ok = ();
    type Error = SerErr;
    fn serialize_field<T: ?Sized + Serialize>(&mut self, v: &T) -> Result<(), SerErr> {
        ser::SerializeSeq::serialize_element(self, v)
    }
    fn end(self) -> Result<(), SerErr> {
        self.finish()
    }
}
impl ser::SerializeMap for Container {
    type Ok = ();
    type Error = SerErr;
    fn serialize_key<T: ?Sized + Serialize>(&mut self, k: &T) -> Result<(), SerErr> {
        self.last_key = serde_json::to_string(&serde_json::to_value(KeyProbe(k)).unwrap_or(J::Null)).unwrap_or_default();
        Ok(())
    }
    fn serialize_value<T: ?Sized + Serialize>(&mut self, v: &T) -> Result<(), SerErr> {
        let p = format!("{}/{}", self.path, self.last_key.trim_matches('"'));
        self.seen += 1;
        v.serialize(LenCheck { log: self.log.clone(), path: p })
    }
    fn end(self) -> Result<(), SerErr> {
        self.finish()
    }
}
struct KeyProbe<'a, T: ?Sized>(&'a T);
impl<T: ?Sized + Serialize> Serialize for KeyProbe<'_, T> {
    fn serialize<S: ser::Serializer>(&self, s: S) -> Result<S::Ok, S::Error> {
        self.0.serialize(s)
    }
}
impl ser::SerializeStruct for Container {
    type Ok = ();
    type Error = SerErr;
    fn serialize_field<T: ?Sized + Serialize>(&mut self, k: &'static str, v: &T) -> Result<(), SerErr> {
        let p = format!("{}/{k}", self.path);
        self.seen += 1;
        v.serialize(LenCheck { log: self.log.clone(), path: p })
    }
    fn end(self) -> Result<(), SerErr> {
        self.finish()
    }
}
impl ser::SerializeStructVariant for Container {
    type Ok = ();
    type Error = SerErr;
    fn serialize_field<T: ?Sized + Serialize>(&mut self, k: &'static str, v: &T) -> Result<(), SerErr> {
        ser::SerializeStruct::serialize_field(self, k, v)
    }
    fn end(self) -> Result<(), SerErr> {
        self.finish()
    }
}

impl LenCheck {
    fn cont(&self, kind: &'static str, n: Option<usize>) -> Container {
        Container { log: self.log.clone(), path: self.path.clone(), kind, announced: n, seen: 0, last_key: String::new() }
    }
}

macro_rules! prim {
    ($($f:ident($t:ty)),*) => { $(fn $f(self, _v: $t) -> Result<(), SerErr> { Ok(()) })* };
}

impl ser::Serializer for LenCheck {
    type Ok = ();
    type Error = SerErr;
    type SerializeSeq = Container;
    type SerializeTuple = Container;
    type SerializeTupleStruct = Container;
    type SerializeTupleVariant = Container;
    type SerializeMap = Container;
    type SerializeStruct = Container;
    type SerializeStructVariant = Container;
    prim!(serialize_bool(bool), serialize_i8(i8), serialize_i16(i16), serialize_i32(i32), serialize_i64(i64), serialize_u8(u8), serialize_u16(u16), serialize_u32(u32), serialize_u64(u64), serialize_f32(f32), serialize_f64(f64), serialize_char(char), serialize_str(&str), serialize_bytes(&[u8]));
    fn serialize_none(self) -> Result<(), SerErr> {
        Ok(())
    }
    fn serialize_some<T: ?Sized + Serialize>(self, v: &T) -> Result<(), SerErr> {
        v.serialize(self)
    }
    fn serialize_unit(self) -> Result<(), SerErr> {
        Ok(())
    }
    fn serialize_unit_struct(self, _: &'static str) -> Result<(), SerErr> {
        Ok(())
    }
    fn serialize_unit_variant(self, _: &'static str, _: u32, _: &'static str) -> Result<(), SerErr> {
        Ok(())
    }
    fn serialize_newtype_struct<T: ?Sized + Serialize>(self, _: &'static str, v: &T) -> Result<(), SerErr> {
        v.serialize(self)
    }
    fn serialize_newtype_variant<T: ?Sized + Serialize>(self, _: &'static str, _: u32, _: &'static str, v: &T) -> Result<(), SerErr> {
        v.serialize(self)
    }
    fn serialize_seq(self, n: Option<usize>) -> Result<Container, SerErr> {
        Ok(self.cont("seq", n))
    }
    fn serialize_tuple(self, n: usize) -> Result<Container, SerErr> {
        Ok(self.cont("tuple", Some(n)))
    }
    fn serialize_tuple_struct(self, _: &'static str, n: usize) -> Result<Container, SerErr> {
        Ok(self.cont("tuple", Some(n)))
    }
    fn serialize_tuple_variant(self, _: &'static str, _: u32, _: &'static str, n: usize) -> Result<Container, SerErr> {
        Ok(self.cont("tuple", Some(n)))
    }
    fn serialize_map(self, n: Option<usize>) -> Result<Container, SerErr> {
        Ok(self.cont("map", n))
    }
    fn serialize_struct(self, _: &'static str, n: usize) -> Result<Container, SerErr> {
        Ok(self.cont("struct", Some(n)))
    }
    fn serialize_struct_variant(self, _: &'static str, _: u32, _: &'static str, n: usize) -> Result<Container, SerErr> {
        Ok(self.cont("struct", Some(n)))
    }
}

impl Check for C32 {
    fn id(&self) -> &'static str {
        "C32"
    }
    fn cases(&self, tier: Tier) -> u64 {
        tier.pick(2500, 150_000)
    }
    fn rule(&self) -> String {
        "case = the replicas and the merged document of a seeded multi-replica history (nested maps, lists, text incl. unicode and blocks, counters, every scalar kind, conflicts) serialised through AutoSerde twice: (1) serde_json::to_value must equal the JSON image the harness derives from the winners-only OBS view (winner of every register, text as string, lists as arrays, maps as objects); (2) a serializer written for this check that counts the entries actually emitted after every serialize_map(Some(n)) / serialize_seq(Some(n)) must see n = count for every container, and no container may announce an unknown length (None), since a length-prefixed format cannot encode that. Non-trivial = the document has a nested map whose size differs from the root's, or nested lists/text; distinct by JSON hash.".into()
    }
    fn required_counters(&self) -> Vec<&'static str> {
        vec!["documents_serialised", "containers_checked", "nested_maps_with_other_size_than_root", "json_images_compared"]
    }
    fn run_case(&self, cx: &mut Ctx, _case: u64, rng: &mut Rng) {
        let enc = enc_for(rng);
        let n = rng.range(2, 3);
        let mut w = World::new(rng, n, enc, Profile { exotic: true, ..Profile::contention() });
        w.verbose = cx.verbose;
        w.run(rng, rng.clone().range(8, cx.tier.pick(60, 150)));
        let log = w.log.clone();
        let mut docs: Vec<automerge::AutoCommit> = w.docs.to_vec();
        docs.push(w.merged());
        for (i, d) in docs.iter_mut().enumerate() {
            d.commit();
            cx.count("documents_serialised");
            let o = observe_opts(d, None, false);
            let want = expect_json(&winners(&o.snap, false));
            cx.count("json_images_compared");
            let got = match catch(|| serde_json::to_value(AutoSerde::from(&*d))) {
                Ok(Ok(v)) => v,
                Ok(Err(e)) => {
                    cx.violation("json-serialisation-failed", format!("serde_json::to_value(AutoSerde) failed: {e}"), json!({"log": tail(&log, 15)}));
                    return;
                }
                Err(p) => {
                    cx.violation("json-serialisation-panicked", format!("serialising AutoSerde panicked: {p}"), json!({"log": tail(&log, 15)}));
                    return;
                }
            };
            if let Some(diff) = first_diff(&want, &got) {
                cx.violation("json-image-differs", format!("document {i}: current state (left) vs AutoSerde JSON (right) {diff}"), json!({"encoding": enc_name(enc), "log": tail(&log, 20)}));
                return;
            }
            let lg = Rc::new(RefCell::new(Log::default()));
            if let Err(e) = AutoSerde::from(&*d).serialize(LenCheck { log: lg.clone(), path: String::new() }) {
                cx.violation("strict-serialisation-failed", format!("serialising AutoSerde with the length-checking serializer failed: {e}"), json!({}));
                return;
            }
            let l = lg.borrow();
            cx.add("containers_checked", l.containers);
            cx.add("nested_maps_with_other_size_than_root", l.nested_maps_with_other_size_than_root);
            if let Some(m) = l.mismatches.first() {
                cx.violation("announced-length-wrong", format!("AutoSerde: {m}"), json!({"all": l.mismatches.iter().take(5).collect::<Vec<_>>(), "log": tail(&log, 15)}));
                return;
            }
            if let Some(m) = l.announced_none.first() {
                cx.violation("length-not-announced", format!("AutoSerde announces no length (None) for {m}; a length-prefixed format cannot encode it"), json!({"containers_without_length": l.announced_none.len()}));
                return;
            }
            if l.nested_maps_with_other_size_than_root > 0 {
                cx.nontrivial(fnv(got.to_string().as_bytes()));
            }
        }
        cx.sample(|| json!({"encoding": enc_name(enc), "json_of_merged": serde_json::to_value(AutoSerde::from(docs.last().unwrap())).map(|v| amv::obs::short(&v)).unwrap_or_default()}));
    }
}
