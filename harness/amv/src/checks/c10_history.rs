//! C10 — history is immutable and content-addressed.
use amv::fw::*;
use amv::gen::{actor, ancestors, Profile, World};
use amv::obs::enc_name;
use amv::util::*;
use automerge::{AutoCommit, Change, ChangeHash};
use serde_json::json;
use sha2::{Digest, Sha256};
use std::collections::{BTreeMap, BTreeSet};

pub struct C10;

fn own_hash(raw: &[u8]) -> Option<[u8; 32]> {
    // chunk = magic(4) checksum(4) type(1) leb(len) data ; hash = SHA-256(type ‖ leb ‖ data)
    if raw.len() < 9 || raw[..4] != [0x85, 0x6f, 0x4a, 0x83] {
        return None;
    }
    let h = Sha256::digest(&raw[8..]);
    let mut out = [0u8; 32];
    out.copy_from_slice(&h);
    Some(out)
}

fn verify_doc(cx: &mut Ctx, label: &str, d: &mut AutoCommit, ledger: &BTreeMap<ChangeHash, Change>, rng: &mut Rng, head_sets: &[Vec<ChangeHash>], log: &[String]) -> bool {
    let all = d.get_changes(&[]);
    let in_doc: BTreeMap<ChangeHash, Change> = all.iter().map(|c| (c.hash(), c.clone())).collect();
    // order: each change after its dependencies
    let mut seen = BTreeSet::new();
    for c in &all {
        for dep in c.deps() {
            if !seen.contains(dep) {
                cx.violation("get-changes-order", format!("{label}: get_changes(&[]) lists {} before its dependency {dep}", c.hash()), json!({"log": tail(log, 30)}));
                return false;
            }
        }
        seen.insert(c.hash());
    }
    let heads: BTreeSet<ChangeHash> = d.get_heads().into_iter().collect();
    for c in &all {
        cx.count("changes_verified");
        let Some(orig) = ledger.get(&c.hash()) else {
            cx.violation("unknown-change", format!("{label}: the document returns change {} which was never created or applied", c.hash()), json!({"log": tail(log, 30)}));
            return false;
        };
        if orig.raw_bytes() != c.raw_bytes() {
            cx.violation("bytes-changed", format!("{label}: change {} (actor {} seq {}) is no longer byte-identical to the change as created", c.hash(), c.actor_id(), c.seq()), json!({"orig_len": orig.raw_bytes().len(), "now_len": c.raw_bytes().len(), "log": tail(log, 30)}));
            return false;
        }
        match own_hash(c.raw_bytes()) {
            Some(h) if h == c.hash().0 => {}
            Some(h) => {
                cx.violation("hash-not-sha256", format!("{label}: change hash {} is not the SHA-256 of its chunk ({})", c.hash(), hex::encode(h)), json!({}));
                return false;
            }
            None => {
                cx.violation("raw-bytes-not-a-chunk", format!("{label}: raw_bytes of change {} do not start with the chunk magic", c.hash()), json!({}));
                return false;
            }
        }
        if c.raw_bytes()[4..8] != c.hash().0[..4] {
            cx.violation("checksum-not-hash-prefix", format!("{label}: chunk checksum of change {} is not the first 4 bytes of its hash", c.hash()), json!({}));
            return false;
        }
        match d.get_change_by_hash(&c.hash()) {
            Some(g) if g.raw_bytes() == orig.raw_bytes() => {}
            Some(_) => {
                cx.violation("bytes-changed|by-hash", format!("{label}: get_change_by_hash({}) returns different bytes", c.hash()), json!({}));
                return false;
            }
            None => {
                cx.violation("by-hash-missing", format!("{label}: get_change_by_hash({}) is None for an applied change", c.hash()), json!({}));
                return false;
            }
        }
        if !heads.contains(&c.hash()) {
            // something later depends on it (its ops may have gained successors)
            cx.nontrivial(u64::from_le_bytes(c.hash().0[..8].try_into().unwrap()));
        }
    }
    // get_changes(have) = changes that are not ancestors of have, deps first
    let mut haves: Vec<Vec<ChangeHash>> = head_sets.iter().filter(|h| h.iter().all(|x| in_doc.contains_key(x))).cloned().collect();
    rng.shuffle(&mut haves);
    haves.truncate(4);
    let keys: Vec<ChangeHash> = in_doc.keys().copied().collect();
    for _ in 0..3 {
        if !keys.is_empty() {
            let k = rng.range(1, 3.min(keys.len()));
            let mut h = vec![];
            for _ in 0..k {
                h.push(*rng.pick(&keys));
            }
            h.sort();
            h.dedup();
            haves.push(h);
        }
    }
    for have in haves {
        cx.count("have_sets_checked");
        let anc = ancestors(&in_doc, &have);
        let expect: BTreeSet<ChangeHash> = in_doc.keys().filter(|k| !anc.contains(k)).copied().collect();
        let got_v = d.get_changes(&have);
        let got: BTreeSet<ChangeHash> = got_v.iter().map(|c| c.hash()).collect();
        if got != expect || got_v.len() != got.len() {
            cx.violation("get-changes-have", format!("{label}: get_changes(have) returned {} changes, expected {} (the non-ancestors of have)", got_v.len(), expect.len()), json!({"have": hash_hex(&have), "missing": hash_hex(&expect.difference(&got).copied().collect::<Vec<_>>()), "extra": hash_hex(&got.difference(&expect).copied().collect::<Vec<_>>()), "log": tail(log, 30)}));
            return false;
        }
        let mut seen: BTreeSet<ChangeHash> = anc.clone();
        for c in &got_v {
            for dep in c.deps() {
                if !seen.contains(dep) {
                    cx.violation("get-changes-order", format!("{label}: get_changes(have) lists {} before its dependency {dep}", c.hash()), json!({}));
                    return false;
                }
            }
            seen.insert(c.hash());
            if ledger.get(&c.hash()).map(|o| o.raw_bytes() != c.raw_bytes()).unwrap_or(true) {
                cx.violation("bytes-changed|have", format!("{label}: get_changes(have) returns different bytes for {}", c.hash()), json!({}));
                return false;
            }
        }
    }
    true
}

impl Check for C10 {
    fn id(&self) -> &'static str {
        "C10"
    }
    fn cases(&self, tier: Tier) -> u64 {
        tier.pick(2500, 150_000)
    }
    fn rule(&self) -> String {
        "case = a seeded multi-replica history; every change's raw bytes are recorded in a ledger the moment it is committed (get_last_local_change). Later — after further edits, merges, forks, save/load (compressed and not) — every change every replica returns (get_changes(&[]), get_change_by_hash, get_changes_added, get_changes(have)) must be byte-identical to the ledger entry, its hash must equal the harness's own SHA-256 of the chunk, the checksum must be the hash prefix, get_changes(have) must be exactly the non-ancestors of have (have drawn from head sets of the history and random hash sets) with dependencies first. Non-trivial = a change retrieved when later changes depend on it; distinct by change hash.".into()
    }
    fn required_counters(&self) -> Vec<&'static str> {
        vec!["changes_verified", "have_sets_checked", "changes_added_checked", "docs_after_reload", "actor_inserted_and_removed"]
    }
    fn run_case(&self, cx: &mut Ctx, _case: u64, rng: &mut Rng) {
        let enc = enc_for(rng);
        let n = rng.range(2, 4);
        let mut w = World::new(rng, n, enc, Profile::contention());
        w.verbose = cx.verbose;
        let segs = 3;
        for seg in 0..segs {
            let steps = rng.range(8, cx.tier.pick(30, 90));
            // ledger entries are taken at commit time only (World::record); do NOT collect() here
            for _ in 0..steps {
                w.step(rng);
            }
            for r in 0..w.docs.len() {
                w.commit(r);
            }
            // every change in any replica must already be in the ledger (recorded when created)
            let ledger = w.ledger.clone();
            let hs = w.head_sets.clone();
            let log = w.log.clone();
            for r in 0..w.docs.len() {
                if !verify_doc(cx, &format!("replica {r} after segment {seg}"), &mut w.docs[r], &ledger, rng, &hs, &log) {
                    return;
                }
            }
        }
        let ledger = w.ledger.clone();
        let hs = w.head_sets.clone();
        let log = w.log.clone();
        // get_changes_added
        if w.docs.len() >= 2 {
            let (a, b) = w.docs.split_at_mut(1);
            let added = a[0].get_changes_added(&mut b[0]);
            cx.count("changes_added_checked");
            let ha: BTreeSet<ChangeHash> = a[0].get_changes(&[]).iter().map(|c| c.hash()).collect();
            let hb: BTreeSet<ChangeHash> = b[0].get_changes(&[]).iter().map(|c| c.hash()).collect();
            let expect: BTreeSet<ChangeHash> = hb.difference(&ha).copied().collect();
            let got: BTreeSet<ChangeHash> = added.iter().map(|c| c.hash()).collect();
            if got != expect {
                cx.violation("get-changes-added", format!("get_changes_added returned {} changes, expected the {} changes the other document has and this one lacks", got.len(), expect.len()), json!({"log": tail(&log, 30)}));
                return;
            }
            for c in &added {
                if ledger.get(&c.hash()).map(|o| o.raw_bytes() != c.raw_bytes()).unwrap_or(true) {
                    cx.violation("bytes-changed|added", format!("get_changes_added returns different bytes for {}", c.hash()), json!({}));
                    return;
                }
            }
        }
        // merged, forked, reloaded
        let mut m = w.merged();
        if !verify_doc(cx, "merged", &mut m, &ledger, rng, &hs, &log) {
            return;
        }
        let mut f = m.fork().with_actor(actor(80));
        if !verify_doc(cx, "fork of merged", &mut f, &ledger, rng, &hs, &log) {
            return;
        }
        {
            // a new actor that sorts before the existing ones opens its first transaction and abandons
            // it: an actor index is inserted and removed again; retrieval (get_changes(have) walks
            // cached clocks) must be unaffected
            use automerge::transaction::Transactable;
            let mut p = m.clone().with_actor(actor(7));
            let _ = p.put(automerge::ROOT, "abandoned", 1);
            p.rollback();
            cx.count("actor_inserted_and_removed");
            if !verify_doc(cx, "merged after an abandoned first transaction of a new first-sorting actor", &mut p, &ledger, rng, &hs, &log) {
                return;
            }
        }
        for (name, bytes) in [("load(save)", m.save()), ("load(save_nocompress)", m.save_nocompress())] {
            match load_enc(&bytes, enc) {
                Ok(mut l) => {
                    cx.count("docs_after_reload");
                    if !verify_doc(cx, name, &mut l, &ledger, rng, &hs, &log) {
                        return;
                    }
                }
                Err(e) => {
                    cx.violation("load-of-save-failed", format!("{name} failed: {e}"), json!({"log": tail(&log, 30)}));
                    return;
                }
            }
        }
        cx.sample(|| json!({"encoding": enc_name(enc), "replicas": n, "changes": ledger.len(), "program_tail": tail(&log, 8)}));
    }
}
