//! NET-based checks: C20 (two peers converge and go quiet), C21 (multi-peer across
//! disconnects), C22 (read-only sync).
use amv::fw::*;
use amv::gen::{Profile, World};
use amv::net::*;
use amv::obs::{enc_name, fingerprint, observe_opts};
use amv::util::*;
use automerge::{AutoCommit, ChangeHash, ReadDoc};
use serde_json::json;
use std::collections::BTreeSet;

pub struct C20;
pub struct C21;
pub struct C22;

const FP_RATES: [u32; 5] = [0, 0, 10, 102, 512]; // out of 1024

fn set_fp(seed: u64, rate: u32) {
    automerge::verif_hooks::set_bloom_false_positives(seed, rate);
}

/// starting histories: `n` replicas with a random shared prefix and divergent suffixes
fn start_world(rng: &mut Rng, n: usize, steps: usize) -> World {
    let enc = enc_for(rng);
    let mut w = World::new(rng, n, enc, Profile::contention());
    w.run(rng, steps);
    w
}

fn hashes_of(d: &mut AutoCommit) -> BTreeSet<ChangeHash> {
    d.get_changes(&[]).iter().map(|c| c.hash()).collect()
}

/// all members of `group` must hold the same heads and show the same state
fn converged(net: &mut Net, group: &[usize]) -> Option<String> {
    let first = group[0];
    let h0 = heads_sorted(&mut net.docs[first]);
    let f0 = observe_opts(&net.docs[first], None, false).snap;
    for &p in &group[1..] {
        let h = heads_sorted(&mut net.docs[p]);
        if h != h0 {
            return Some(format!("P{first} has heads {:?} but P{p} has {:?}", hash_hex(&h0), hash_hex(&h)));
        }
        let f = observe_opts(&net.docs[p], None, false).snap;
        if let Some(d) = amv::obs::first_diff(&f0, &f) {
            if net.verbose {
                for q in [first, p] {
                    let mut c = net.docs[q].clone();
                    let re = load_enc(&c.save(), c.text_encoding()).map(|l| observe_opts(&l, None, false).snap);
                    let same = re.as_ref().map(|s| *s == observe_opts(&c, None, false).snap).unwrap_or(false);
                    eprintln!("  P{q}: actor {} reload-equal={same} invariants={:?}", c.get_actor().to_hex_string(), c.verif_check_invariants());
                    for (id, t) in net.gs.objs.iter().filter(|(_, t)| *t == automerge::ObjType::Text).take(2) {
                        let _ = t;
                        let heads = c.get_heads();
                        eprintln!("     text {}: {:?}", amv::obs::exid_str(id), c.text(id));
                        eprintln!("     marks()    = {:?}", c.marks(id).map(|v| v.iter().map(|m| format!("{}..{} {}={}", m.start, m.end, m.name(), m.value())).collect::<Vec<_>>()));
                        eprintln!("     marks_at() = {:?}", c.marks_at(id, &heads).map(|v| v.iter().map(|m| format!("{}..{} {}={}", m.start, m.end, m.name(), m.value())).collect::<Vec<_>>()));
                        if let Ok(l) = load_enc(&c.save(), c.text_encoding()) {
                            eprintln!("     reloaded   = {:?}", l.marks(id).map(|v| v.iter().map(|m| format!("{}..{} {}={}", m.start, m.end, m.name(), m.value())).collect::<Vec<_>>()));
                        }
                    }
                }
            }
            return Some(format!("P{first} and P{p} have equal heads but different state {d}"));
        }
    }
    None
}

fn still_quiet(net: &mut Net) -> Option<String> {
    for li in 0..net.links.len() {
        if !net.links[li].up {
            continue;
        }
        let (a, b) = (net.links[li].a, net.links[li].b);
        for p in [a, b] {
            if net.gen(li, p) {
                return Some(format!("after quiescence P{p} generates another message on L{li}"));
            }
        }
    }
    None
}

fn detail(net: &Net, extra: serde_json::Value) -> serde_json::Value {
    json!({"schedule_tail": tail(&net.log, 60), "extra": extra, "old_peer_ends": net.links.iter().map(|l| l.old_peer).collect::<Vec<_>>(), "read_only_ends": net.links.iter().map(|l| l.ro).collect::<Vec<_>>()})
}

fn common_safety(cx: &mut Ctx, net: &Net) -> bool {
    if let Some(e) = net.receive_errors.first() {
        cx.violation("receive-error", format!("receiving a message the other peer generated failed: {e}"), detail(net, json!({})));
        return false;
    }
    if let Some(e) = &net.wire_mismatch {
        cx.count("wire_mismatch_left_to_C19");
        let _ = e;
    }
    true
}

fn account(cx: &mut Ctx, net: &Net) {
    cx.add("messages_sent", net.msgs_sent);
    cx.add("messages_delivered", net.msgs_delivered);
    cx.add("messages_lost_at_disconnect", net.msgs_lost);
    cx.add("messages_with_changes", net.msgs_with_changes);
    cx.add("v2_messages", net.v2_msgs);
    cx.add("edits_between_generate_and_delivery", net.edits_between_gen_and_delivery);
    cx.add("drops_with_messages_in_flight", net.drops_with_in_flight);
    cx.add("reconnects_fresh_state", net.reconnect_fresh);
    cx.add("reconnects_persisted_state", net.reconnect_persisted);
    cx.add("read_only_toggles", net.toggles);
    cx.add("read_only_toggles_with_messages_in_flight", net.toggles_with_in_flight);
    cx.add("receives_while_read_only", net.readonly_receives);
}

// ---------------------------------------------------------------------------
// C20
// ---------------------------------------------------------------------------
impl Check for C20 {
    fn id(&self) -> &'static str {
        "C20"
    }
    fn cases(&self, tier: Tier) -> u64 {
        tier.pick(2000, 60_000)
    }
    fn budget_s(&self, tier: Tier) -> u64 {
        tier.pick(40, 600)
    }
    fn rule(&self) -> String {
        "case = two peers with a random shared prefix and divergent suffixes (0–60 quick / 0–250 thorough changes; one peer may be empty), one reliable in-order link, every message passed through Message::encode → decode; a random interleaving of generate(p), deliver(p) and local edit+commit steps (20–80 actions), with Bloom false positives injected through hook H2 at rate 0, 1 %, 10 % or 50 % (deterministic per hash) and, in a quarter of the cases, one peer emulating an implementation that predates the flags section; then a quiescence phase (no more edits): rounds of drain/generate/deliver, in half of the cases with crossing messages (both ends generate before either receives). Violation = a generated message fails to be received; more than R = 20 + 2·(changes in the system) rounds without both generates returning None; heads or OBS state differ at quiescence; a further generate returns Some. Non-trivial = ≥1 injected false positive or ≥1 edit between a generate and its delivery; distinct by schedule hash.".into()
    }
    fn required_counters(&self) -> Vec<&'static str> {
        vec!["sessions", "sessions_converged", "messages_delivered", "messages_with_changes", "bloom_false_positives_injected", "edits_between_generate_and_delivery", "sessions_with_old_peer", "sessions_with_crossing_quiescence", "v2_messages"]
    }
    fn run_case(&self, cx: &mut Ctx, case: u64, rng: &mut Rng) {
        set_fp(0, 0);
        let steps = rng.range(0, cx.tier.pick(60, 250));
        let mut w = start_world(rng, 2, steps);
        if rng.chance(15) {
            // one side starts empty (fresh document, other actor)
            w.docs[1] = fresh(w.enc, 40);
        }
        let rate = FP_RATES[rng.below(FP_RATES.len())];
        let fp0 = automerge::verif_hooks::bloom_false_positives_injected();
        set_fp(cx.seed ^ case, rate);
        let docs = std::mem::take(&mut w.docs);
        let mut net = Net::new(docs, w.gs.clone(), &[(0, 1)]);
        net.verbose = cx.verbose;
        if rng.chance(25) {
            let e = rng.below(2);
            net.links[0].old_peer[e] = true;
            cx.count("sessions_with_old_peer");
        }
        cx.count("sessions");
        let actions = rng.range(20, 80);
        for _ in 0..actions {
            let p = rng.below(2);
            match rng.below(100) {
                0..=34 => {
                    net.gen(0, p);
                }
                35..=74 => {
                    net.deliver(0, p);
                }
                _ => {
                    let n = rng.range(1, 4);
                    net.edit(p, rng, n);
                }
            }
            if !common_safety(cx, &net) {
                set_fp(0, 0);
                return;
            }
        }
        let total = net.total_changes();
        let bound = 20 + 2 * total;
        net.crossing = rng.chance(50);
        if net.crossing {
            cx.count("sessions_with_crossing_quiescence");
        }
        let rounds = net.run_to_quiescence(bound);
        let injected = automerge::verif_hooks::bloom_false_positives_injected() - fp0;
        set_fp(0, 0);
        cx.add("bloom_false_positives_injected", injected);
        account(cx, &net);
        if !common_safety(cx, &net) {
            return;
        }
        let Some(rounds) = rounds else {
            cx.violation("not-quiet-within-bound", format!("two peers with {total} changes did not go quiet within {bound} rounds after edits stopped (false-positive rate {rate}/1024)"), detail(&net, json!({"fp_rate": rate})));
            return;
        };
        cx.max("rounds_to_quiescence", rounds as u64);
        if let Some(d) = converged(&mut net, &[0, 1]) {
            cx.violation("quiet-but-not-converged", format!("both peers returned None from generate_sync_message but {d} (false-positive rate {rate}/1024)"), detail(&net, json!({"fp_rate": rate})));
            return;
        }
        if let Some(d) = still_quiet(&mut net) {
            cx.violation("not-quiet-after-quiescence", d, detail(&net, json!({"fp_rate": rate})));
            return;
        }
        cx.count("sessions_converged");
        if injected > 0 || net.edits_between_gen_and_delivery > 0 {
            cx.nontrivial(net.sched_hash);
        }
        let fpn = fingerprint(&observe_opts(&net.docs[0], None, false).snap);
        cx.sample(|| json!({"encoding": enc_name(w.enc), "changes": total, "fp_rate_per_1024": rate, "false_positives_injected": injected, "rounds_to_quiescence": rounds, "messages": net.msgs_sent, "final_state_fingerprint": format!("{fpn:016x}"), "schedule_tail": tail(&net.log, 12)}));
    }
}

// ---------------------------------------------------------------------------
// C21
// ---------------------------------------------------------------------------
fn topology(rng: &mut Rng, n: usize) -> (Vec<(usize, usize)>, &'static str) {
    match rng.below(4) {
        0 => ((0..n - 1).map(|i| (i, i + 1)).collect(), "line"),
        1 => ((1..n).map(|i| (0, i)).collect(), "star"),
        2 => ((0..n).map(|i| (i, (i + 1) % n)).collect(), "ring"),
        _ => {
            let mut v = vec![];
            for i in 0..n {
                for j in i + 1..n {
                    v.push((i, j));
                }
            }
            (v, "complete")
        }
    }
}

impl Check for C21 {
    fn id(&self) -> &'static str {
        "C21"
    }
    fn cases(&self, tier: Tier) -> u64 {
        tier.pick(1500, 40_000)
    }
    fn budget_s(&self, tier: Tier) -> u64 {
        tier.pick(45, 600)
    }
    fn rule(&self) -> String {
        "case = 3–5 (thorough: 3–6) peers with divergent histories on a line, star, ring or complete topology; a random schedule (40–160 actions) of generate, deliver, edit+commit, drop_link (everything queued on the link in both directions is lost), crash (a peer restarts from an older copy of its own document under a new actor id while its sync states and its peers' are the persisted ones, so they name heads it no longer has) and reconnect (each end independently restarts with State::new() or with State::decode(State::encode(old state))), Bloom false positives injected at rate 0/1 %/10 % through hook H2; at the end every link that is down is reconnected or left down at random, edits stop, and the links that are up run rounds of drain/generate/deliver. Violation = a generated message fails to be received; State::decode(State::encode()) fails; a connected component does not go quiet within R = peers·(20 + 2·changes) rounds; peers of one connected component end with different heads or different OBS state; a further generate returns Some. Non-trivial = ≥1 drop with messages in flight and ≥1 reconnect; distinct by schedule hash.".into()
    }
    fn required_counters(&self) -> Vec<&'static str> {
        vec!["sessions", "sessions_converged", "drops_with_messages_in_flight", "messages_lost_at_disconnect", "reconnects_fresh_state", "reconnects_persisted_state", "messages_with_changes", "components_checked", "crash_restores"]
    }
    fn run_case(&self, cx: &mut Ctx, case: u64, rng: &mut Rng) {
        set_fp(0, 0);
        let n = rng.range(3, cx.tier.pick(5, 6));
        let steps = rng.range(5, cx.tier.pick(60, 200));
        let mut w = start_world(rng, n, steps);
        let rate = *rng.pick(&[0u32, 0, 10, 102]);
        let fp0 = automerge::verif_hooks::bloom_false_positives_injected();
        set_fp(cx.seed ^ case.wrapping_mul(77), rate);
        let (pairs, topo) = topology(rng, n);
        let docs = std::mem::take(&mut w.docs);
        let mut net = Net::new(docs, w.gs.clone(), &pairs);
        net.verbose = cx.verbose;
        cx.count("sessions");
        cx.count(&format!("topology_{topo}"));
        let actions = rng.range(40, 160);
        // every peer starts with a remembered copy of its initial document (a crash can lose everything
        // it learned since); later copies replace it at random
        let mut snapshots: Vec<Option<AutoCommit>> = (0..n).map(|q| if rng.chance(60) { Some(net.docs[q].clone()) } else { None }).collect();
        let mut crash_actor = 0usize;
        for _ in 0..actions {
            let li = rng.below(net.links.len());
            let p = if rng.chance(50) { net.links[li].a } else { net.links[li].b };
            match rng.below(100) {
                0..=29 => {
                    net.gen(li, p);
                }
                30..=64 => {
                    net.deliver(li, p);
                }
                65..=79 => {
                    let q = rng.below(n);
                    let k = rng.range(1, 3);
                    net.edit(q, rng, k);
                }
                80..=85 => net.drop_link(li),
                86..=89 => {
                    // remember a copy of a peer's document, or crash a peer back to its remembered copy
                    let q = rng.below(n);
                    if snapshots[q].is_some() && rng.chance(50) {
                        let older = snapshots[q].take().unwrap().with_actor(amv::gen::actor(100 + crash_actor));
                        crash_actor += 1;
                        if let Err(e) = net.crash_restore(q, older) {
                            cx.violation("state-roundtrip-fails", e, detail(&net, json!({})));
                            set_fp(0, 0);
                            return;
                        }
                    } else {
                        let mut copy = net.docs[q].clone();
                        copy.commit();
                        snapshots[q] = Some(copy);
                    }
                }
                _ => {
                    let persisted = [rng.chance(50), rng.chance(50)];
                    if let Err(e) = net.reconnect(li, persisted) {
                        cx.violation("state-roundtrip-fails", e, detail(&net, json!({})));
                        set_fp(0, 0);
                        return;
                    }
                }
            }
            if !common_safety(cx, &net) {
                set_fp(0, 0);
                return;
            }
        }
        // final topology: most links come back (fresh or persisted), some stay down
        for li in 0..net.links.len() {
            if !net.links[li].up && rng.chance(80) {
                let persisted = [rng.chance(50), rng.chance(50)];
                if let Err(e) = net.reconnect(li, persisted) {
                    cx.violation("state-roundtrip-fails", e, detail(&net, json!({})));
                    set_fp(0, 0);
                    return;
                }
            }
        }
        let total = net.total_changes();
        let bound = n * (20 + 2 * total);
        net.crossing = rng.chance(50);
        let rounds = net.run_to_quiescence(bound);
        let injected = automerge::verif_hooks::bloom_false_positives_injected() - fp0;
        set_fp(0, 0);
        cx.add("bloom_false_positives_injected", injected);
        cx.add("crash_restores", net.crash_restores);
        account(cx, &net);
        if !common_safety(cx, &net) {
            return;
        }
        if rounds.is_none() && cx.verbose {
            for li in 0..net.links.len() {
                let (a, b) = (net.links[li].a, net.links[li].b);
                for (e, p) in [(0usize, a), (1usize, b)] {
                    let st = net.links[li].st[e].clone();
                    eprintln!("  L{li} end{e} (P{p}): in_flight={} have_responded={} sent_hashes={:?} shared_heads={:?} their_heads={:?} their_need={:?} last_sent_heads={:?}", st.in_flight, st.have_responded, st.sent_hashes.iter().map(|h| h.to_string()[..8].to_string()).collect::<Vec<_>>(), hash_hex(&st.shared_heads).iter().map(|h| h[..8].to_string()).collect::<Vec<_>>(), st.their_heads.as_ref().map(|h| hash_hex(h).iter().map(|h| h[..8].to_string()).collect::<Vec<_>>()), st.their_need.as_ref().map(|h| hash_hex(h).iter().map(|h| h[..8].to_string()).collect::<Vec<_>>()), hash_hex(&st.last_sent_heads).iter().map(|h| h[..8].to_string()).collect::<Vec<_>>());
                }
            }
            for p in 0..n {
                let q = queued_changes(&mut net.docs[p]);
                let heads = net.docs[p].get_heads();
                let missing = net.docs[p].get_missing_deps(&[]);
                eprintln!("  P{p}: actor {} heads {:?} queued {:?} missing {:?} applied {}", net.docs[p].get_actor().to_hex_string(), hash_hex(&heads).iter().map(|h| h[..8].to_string()).collect::<Vec<_>>(), q.iter().map(|c| format!("{}(actor {} seq {})", &c.hash().to_string()[..8], &c.actor_id().to_hex_string()[..4], c.seq())).collect::<Vec<_>>(), hash_hex(&missing).iter().map(|h| h[..8].to_string()).collect::<Vec<_>>(), net.docs[p].get_changes(&[]).len());
            }
        }
        // which fault model produced a livelock: links that still talk, and whether their ends lost data
        let mut tag = "drops-only";
        if rounds.is_none() {
            for li in 0..net.links.len() {
                if !net.links[li].up {
                    continue;
                }
                let (a, b) = (net.links[li].a, net.links[li].b);
                let talking = net.gen(li, a) | net.gen(li, b);
                if talking {
                    let ca = net.crashed.get(a).copied().unwrap_or(false);
                    let cb = net.crashed.get(b).copied().unwrap_or(false);
                    tag = match (ca, cb) {
                        (true, true) => "both-ends-lost-data",
                        (true, false) | (false, true) => if tag == "both-ends-lost-data" { tag } else { "one-end-lost-data" },
                        _ => tag,
                    };
                }
            }
        }
        let Some(rounds) = rounds else {
            cx.violation(&format!("not-quiet-within-bound|{tag}"), format!("{n} peers ({topo}) with {total} changes did not go quiet within {bound} rounds after edits and faults stopped"), detail(&net, json!({"fp_rate": rate, "topology": topo})));
            return;
        };
        cx.max("rounds_to_quiescence", rounds as u64);
        for comp in net.components() {
            cx.count("components_checked");
            if comp.len() > 1 {
                cx.count("components_with_several_peers");
                if let Some(d) = converged(&mut net, &comp) {
                    cx.violation("component-not-converged", format!("peers {comp:?} are connected ({topo}) and quiet but {d}"), detail(&net, json!({"fp_rate": rate, "topology": topo, "component": comp})));
                    return;
                }
            }
        }
        if let Some(d) = still_quiet(&mut net) {
            cx.violation("not-quiet-after-quiescence", d, detail(&net, json!({"topology": topo})));
            return;
        }
        cx.count("sessions_converged");
        if net.drops_with_in_flight > 0 && (net.reconnect_fresh + net.reconnect_persisted) > 0 {
            cx.nontrivial(net.sched_hash);
        }
        cx.sample(|| json!({"peers": n, "topology": topo, "changes": total, "fp_rate_per_1024": rate, "drops_with_in_flight": net.drops_with_in_flight, "messages_lost": net.msgs_lost, "reconnects": net.reconnect_fresh + net.reconnect_persisted, "rounds_to_quiescence": rounds, "schedule_tail": tail(&net.log, 12)}));
    }
}

// ---------------------------------------------------------------------------
// C22
// ---------------------------------------------------------------------------
impl Check for C22 {
    fn id(&self) -> &'static str {
        "C22"
    }
    fn cases(&self, tier: Tier) -> u64 {
        tier.pick(2000, 60_000)
    }
    fn budget_s(&self, tier: Tier) -> u64 {
        tier.pick(40, 600)
    }
    fn rule(&self) -> String {
        "case = two peers (thorough: sometimes three on a line) with divergent histories; either or both link ends start read-only (State::new_read_only / set_read_only) or are toggled at random points of a random schedule (30–100 actions) of generate, deliver, edit+commit and set_read_only(true|false), also with messages in flight; in a quarter of the cases the other peer emulates an implementation that predates the flags section. Monitors: (a) every receive on a read-only end is bracketed by save()+get_heads() of the receiving document, which must be byte-identical afterwards; (b) phase 1 — edits and toggles stop, the link runs to quiescence (bound R = 20 + 2·changes rounds): a read-write end whose peer is read-only must hold every change the read-only peer had; (c) phase 2 — every end is switched back to read-write and the link runs to quiescence again: all peers must share heads and OBS state, i.e. every skipped change arrived. Non-trivial = ≥1 receive while read-only that carried changes, or ≥1 toggle with a message in flight; distinct by schedule hash.".into()
    }
    fn required_counters(&self) -> Vec<&'static str> {
        vec!["sessions", "sessions_converged_after_switching_back", "receives_while_read_only", "read_only_toggles", "read_only_toggles_with_messages_in_flight", "writable_peer_got_everything_checks", "sessions_both_ends_read_only", "sessions_with_old_peer"]
    }
    fn run_case(&self, cx: &mut Ctx, _case: u64, rng: &mut Rng) {
        set_fp(0, 0);
        let n = if cx.tier == Tier::Thorough && rng.chance(25) { 3 } else { 2 };
        let steps = rng.range(3, cx.tier.pick(50, 160));
        let mut w = start_world(rng, n, steps);
        let pairs: Vec<(usize, usize)> = (0..n - 1).map(|i| (i, i + 1)).collect();
        let docs = std::mem::take(&mut w.docs);
        let mut net = Net::new(docs, w.gs.clone(), &pairs);
        net.verbose = cx.verbose;
        cx.count("sessions");
        // initial flags
        let mode = rng.below(4);
        for li in 0..net.links.len() {
            match mode {
                0 => net.set_read_only(li, 0, true),
                1 => net.set_read_only(li, 1, true),
                2 => {
                    net.set_read_only(li, 0, true);
                    net.set_read_only(li, 1, true);
                }
                _ => {}
            }
        }
        if mode == 2 {
            cx.count("sessions_both_ends_read_only");
        }
        if rng.chance(25) {
            // the emulated old peer is never the read-only one (read-only needs the flags section)
            let li = rng.below(net.links.len());
            let e = rng.below(2);
            if !net.links[li].ro[e] {
                net.links[li].old_peer[e] = true;
                cx.count("sessions_with_old_peer");
            }
        }
        // the emulated old peer forces the "empty heads" reset fallback; its findings are keyed apart
        let tag = if net.links.iter().any(|l| l.old_peer[0] || l.old_peer[1]) { "old-peer" } else { "current-peers" };
        let actions = rng.range(30, 100);
        for _ in 0..actions {
            let li = rng.below(net.links.len());
            let e = rng.below(2);
            let p = if e == 0 { net.links[li].a } else { net.links[li].b };
            match rng.below(100) {
                0..=29 => {
                    net.gen(li, p);
                }
                30..=64 => {
                    net.deliver(li, p);
                }
                65..=84 => {
                    let q = rng.below(n);
                    let k = rng.range(1, 3);
                    net.edit(q, rng, k);
                }
                _ => {
                    if !net.links[li].old_peer[e] {
                        let v = !net.links[li].ro[e];
                        net.set_read_only(li, e, v);
                    }
                }
            }
            if !common_safety(cx, &net) {
                return;
            }
            if let Some(d) = net.readonly_doc_changed.clone() {
                cx.violation("read-only-peer-changed", d, detail(&net, json!({})));
                return;
            }
        }
        // phase 1: quiescence with the flags as they are
        let total = net.total_changes();
        let bound = n * (20 + 2 * total);
        let before: Vec<BTreeSet<ChangeHash>> = (0..n).map(|p| hashes_of(&mut net.docs[p])).collect();
        let r1 = net.run_to_quiescence(bound);
        if !common_safety(cx, &net) {
            return;
        }
        if let Some(d) = net.readonly_doc_changed.clone() {
            account(cx, &net);
            cx.violation("read-only-peer-changed", d, detail(&net, json!({})));
            return;
        }
        let Some(r1) = r1 else {
            account(cx, &net);
            cx.violation(&format!("not-quiet-within-bound|phase1|{tag}"), format!("with read-only flags set the peers did not go quiet within {bound} rounds"), detail(&net, json!({"flags": net.links.iter().map(|l| l.ro).collect::<Vec<_>>() })));
            return;
        };
        cx.max("rounds_to_quiescence", r1 as u64);
        for li in 0..net.links.len() {
            let l = &net.links[li];
            let (a, b, ro) = (l.a, l.b, l.ro);
            for (rw_end, ro_end, rw_p, ro_p) in [(0usize, 1usize, a, b), (1, 0, b, a)] {
                if !ro[rw_end] && ro[ro_end] && n == 2 {
                    cx.count("writable_peer_got_everything_checks");
                    let have = hashes_of(&mut net.docs[rw_p]);
                    let missing: Vec<String> = before[ro_p].iter().filter(|h| !have.contains(h)).map(|h| h.to_string()).collect();
                    if !missing.is_empty() {
                        if cx.verbose {
                            for e in 0..2 {
                                let st = &net.links[li].st[e];
                                eprintln!("  end{e}: read_only={} peer_read_only={} needs_reset={} in_flight={} have_responded={} sent_hashes={} shared_heads={:?} their_heads={:?} their_need={:?} last_sent_heads={:?} caps={:?}", st.read_only, st.peer_read_only, st.needs_reset, st.in_flight, st.have_responded, st.sent_hashes.len(), hash_hex(&st.shared_heads), st.their_heads.as_ref().map(|h| hash_hex(h)), st.their_need.as_ref().map(|h| hash_hex(h)), hash_hex(&st.last_sent_heads), st.their_capabilities);
                            }
                            for p in [rw_p, ro_p] {
                                let q = queued_changes(&mut net.docs[p]);
                                eprintln!("  P{p}: heads {:?} queued {:?} missing {:?}", hash_hex(&net.docs[p].get_heads()), q.iter().map(|c| c.hash().to_string()).collect::<Vec<_>>(), hash_hex(&net.docs[p].get_missing_deps(&[])));
                            }
                            eprintln!("  missing at P{rw_p}: {missing:?}");
                        }
                        account(cx, &net);
                        cx.violation(&format!("writable-peer-lacks-read-only-peers-changes|{tag}"), format!("P{ro_p} is read-only and P{rw_p} is read-write; after quiescence P{rw_p} still lacks {} of P{ro_p}'s changes", missing.len()), detail(&net, json!({"missing": missing})));
                        return;
                    }
                }
            }
        }
        // phase 2: everybody back to read-write
        for li in 0..net.links.len() {
            for e in 0..2 {
                net.set_read_only(li, e, false);
            }
        }
        let r2 = net.run_to_quiescence(bound);
        account(cx, &net);
        if !common_safety(cx, &net) {
            return;
        }
        let Some(r2) = r2 else {
            cx.violation(&format!("not-quiet-within-bound|phase2|{tag}"), format!("after switching back to read-write the peers did not go quiet within {bound} rounds"), detail(&net, json!({})));
            return;
        };
        cx.max("rounds_to_quiescence", r2 as u64);
        let all: Vec<usize> = (0..n).collect();
        if let Some(d) = converged(&mut net, &all) {
            cx.violation(&format!("skipped-changes-never-arrive|{tag}"), format!("after switching every end back to read-write and reaching quiescence, {d}"), detail(&net, json!({})));
            return;
        }
        if let Some(d) = still_quiet(&mut net) {
            cx.violation("not-quiet-after-quiescence", d, detail(&net, json!({})));
            return;
        }
        cx.count("sessions_converged_after_switching_back");
        if net.readonly_receives > 0 || net.toggles_with_in_flight > 0 {
            cx.nontrivial(net.sched_hash);
        }
        cx.sample(|| json!({"peers": n, "changes": total, "initial_mode": mode, "toggles": net.toggles, "toggles_with_in_flight": net.toggles_with_in_flight, "receives_while_read_only": net.readonly_receives, "rounds_phase1": r1, "rounds_phase2": r2, "schedule_tail": tail(&net.log, 12)}));
    }
}
