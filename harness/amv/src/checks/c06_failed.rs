//! C06 — failed calls leave the document unchanged.
use amv::fw::*;
use amv::gen::{actor, invalid_edit, random_edit, Profile, World};
use amv::obs::{enc_name, first_diff, observe_opts};
use amv::util::*;
use automerge::transaction::{CommitOptions, Transactable};
use automerge::{AutoCommit, Change, ChangeHash, ReadDoc};
use serde_json::json;
use std::collections::BTreeSet;

pub struct C06;

struct Cap {
    snap: serde_json::Value,
    heads: Vec<ChangeHash>,
    queued: BTreeSet<ChangeHash>,
    queued_changes: Vec<Change>,
    missing: BTreeSet<ChangeHash>,
    applied: usize,
}

fn capture(d: &mut AutoCommit) -> Cap {
    let q = queued_changes(d);
    Cap {
        snap: observe_opts(d, None, false).snap,
        heads: heads_sorted(d),
        queued: q.iter().map(|c| c.hash()).collect(),
        queued_changes: q,
        missing: d.get_missing_deps(&[]).into_iter().collect(),
        applied: d.get_changes(&[]).len(),
    }
}

fn unchanged(cx: &mut Ctx, kind: &str, before: &Cap, d: &mut AutoCommit, err: &str, rejected: &[ChangeHash], detail: serde_json::Value) -> bool {
    let after = capture(d);
    // queued changes that (transitively, through the queue) depend on a rejected change
    let mut doomed: BTreeSet<ChangeHash> = rejected.iter().copied().collect();
    loop {
        let more: Vec<ChangeHash> = before.queued_changes.iter().filter(|c| !doomed.contains(&c.hash()) && c.deps().iter().any(|d| doomed.contains(d))).map(|c| c.hash()).collect();
        if more.is_empty() {
            break;
        }
        doomed.extend(more);
    }
    let what = if before.heads != after.heads {
        Some(("heads", format!("heads changed from {:?} to {:?}", hash_hex(&before.heads), hash_hex(&after.heads))))
    } else if before.applied != after.applied {
        Some(("applied-set", format!("{} changes applied before, {} after", before.applied, after.applied)))
    } else if before.queued != after.queued {
        let lost: Vec<ChangeHash> = before.queued.difference(&after.queued).copied().collect();
        let gained: Vec<ChangeHash> = after.queued.difference(&before.queued).copied().collect();
        let class = if gained.is_empty() && lost.iter().all(|h| doomed.contains(h)) { "queue|descendants-of-rejected" } else { "queue|unrelated" };
        Some((class, format!("pending queue changed: lost {:?}, gained {:?}", hash_hex(&lost), hash_hex(&gained))))
    } else if before.missing != after.missing {
        Some(("missing-deps", "get_missing_deps(&[]) changed".to_string()))
    } else {
        first_diff(&before.snap, &after.snap).map(|d| ("state", format!("state changed {d}")))
    };
    if let Some((w, msg)) = what {
        cx.violation(&format!("changed-after-error|{kind}|{w}"), format!("{kind} returned Err({err}) but the document changed: {msg}"), detail);
        return false;
    }
    check_h3(cx, d, &format!("after failed {kind}"))
}

/// same continuation on both documents must give the same result
fn same_future(cx: &mut Ctx, kind: &str, a: &mut AutoCommit, b: &mut AutoCommit, gs: &amv::gen::GenState, seed: u64, extra: &[Change], detail: serde_json::Value) -> bool {
    cx.count("continuations_compared");
    let mut out = vec![];
    for d in [&mut *a, &mut *b] {
        let mut rng = Rng::new(seed);
        let mut g = gs.clone();
        for _ in 0..4 {
            random_edit(d, &mut rng, &mut g);
        }
        let h = d.commit_with(CommitOptions::default().with_time(99));
        // later deliveries (e.g. the missing dependency of queued changes)
        let r = d.apply_changes(extra.iter().cloned()).map_err(|e| e.to_string());
        out.push((h, r, heads_sorted(d), observe_opts(d, None, false).snap));
    }
    if out[0].0 != out[1].0 || out[0].1 != out[1].1 || out[0].2 != out[1].2 {
        cx.violation(&format!("later-behaviour-differs|{kind}"), format!("after a failed {kind}, the same continuation gives change {:?}/{:?}, later delivery {:?}/{:?}, heads {} vs {}", out[0].0, out[1].0, out[0].1, out[1].1, out[0].2.len(), out[1].2.len()), detail);
        return false;
    }
    if let Some(d) = first_diff(&out[0].3, &out[1].3) {
        cx.violation(&format!("later-behaviour-differs|{kind}"), format!("after a failed {kind}, the same continuation leads to different states {d}"), detail);
        return false;
    }
    true
}

fn reloadable(cx: &mut Ctx, d: &mut AutoCommit, enc: automerge::TextEncoding, when: &str, log: &[String]) -> bool {
    cx.count("reload_checks");
    let bytes = d.save();
    match catch(|| load_enc(&bytes, enc)) {
        Ok(Ok(mut l)) => {
            if let Some(diff) = docs_differ(d, &mut l) {
                cx.violation("reload-differs", format!("{when}: load(save()) differs from the document: {diff}"), json!({"log": tail(log, 30)}));
                return false;
            }
            true
        }
        Ok(Err(e)) => {
            cx.violation("cannot-reload", format!("{when}: the document's save() output does not load: {e}"), json!({"log": tail(log, 30)}));
            false
        }
        Err(p) => {
            cx.violation("cannot-reload|panic", format!("{when}: loading the document's save() output panics: {p}"), json!({"log": tail(log, 30)}));
            false
        }
    }
}

impl Check for C06 {
    fn id(&self) -> &'static str {
        "C06"
    }
    fn cases(&self, tier: Tier) -> u64 {
        tier.pick(3600, 150_000)
    }
    fn rule(&self) -> String {
        "case = a seeded multi-replica history, then one failing call on a victim replica that may hold a pending queue (related and unrelated held-back changes) and conflicts: (0) apply_changes with a change whose (actor, seq) is already applied with another hash (built by a twin replica with the same actor) alone / inside a batch with good changes; (1) load_incremental of a valid change chunk with a flipped byte, truncated, or a good chunk followed by a bad one; (2) an invalid transaction operation (unknown object, wrong key kind, out-of-range index, increment of a non-counter, mark end out of range) inside an open transaction, in a third of the cases a transaction scoped to older heads (isolate); (3) merge with a document that holds a conflicting seq. Whenever the call returns Err: heads, applied set, OBS snapshot, pending queue, missing deps, pending_ops and H3 must equal the capture before; the same continuation (4 edits + commit + later delivery of the queue's missing dependency) on the document and on a clone taken before must give the same change hash, heads and state; the document after the failed call and a reload of it must treat the next genuine change of the rejected change's actor identically; and after every case load(save()) must succeed and equal the document. Non-trivial = the failing call happened with a non-empty queue or an open transaction; distinct by (failure kind, pre-state class, error text).".into()
    }
    fn required_counters(&self) -> Vec<&'static str> {
        vec!["errors_observed_dupseq", "errors_observed_load_incremental", "errors_observed_tx_op", "failing_calls_with_nonempty_queue", "continuations_compared", "reload_checks", "scoped_transactions", "reload_differentials_after_failed_call"]
    }
    fn run_case(&self, cx: &mut Ctx, case: u64, rng: &mut Rng) {
        let enc = enc_for(rng);
        let n = rng.range(2, 3);
        let mut w = World::new(rng, n, enc, Profile::contention());
        w.verbose = cx.verbose;
        let steps = rng.range(6, cx.tier.pick(40, 120));
        w.run(rng, steps);
        let log = w.log.clone();
        let gs = w.gs.clone();
        let cont_seed = rng.next();
        let kind = case % 4;
        // victim: replica 0 (or a fresh document holding part of the history, to get a queue)
        let topo = w.topo_changes();
        let with_queue = rng.chance(60) && topo.len() >= 4;
        let mut victim: AutoCommit;
        let mut later: Vec<Change> = vec![];
        if with_queue {
            // drop one change with descendants: its descendants stay queued
            victim = fresh(enc, 41);
            let drop = rng.below(topo.len() - 1);
            let subset: Vec<Change> = topo.iter().enumerate().filter(|(i, _)| *i != drop).map(|(_, c)| c.clone()).collect();
            if victim.apply_changes(subset).is_err() {
                return;
            }
            later.push(topo[drop].clone());
        } else {
            victim = w.docs[0].fork().with_actor(actor(41));
        }
        let nonempty_queue = !queued_changes(&mut victim).is_empty();
        match kind {
            0 | 3 => {
                // duplicate (actor, seq): pick an applied change c of the victim, rebuild a twin that
                // holds c's ancestors only and let it commit a *different* change with c's actor and seq
                let applied: Vec<Change> = victim.get_changes(&[]);
                if applied.len() < 2 {
                    return;
                }
                // in half of the cases c is the LAST change of its actor here, so that the twin's
                // follow-up and the actor's genuine next change claim the same (actor, seq)
                let c = if rng.chance(50) {
                    let mut last: std::collections::BTreeMap<Vec<u8>, Change> = Default::default();
                    for x in applied.iter().skip(1) {
                        last.insert(x.actor_id().to_bytes().to_vec(), x.clone());
                    }
                    let v: Vec<Change> = last.into_values().collect();
                    if v.is_empty() { applied[rng.range(1, applied.len() - 1)].clone() } else { rng.pick(&v).clone() }
                } else {
                    applied[rng.range(1, applied.len() - 1)].clone()
                };
                let anc = amv::gen::ancestors(&w.ledger, c.deps());
                let mut twin = fresh(enc, 42);
                let anc_changes: Vec<Change> = topo.iter().filter(|x| anc.contains(&x.hash())).cloned().collect();
                if twin.apply_changes(anc_changes).is_err() {
                    return;
                }
                twin.set_actor(c.actor_id().clone());
                let _ = twin.put(automerge::ROOT, "dup", gs.counter as i64 + 7);
                let Some(fh) = twin.commit_with(CommitOptions::default().with_time(5)) else { return };
                let f = twin.get_change_by_hash(&fh).unwrap();
                if f.seq() != c.seq() || f.hash() == c.hash() {
                    cx.count("twin_not_conflicting");
                    return;
                }
                // follow-up of the twin (depends on f): a related change
                let _ = twin.put(automerge::ROOT, "dup2", 1);
                let f2 = twin.commit_with(CommitOptions::default().with_time(6)).and_then(|h| twin.get_change_by_hash(&h));
                let mut good: Vec<Change> = vec![];
                // a good, unrelated change from another replica the victim may lack
                let mut other = w.docs[n - 1].fork().with_actor(actor(43));
                let _ = other.put(automerge::ROOT, "good", 1);
                if let Some(h) = other.commit_with(CommitOptions::default().with_time(7)) {
                    if let Some(g) = other.get_change_by_hash(&h) {
                        // only usable if its deps are known to the victim
                        good.push(g);
                    }
                }
                let mut batch: Vec<Change> = vec![];
                let shape = rng.below(4);
                match shape {
                    0 => batch.push(f.clone()),
                    1 => {
                        batch.extend(good.iter().cloned());
                        batch.push(f.clone());
                    }
                    2 => {
                        batch.push(f.clone());
                        batch.extend(good.iter().cloned());
                        if let Some(f2) = &f2 {
                            batch.push(f2.clone());
                        }
                    }
                    _ => {
                        if let Some(f2) = &f2 {
                            batch.push(f2.clone());
                        }
                        batch.push(f.clone());
                    }
                }
                if let (Some(f2), true) = (&f2, rng.chance(50)) {
                    // the follow-up of the conflicting branch arrives first and is held back
                    let _ = victim.apply_changes([f2.clone()]);
                    cx.count("conflicting_branch_descendant_prequeued");
                }
                let mut before_clone = victim.clone();
                let before = capture(&mut victim);
                let r = if kind == 0 {
                    victim.apply_changes(batch.clone()).map_err(|e| e.to_string())
                } else {
                    victim.merge(&mut twin).map(|_| ()).map_err(|e| e.to_string())
                };
                let kname = if kind == 0 { "apply_changes(duplicate actor/seq)" } else { "merge(document with duplicate actor/seq)" };
                match r {
                    Err(e) => {
                        cx.count("errors_observed_dupseq");
                        if nonempty_queue {
                            cx.count("failing_calls_with_nonempty_queue");
                            cx.nontrivial(fnv(format!("{kind}{shape}q{e}").as_bytes()) ^ before.queued.len() as u64);
                        }
                        let detail = json!({"kind": kname, "batch_shape": shape, "queue_before": before.queued.len(), "conflicting": {"actor": c.actor_id().to_hex_string(), "seq": c.seq()}, "log": tail(&log, 25)});
                        // (a reported difference — possibly a known finding — does not end the case: the
                        // reload differential below looks at something else)
                        let same = unchanged(cx, kname, &before, &mut victim, &e, &[f.hash()], detail.clone());
                        if same && !same_future(cx, kname, &mut victim, &mut before_clone, &gs, cont_seed, &later, detail.clone()) {
                            return;
                        }
                        // the document after the failed call vs a reload of it: both must treat a later,
                        // valid change of the rejected change's actor the same way (the next seq of that
                        // actor, built on top of the genuine change c) — internal bookkeeping left behind
                        // by the failed call would make them differ
                        if let Ok(mut reload) = load_enc(&victim.save(), enc) {
                            let mut author = fresh(enc, 47);
                            let have: Vec<Change> = victim.get_changes(&[]);
                            if author.apply_changes(have).is_ok() {
                                author.set_actor(c.actor_id().clone());
                                let _ = author.put(automerge::ROOT, "genuine-next", 1);
                                if let Some(next) = author.commit_with(CommitOptions::default().with_time(11)).and_then(|h| author.get_change_by_hash(&h)) {
                                    cx.count("reload_differentials_after_failed_call");
                                    let r1 = victim.clone().apply_changes([next.clone()]).map_err(|e| e.to_string());
                                    let r2 = reload.apply_changes([next.clone()]).map_err(|e| e.to_string());
                                    if r1 != r2 {
                                        cx.violation(&format!("later-behaviour-differs|{kname}|vs-reload"), format!("after a failed {kname}, a later valid change of actor {} (seq {}) is handled differently by the document ({r1:?}) and by load(save()) of it ({r2:?})", next.actor_id().to_hex_string(), next.seq()), detail);
                                        return;
                                    }
                                }
                            }
                        }
                    }
                    Ok(()) => {
                        cx.count("dupseq_accepted_or_discarded");
                        // accepted/discarded silently: C38 judges uniqueness; here only reloadability
                    }
                }
            }
            1 => {
                // corrupted incremental data
                let src = if !later.is_empty() && rng.chance(50) { later[0].clone() } else {
                    let mut other = w.docs[n - 1].fork().with_actor(actor(44));
                    let _ = other.put(automerge::ROOT, "inc", 5);
                    match other.commit_with(CommitOptions::default().with_time(8)).and_then(|h| other.get_change_by_hash(&h)) {
                        Some(c) => c,
                        None => return,
                    }
                };
                let good = src.raw_bytes().to_vec();
                let mut bad = good.clone();
                let how = rng.below(4);
                match how {
                    0 => {
                        let i = rng.range(8, bad.len() - 1);
                        bad[i] ^= 1 << rng.below(8);
                    }
                    1 => bad.truncate(rng.range(1, bad.len() - 1)),
                    2 => {
                        // a good chunk (another valid change) followed by a corrupted one
                        let mut other = w.docs[0].fork().with_actor(actor(45));
                        let _ = other.put(automerge::ROOT, "pre", 1);
                        if let Some(c) = other.commit_with(CommitOptions::default().with_time(9)).and_then(|h| other.get_change_by_hash(&h)) {
                            let i = rng.range(8, bad.len() - 1);
                            bad[i] ^= 0x10;
                            let mut cat = c.raw_bytes().to_vec();
                            cat.extend_from_slice(&bad);
                            bad = cat;
                        }
                    }
                    _ => {
                        let i = rng.below(4);
                        bad[i] ^= 0xff; // break the magic
                    }
                }
                if rng.chance(40) {
                    // an empty document takes the load() path, where bad first chunks are errors
                    victim = fresh(enc, 46);
                    later.clear();
                }
                let mut before_clone = victim.clone();
                let before = capture(&mut victim);
                let valid_chunk_hashes: BTreeSet<ChangeHash> = {
                    let (chunks, _) = amv::chunks::parse_chunks(&bad);
                    chunks.iter().filter(|c| amv::chunks::chunk_hash(&bad, c)[..4] == bad[c.start + 4..c.start + 8]).map(|c| ChangeHash(amv::chunks::chunk_hash(&bad, c))).collect()
                };
                match victim.load_incremental(&bad) {
                    Err(e) => {
                        cx.count("errors_observed_load_incremental");
                        if nonempty_queue {
                            cx.count("failing_calls_with_nonempty_queue");
                            cx.nontrivial(fnv(format!("li{how}").as_bytes()) ^ fnv(&bad));
                        }
                        let detail = json!({"kind": "load_incremental(bad bytes)", "corruption": how, "bytes": bad.len(), "queue_before": before.queued.len(), "log": tail(&log, 25)});
                        if !unchanged(cx, &format!("load_incremental(corruption {how})"), &before, &mut victim, &e.to_string(), &[], detail.clone()) {
                            return;
                        }
                        if !same_future(cx, "load_incremental", &mut victim, &mut before_clone, &gs, cont_seed, &later, detail) {
                            return;
                        }
                    }
                    Ok(_) => {
                        // tolerated partial load: only chunks that are complete and checksum-valid may have had an effect
                        cx.count("corrupt_incremental_tolerated");
                        let now: BTreeSet<ChangeHash> = victim.get_changes(&[]).iter().map(|c| c.hash()).chain(queued_changes(&mut victim).iter().map(|c| c.hash())).collect();
                        let was: BTreeSet<ChangeHash> = before_clone.get_changes(&[]).iter().map(|c| c.hash()).chain(before.queued.iter().copied()).collect();
                        let new: Vec<ChangeHash> = now.difference(&was).copied().collect();
                        if new.iter().any(|h| !valid_chunk_hashes.contains(h)) {
                            cx.violation("corrupt-chunk-had-effect", format!("load_incremental of corrupted bytes returned Ok and added changes {:?} that are not complete, checksum-valid chunks of the input", hash_hex(&new)), json!({"corruption": how, "log": tail(&log, 20)}));
                            return;
                        }
                    }
                }
            }
            _ => {
                // invalid transaction operations inside an open transaction; in a third of the cases the
                // transaction is scoped to older heads (isolate), where "in range" means in range of
                // the state at those heads
                let mut g = gs.clone();
                g.profile.extreme_indexes = false;
                let known: BTreeSet<ChangeHash> = victim.get_changes(&[]).iter().map(|c| c.hash()).collect();
                let older: Vec<Vec<ChangeHash>> = w.head_sets.iter().filter(|h| !h.is_empty() && h.iter().all(|x| known.contains(x))).cloned().collect();
                if !older.is_empty() && rng.chance(35) {
                    victim.commit();
                    let h = rng.pick(&older).clone();
                    victim.isolate(&h);
                    cx.count("scoped_transactions");
                }
                for _ in 0..rng.range(1, 4) {
                    random_edit(&mut victim, rng, &mut g);
                }
                for _ in 0..rng.range(1, 5) {
                    let pend = victim.pending_ops();
                    let snap = observe_opts(&victim, None, false).snap;
                    let e = invalid_edit(&mut victim, rng, &mut g);
                    if let Some(err) = &e.err {
                        cx.count("errors_observed_tx_op");
                        cx.nontrivial(fnv(format!("tx{}{}", e.kind, pend > 0).as_bytes()) ^ fnv(serde_json::to_string(&snap).unwrap_or_default().as_bytes()));
                        let after = observe_opts(&victim, None, false).snap;
                        if victim.pending_ops() != pend {
                            cx.violation(&format!("changed-after-error|tx-op|pending_ops|{}", e.kind), format!("{} returned Err({err}) but pending_ops went from {pend} to {}", e.desc, victim.pending_ops()), json!({"log": tail(&log, 20)}));
                            return;
                        }
                        if let Some(d) = first_diff(&snap, &after) {
                            cx.violation(&format!("changed-after-error|tx-op|state|{}", e.kind), format!("{} returned Err({err}) but the visible state changed {d}", e.desc), json!({"log": tail(&log, 20)}));
                            return;
                        }
                    } else {
                        cx.count("invalid_call_accepted_left_to_C03");
                    }
                    if rng.chance(50) {
                        random_edit(&mut victim, rng, &mut g);
                    }
                }
                victim.commit();
                victim.integrate();
                if !check_h3(cx, &victim, "after transaction with rejected ops") {
                    return;
                }
            }
        }
        if !reloadable(cx, &mut victim, enc, "after the case", &log) {
            return;
        }
        cx.sample(|| json!({"kind": kind, "encoding": enc_name(enc), "victim_had_queue": nonempty_queue, "program_tail": tail(&log, 6)}));
    }
}
