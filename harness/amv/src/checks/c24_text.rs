//! C24 — text indexes are consistent in every text encoding.
use super::c03_seq::drive;
use amv::fw::*;
use amv::gen::{actor, GenState, Profile, World};
use amv::obs::{enc_name, enc_width, exid_str, observe};
use amv::util::*;
use automerge::{AutoCommit, ChangeHash, ObjId, ObjType, ReadDoc, ScalarValue, TextEncoding, Value};
use serde_json::json;

pub struct C24;

fn check_text(cx: &mut Ctx, label: &str, d: &AutoCommit, t: &ObjId, enc: TextEncoding, log: &[String]) -> bool {
    check_text_at(cx, label, d, t, enc, log, None)
}

/// the same walk through the `*_at(heads)` forms of the reads
fn check_text_at(cx: &mut Ctx, label: &str, d: &AutoCommit, t: &ObjId, enc: TextEncoding, log: &[String], heads: Option<&[ChangeHash]>) -> bool {
    if let Some(h) = heads {
        return check_text_hist(cx, label, d, t, enc, log, h);
    }
    let text = match d.text(t) {
        Ok(s) => s,
        Err(e) => {
            cx.violation("text-failed", format!("{label}: text() failed: {e}"), json!({}));
            return false;
        }
    };
    let len = d.length(t);
    cx.count("texts_checked");
    let detail = || json!({"doc": label, "text": text, "encoding": enc_name(enc), "obj": exid_str(t), "log": tail(log, 20)});
    let w = enc_width(enc, &text);
    if w != len {
        cx.violation(&format!("length-not-width|{}", enc_name(enc)), format!("{label}: length() = {len} but the width of text() {text:?} in {} units is {w}", enc_name(enc)), detail());
        return false;
    }
    // walk the elements by index; every index inside an element resolves to that element
    let mut at = 0usize;
    let mut cat = String::new();
    while at < len {
        let (piece, id) = match d.get(t, at) {
            Ok(Some((Value::Scalar(s), id))) => match s.as_ref() {
                ScalarValue::Str(s) => (s.to_string(), id),
                _ => ("\u{fffc}".to_string(), id),
            },
            Ok(Some((Value::Object(_), id))) => {
                cx.count("blocks_seen");
                ("\u{fffc}".to_string(), id)
            }
            other => {
                cx.violation("get-in-range-empty", format!("{label}: get(text, {at}) with {at} < length {len} returned {other:?}"), detail());
                return false;
            }
        };
        let pw = enc_width(enc, &piece);
        if pw == 0 {
            cx.violation("zero-width-element", format!("{label}: element at {at} has zero width"), detail());
            return false;
        }
        if pw > 1 {
            cx.count("multi_unit_elements");
            // units strictly inside the element: only "no other element's data" is judged
            for j in 1..pw {
                cx.count("mid_element_indexes_probed");
                if let Ok(Some((_, id2))) = d.get(t, at + j) {
                    if id2 != id {
                        // the documentation does not pin this; count it, do not judge
                        cx.count("mid_element_index_resolved_elsewhere_not_judged");
                    }
                }
            }
        }
        // cursor round trip at the aligned index
        match d.get_cursor(t, at, None) {
            Ok(c) => match d.get_cursor_position(t, &c, None) {
                Ok(p) if p == at => cx.count("cursor_roundtrips"),
                other => {
                    cx.violation(&format!("cursor-roundtrip|{}", enc_name(enc)), format!("{label}: get_cursor_position(get_cursor({at})) = {other:?}"), detail());
                    return false;
                }
            },
            Err(e) => {
                cx.violation("get-cursor-failed", format!("{label}: get_cursor(text, {at}) failed: {e}"), detail());
                return false;
            }
        }
        cat.push_str(&piece);
        at += pw;
    }
    if cat != text || at != len {
        cx.violation("elements-do-not-concatenate", format!("{label}: walking get(i) by widths gives {cat:?} (ends at {at}), text() is {text:?} (length {len})"), detail());
        return false;
    }
    if d.get(t, len).map(|x| x.is_some()).unwrap_or(false) {
        cx.violation("get-beyond-length", format!("{label}: get(text, length) returns a value"), detail());
        return false;
    }
    true
}

fn check_text_hist(cx: &mut Ctx, label: &str, d: &AutoCommit, t: &ObjId, enc: TextEncoding, log: &[String], h: &[ChangeHash]) -> bool {
    let Ok(text) = d.text_at(t, h) else { return true }; // the object may not exist at these heads
    if d.object_type(t).ok() != Some(ObjType::Text) {
        return true;
    }
    let len = d.length_at(t, h);
    cx.count("historical_texts_checked");
    let detail = || json!({"doc": label, "text_at": text, "encoding": enc_name(enc), "obj": exid_str(t), "heads": hash_hex(h), "log": tail(log, 20)});
    let w = enc_width(enc, &text);
    if w != len {
        cx.violation(&format!("historical|length-not-width|{}", enc_name(enc)), format!("{label}: length_at(heads) = {len} but the width of text_at(heads) {text:?} in {} units is {w}", enc_name(enc)), detail());
        return false;
    }
    let mut at = 0usize;
    let mut cat = String::new();
    while at < len {
        let piece = match d.get_at(t, at, h) {
            Ok(Some((Value::Scalar(s), _))) => match s.as_ref() {
                ScalarValue::Str(s) => s.to_string(),
                _ => "\u{fffc}".to_string(),
            },
            Ok(Some((Value::Object(_), _))) => "\u{fffc}".to_string(),
            other => {
                cx.violation("historical|get-in-range-empty", format!("{label}: get_at(text, {at}, heads) with {at} < length_at {len} returned {other:?}"), detail());
                return false;
            }
        };
        let pw = enc_width(enc, &piece).max(1);
        match d.get_cursor(t, at, Some(h)) {
            Ok(c) => match d.get_cursor_position(t, &c, Some(h)) {
                Ok(p) if p == at => cx.count("historical_cursor_roundtrips"),
                other => {
                    cx.violation(&format!("historical|cursor-roundtrip|{}", enc_name(enc)), format!("{label}: get_cursor_position(get_cursor({at}, heads), heads) = {other:?}"), detail());
                    return false;
                }
            },
            Err(e) => {
                cx.violation("historical|get-cursor-failed", format!("{label}: get_cursor(text, {at}, heads) failed: {e}"), detail());
                return false;
            }
        }
        cat.push_str(&piece);
        at += pw;
    }
    if cat != text || at != len {
        cx.violation("historical|elements-do-not-concatenate", format!("{label}: walking get_at(i) by widths gives {cat:?} (ends at {at}), text_at() is {text:?} (length_at {len})"), detail());
        return false;
    }
    // spans_at concatenate to text_at (blocks as U+FFFC)
    if let Ok(spans) = d.spans_at(t, h) {
        let mut s = String::new();
        for sp in spans {
            match sp {
                automerge::iter::Span::Text { text, .. } => s.push_str(&text),
                automerge::iter::Span::Block(_) => s.push('\u{fffc}'),
            }
        }
        if s != text {
            cx.violation("historical|spans-do-not-concatenate", format!("{label}: spans_at(heads) concatenate to {s:?} but text_at(heads) is {text:?}"), detail());
            return false;
        }
    }
    // the End cursor resolves to the historical length
    if let Ok(c) = d.get_cursor(t, automerge::CursorPosition::End, Some(h)) {
        match d.get_cursor_position(t, &c, Some(h)) {
            Ok(p) if p == len => {}
            other => {
                cx.violation("historical|end-cursor", format!("{label}: the End cursor at heads resolves to {other:?}, length_at is {len}"), detail());
                return false;
            }
        }
    }
    true
}

impl Check for C24 {
    fn id(&self) -> &'static str {
        "C24"
    }
    fn cases(&self, tier: Tier) -> u64 {
        tier.pick(1600, 100_000)
    }
    fn rule(&self) -> String {
        "case = for one of the four text encodings (case index mod 4), a seeded multi-replica history of text edits (ASCII, accents, CJK, emoji, combining sequences, ZWJ families, flags, skin-tone modifiers, block markers, marks, concurrent inserts at equal positions, deletes, update_text) followed by merges; on every replica, the merged document and its reload: length() = width of text() in the encoding (the harness computes widths itself), walking get(i) by element widths reproduces text(), get_cursor/get_cursor_position round-trips at every element boundary, and the OBS deep reads (spans concatenate to the text with blocks as U+FFFC, marks()/get_marks()/span marks use the same unit positions) are consistent; the same walk is repeated through the *_at(heads) forms (length_at = width of text_at, get_at by widths, cursors at heads, spans_at concatenation, End cursor = length_at) at up to 4 (thorough 8) historical head sets of the merged document; half of the cases also use element-level calls on text (put/insert/delete of a string at a text index, so that concurrent overwrites leave conflicted text elements); then 5–15 model-checked calls (SEQ) are applied to the merged document so that splice_text/mark/split_block indexes are verified to be in that encoding's units. Non-trivial = the text holds a multi-unit character and a delete or a merge happened; distinct by (encoding, text, history).".into()
    }
    fn required_counters(&self) -> Vec<&'static str> {
        vec!["texts_checked", "historical_texts_checked", "historical_cursor_roundtrips", "multi_unit_elements", "cursor_roundtrips", "blocks_seen", "enc_codepoint", "enc_utf8", "enc_utf16", "enc_grapheme", "effects_compared"]
    }
    fn run_case(&self, cx: &mut Ctx, case: u64, rng: &mut Rng) {
        let enc = amv::obs::ENCODINGS[(case % 4) as usize];
        cx.count(&format!("enc_{}", enc_name(enc)));
        let n = rng.range(2, 3);
        let prof = Profile { lists: false, counters: false, nested: true, keys: 2, exotic: false, text_elem_ops: case % 8 >= 4, ..Profile::contention() };
        let mut w = World::new(rng, n, enc, prof);
        w.verbose = cx.verbose;
        // bias: most edits go to text objects (the registry starts with the shared text)
        w.run(rng, rng.clone().range(10, cx.tier.pick(60, 160)));
        let log = w.log.clone();
        let mut docs: Vec<(String, AutoCommit)> = w.docs.iter().enumerate().map(|(i, d)| (format!("replica {i}"), d.clone())).collect();
        let mut m = w.merged();
        match load_enc(&m.save(), enc) {
            Ok(l) => docs.push(("reload of merged".into(), l)),
            Err(e) => {
                cx.violation("load-of-save-failed", format!("load(save()) failed: {e}"), json!({}));
                return;
            }
        }
        docs.push(("merged".into(), m.clone()));
        let mut multi = false;
        for (label, d) in docs.iter_mut() {
            d.commit();
            let o = observe(d, None);
            if let Some(e) = o.errors.iter().find(|e| !e.starts_with("[marks]") || true) {
                // all read-consistency errors on text objects belong here (mark positions included)
                let sig = if e.starts_with("[marks]") { "mark-positions-inconsistent" } else { "read-inconsistency" };
                cx.violation(&format!("{sig}|{}", enc_name(enc)), format!("{label}: {e}"), json!({"errors": o.errors, "encoding": enc_name(enc), "log": tail(&log, 25)}));
                return;
            }
            if o.stats.multi_unit_chars > 0 {
                multi = true;
            }
            for (id, typ) in &o.objects {
                if *typ == ObjType::Text && !check_text(cx, label, d, id, enc, &log) {
                    return;
                }
            }
        }
        // the same reads at historical heads (clock-scoped paths), on the merged document
        {
            let mut sets = w.head_sets.clone();
            rng.shuffle(&mut sets);
            sets.truncate(cx.tier.pick(4, 8));
            let known: std::collections::BTreeSet<ChangeHash> = m.get_changes(&[]).iter().map(|c| c.hash()).collect();
            let texts: Vec<ObjId> = w.gs.objs.iter().filter(|(_, t)| *t == ObjType::Text).map(|(i, _)| i.clone()).collect();
            for h in sets.iter().filter(|h| h.iter().all(|x| known.contains(x))) {
                for t in &texts {
                    if !check_text_at(cx, "merged (historical)", &m, t, enc, &log, Some(h)) {
                        return;
                    }
                }
            }
        }
        // model-checked calls on the merged document
        let mut counter = 5000i64;
        let k = rng.range(5, 15);
        if !drive(cx, &mut m, rng, enc, k, &mut counter, "merged-text", &log, 0) {
            return;
        }
        let _ = (actor(0), GenState::boundaries::<AutoCommit>);
        if multi && w.merges > 0 {
            cx.nontrivial(fnv(&m.save()) ^ case);
        }
        cx.sample(|| json!({"encoding": enc_name(enc), "replicas": n, "texts": docs.last().map(|d| d.1.text(&w.gs.objs[0].0).unwrap_or_default()), "program_tail": tail(&log, 6)}));
    }
}
