//! SEQ — a sequential, API-level model of the editing calls.
//!
//! The model is seeded from an OBS snapshot (so it can start from any prior
//! state, including conflicted registers and tombstones that are already
//! invisible) and implements the *documented* sequential effect of one call:
//! put replaces the whole register, delete removes it, increment adds to every
//! counter of the register and drops the non-counters, insert/splice shift the
//! elements behind them, splice_text works on encoding units, mark sets a name
//! over a range (a new mark has the greatest id, so it wins there), null = unmark.
use crate::obs::{enc_width, scalar_repr};
use automerge::marks::ExpandMark;
use automerge::{ObjType, ScalarValue, TextEncoding};
use serde_json::{json, Map, Value as J};
use std::collections::BTreeMap;
use unicode_segmentation::UnicodeSegmentation;

#[derive(Clone, Debug)]
pub enum MVal {
    Scalar(J),
    Obj(Box<MObj>),
}

#[derive(Clone, Debug)]
pub struct MEntry {
    /// op id; None for values written during this session (their ids are not predicted)
    pub id: Option<String>,
    pub val: MVal,
}

#[derive(Clone, Debug)]
pub struct TElem {
    pub vals: Vec<MEntry>,
    /// marks over this element; None = not predicted by the model (inserted next to marked text)
    pub marks: Option<BTreeMap<String, J>>,
}

#[derive(Clone, Debug)]
pub struct MObj {
    pub typ: ObjType,
    pub id: String,
    pub map: BTreeMap<String, Vec<MEntry>>,
    pub list: Vec<Vec<MEntry>>,
    pub text: Vec<TElem>,
}

#[derive(Clone, Debug)]
pub enum Key {
    Map(String),
    Seq(usize),
}

#[derive(Clone, Debug)]
pub enum Call {
    Put { obj: String, key: Key, val: ScalarValue },
    PutObject { obj: String, key: Key, typ: ObjType },
    Insert { obj: String, index: usize, val: ScalarValue },
    InsertObject { obj: String, index: usize, typ: ObjType },
    Delete { obj: String, key: Key },
    Increment { obj: String, key: Key, by: i64 },
    Splice { obj: String, index: usize, del: isize, vals: Vec<ScalarValue> },
    SpliceText { obj: String, index: usize, del: isize, text: String },
    Mark { obj: String, start: usize, end: usize, name: String, val: ScalarValue, expand: ExpandMark },
    SplitBlock { obj: String, index: usize },
    JoinBlock { obj: String, index: usize },
}

impl Call {
    pub fn kind(&self) -> &'static str {
        match self {
            Call::Put { key: Key::Map(_), .. } => "put_map",
            Call::Put { .. } => "put_seq",
            Call::PutObject { .. } => "put_object",
            Call::Insert { .. } => "insert",
            Call::InsertObject { .. } => "insert_object",
            Call::Delete { key: Key::Map(_), .. } => "delete_map",
            Call::Delete { .. } => "delete_seq",
            Call::Increment { .. } => "increment",
            Call::Splice { .. } => "splice",
            Call::SpliceText { .. } => "splice_text",
            Call::Mark { .. } => "mark",
            Call::SplitBlock { .. } => "split_block",
            Call::JoinBlock { .. } => "join_block",
        }
    }
    pub fn obj(&self) -> &str {
        match self {
            Call::Put { obj, .. }
            | Call::PutObject { obj, .. }
            | Call::Insert { obj, .. }
            | Call::InsertObject { obj, .. }
            | Call::Delete { obj, .. }
            | Call::Increment { obj, .. }
            | Call::Splice { obj, .. }
            | Call::SpliceText { obj, .. }
            | Call::Mark { obj, .. }
            | Call::SplitBlock { obj, .. }
            | Call::JoinBlock { obj, .. } => obj,
        }
    }
}

#[derive(Clone, Debug, PartialEq)]
pub enum Expect {
    Ok,
    /// the documentation demands an error
    Err,
    /// the documentation does not pin the outcome (e.g. index inside a multi-unit character)
    Unspecified,
}

fn parse_type(s: &str) -> ObjType {
    match s {
        "list" => ObjType::List,
        "text" => ObjType::Text,
        "table" => ObjType::Table,
        _ => ObjType::Map,
    }
}

fn entries(j: &J) -> Vec<MEntry> {
    j.as_array()
        .map(|a| {
            a.iter()
                .map(|e| MEntry {
                    id: e["id"].as_str().map(|s| s.to_string()),
                    val: match e.get("o") {
                        Some(o) => MVal::Obj(Box::new(MObj::from_snapshot(o))),
                        None => MVal::Scalar(e["v"].clone()),
                    },
                })
                .collect()
        })
        .unwrap_or_default()
}

pub fn empty_obj(typ: ObjType, id: &str) -> MObj {
    MObj { typ, id: id.to_string(), map: BTreeMap::new(), list: vec![], text: vec![] }
}

fn piece_of(vals: &[MEntry]) -> String {
    match vals.last().map(|e| &e.val) {
        Some(MVal::Scalar(v)) => v.get("str").and_then(|s| s.as_str()).map(|s| s.to_string()).unwrap_or("\u{fffc}".to_string()),
        _ => "\u{fffc}".to_string(),
    }
}

impl MObj {
    pub fn from_snapshot(j: &J) -> MObj {
        let typ = parse_type(j["type"].as_str().unwrap_or("map"));
        let mut o = empty_obj(typ, j["id"].as_str().unwrap_or(""));
        match typ {
            ObjType::Map | ObjType::Table => {
                if let Some(m) = j["map"].as_object() {
                    for (k, v) in m {
                        o.map.insert(k.clone(), entries(v));
                    }
                }
            }
            ObjType::List => {
                if let Some(a) = j["seq"].as_array() {
                    for e in a {
                        o.list.push(entries(e));
                    }
                }
            }
            ObjType::Text => {
                // marks: [start, end, name, value] in encoding units; attach to elements by their start
                let marks: Vec<(usize, usize, String, J)> = j["marks"]
                    .as_array()
                    .map(|a| a.iter().map(|m| (m[0].as_u64().unwrap_or(0) as usize, m[1].as_u64().unwrap_or(0) as usize, m[2].as_str().unwrap_or("").to_string(), m[3].clone())).collect())
                    .unwrap_or_default();
                if let Some(a) = j["seq"].as_array() {
                    for e in a {
                        let at = e["at"].as_u64().unwrap_or(0) as usize;
                        let mut mm = BTreeMap::new();
                        for (s, en, n, v) in &marks {
                            if *s <= at && at < *en {
                                mm.insert(n.clone(), v.clone());
                            }
                        }
                        o.text.push(TElem { vals: entries(&e["vals"]), marks: Some(mm) });
                    }
                }
            }
        }
        o
    }

    pub fn find_mut(&mut self, id: &str) -> Option<&mut MObj> {
        if self.id == id {
            return Some(self);
        }
        for reg in self.map.values_mut() {
            for e in reg.iter_mut() {
                if let MVal::Obj(o) = &mut e.val {
                    if let Some(f) = o.find_mut(id) {
                        return Some(f);
                    }
                }
            }
        }
        for reg in self.list.iter_mut() {
            for e in reg.iter_mut() {
                if let MVal::Obj(o) = &mut e.val {
                    if let Some(f) = o.find_mut(id) {
                        return Some(f);
                    }
                }
            }
        }
        for el in self.text.iter_mut() {
            for e in el.vals.iter_mut() {
                if let MVal::Obj(o) = &mut e.val {
                    if let Some(f) = o.find_mut(id) {
                        return Some(f);
                    }
                }
            }
        }
        None
    }

    pub fn objects(&self, out: &mut Vec<(String, ObjType)>) {
        out.push((self.id.clone(), self.typ));
        let mut visit = |reg: &Vec<MEntry>| {
            for e in reg {
                if let MVal::Obj(o) = &e.val {
                    o.objects(out);
                }
            }
        };
        for r in self.map.values() {
            visit(r);
        }
        for r in &self.list {
            visit(r);
        }
        for el in &self.text {
            visit(&el.vals);
        }
    }

    /// widths and start offsets of the text elements
    pub fn text_layout(&self, enc: TextEncoding) -> (Vec<usize>, usize) {
        let mut starts = vec![];
        let mut at = 0;
        for el in &self.text {
            starts.push(at);
            at += enc_width(enc, &piece_of(&el.vals));
        }
        (starts, at)
    }

    pub fn text_string(&self) -> String {
        self.text.iter().map(|e| piece_of(&e.vals)).collect()
    }

    pub fn has_marks(&self) -> bool {
        self.text.iter().any(|e| e.marks.as_ref().map(|m| !m.is_empty()).unwrap_or(true))
    }

    pub fn has_counter(reg: &[MEntry]) -> bool {
        reg.iter().any(|e| matches!(&e.val, MVal::Scalar(v) if v.get("counter").is_some()))
    }
}

fn new_scalar(v: &ScalarValue) -> Vec<MEntry> {
    vec![MEntry { id: None, val: MVal::Scalar(scalar_repr(v)) }]
}

fn inc_reg(reg: &mut Vec<MEntry>, by: i64) {
    reg.retain(|e| matches!(&e.val, MVal::Scalar(v) if v.get("counter").is_some()));
    for e in reg.iter_mut() {
        if let MVal::Scalar(v) = &mut e.val {
            let c = v["counter"].as_i64().unwrap_or(0);
            *v = json!({"counter": c.wrapping_add(by)});
        }
    }
}

pub fn split_text(enc: TextEncoding, s: &str) -> Vec<String> {
    match enc {
        TextEncoding::GraphemeCluster => s.graphemes(true).map(|g| g.to_string()).collect(),
        _ => s.chars().map(|c| c.to_string()).collect(),
    }
}

/// Predict the outcome of `call` and, when it is Ok, apply it to the model.
/// `new_id` is the id the API returned for calls that create an object (known only after the call).
pub fn apply(root: &mut MObj, call: &Call, enc: TextEncoding, new_id: Option<&str>) -> Expect {
    let Some(obj) = root.find_mut(call.obj()) else { return Expect::Err };
    let nid = new_id.unwrap_or("?").to_string();
    match call {
        Call::Put { key, val, .. } => match (obj.typ, key) {
            (ObjType::Map | ObjType::Table, Key::Map(k)) => {
                obj.map.insert(k.clone(), new_scalar(val));
                Expect::Ok
            }
            (ObjType::List, Key::Seq(i)) => {
                if *i < obj.list.len() {
                    obj.list[*i] = new_scalar(val);
                    Expect::Ok
                } else {
                    Expect::Err
                }
            }
            (ObjType::Text, Key::Seq(_)) => Expect::Unspecified,
            _ => Expect::Err,
        },
        Call::PutObject { key, typ, .. } => {
            let e = vec![MEntry { id: Some(nid.clone()), val: MVal::Obj(Box::new(empty_obj(*typ, &nid))) }];
            match (obj.typ, key) {
                (ObjType::Map | ObjType::Table, Key::Map(k)) => {
                    obj.map.insert(k.clone(), e);
                    Expect::Ok
                }
                (ObjType::List, Key::Seq(i)) => {
                    if *i < obj.list.len() {
                        obj.list[*i] = e;
                        Expect::Ok
                    } else {
                        Expect::Err
                    }
                }
                (ObjType::Text, Key::Seq(_)) => Expect::Unspecified,
                _ => Expect::Err,
            }
        }
        Call::Insert { index, val, .. } => match obj.typ {
            ObjType::List => {
                if *index <= obj.list.len() {
                    obj.list.insert(*index, new_scalar(val));
                    Expect::Ok
                } else {
                    Expect::Err
                }
            }
            ObjType::Text => Expect::Unspecified,
            _ => Expect::Err,
        },
        Call::InsertObject { index, typ, .. } => match obj.typ {
            ObjType::List => {
                if *index <= obj.list.len() {
                    obj.list.insert(*index, vec![MEntry { id: Some(nid.clone()), val: MVal::Obj(Box::new(empty_obj(*typ, &nid))) }]);
                    Expect::Ok
                } else {
                    Expect::Err
                }
            }
            ObjType::Text => Expect::Unspecified,
            _ => Expect::Err,
        },
        Call::Delete { key, .. } => match (obj.typ, key) {
            (ObjType::Map | ObjType::Table, Key::Map(k)) => {
                obj.map.remove(k);
                Expect::Ok
            }
            (ObjType::List, Key::Seq(i)) => {
                if *i < obj.list.len() {
                    obj.list.remove(*i);
                    Expect::Ok
                } else {
                    Expect::Err
                }
            }
            (ObjType::Text, Key::Seq(i)) => {
                let (starts, len) = obj.text_layout(enc);
                if *i >= len {
                    return Expect::Unspecified;
                }
                match starts.iter().position(|s| s == i) {
                    Some(p) => {
                        obj.text.remove(p);
                        Expect::Ok
                    }
                    None => Expect::Unspecified,
                }
            }
            _ => Expect::Err,
        },
        Call::Increment { key, by, .. } => match (obj.typ, key) {
            (ObjType::Map | ObjType::Table, Key::Map(k)) => match obj.map.get_mut(k) {
                Some(reg) if MObj::has_counter(reg) => {
                    inc_reg(reg, *by);
                    Expect::Ok
                }
                _ => Expect::Err,
            },
            (ObjType::List, Key::Seq(i)) => match obj.list.get_mut(*i) {
                Some(reg) if MObj::has_counter(reg) => {
                    inc_reg(reg, *by);
                    Expect::Ok
                }
                _ => Expect::Err,
            },
            (ObjType::Text, _) => Expect::Unspecified,
            _ => Expect::Err,
        },
        Call::Splice { index, del, vals, .. } => match obj.typ {
            ObjType::List => {
                let (mut i, mut d) = (*index as isize, *del);
                if d < 0 {
                    i += d;
                    d = -d;
                    if i < 0 {
                        return Expect::Err;
                    }
                }
                let i = i as usize;
                if i > obj.list.len() {
                    // an empty splice beyond the end is not pinned down; with values it is an error
                    return if vals.is_empty() { Expect::Unspecified } else { Expect::Err };
                }
                let d = (d as usize).min(obj.list.len() - i);
                let new: Vec<Vec<MEntry>> = vals.iter().map(new_scalar).collect();
                obj.list.splice(i..i + d, new);
                Expect::Ok
            }
            ObjType::Text => Expect::Unspecified,
            _ => Expect::Err,
        },
        Call::SpliceText { index, del, text, .. } => {
            if obj.typ != ObjType::Text {
                return Expect::Err;
            }
            let (starts, len) = obj.text_layout(enc);
            let (mut i, mut d) = (*index as isize, *del);
            if d < 0 {
                i += d;
                d = -d;
                if i < 0 {
                    return Expect::Err;
                }
            }
            let i = i as usize;
            if i > len {
                return if text.is_empty() { Expect::Unspecified } else { Expect::Err };
            }
            // aligned start?
            let p = if i == len { obj.text.len() } else { match starts.iter().position(|s| *s == i) { Some(p) => p, None => return Expect::Unspecified } };
            // aligned end?
            let end = i + (d as usize);
            let q = if end >= len { obj.text.len() } else { match starts.iter().position(|s| *s == end) { Some(q) => q, None => return Expect::Unspecified } };
            // marks of inserted text are not predicted: even a text that shows no mark
            // may hold mark anchors around deleted characters, and text inserted between
            // them is (rightly) covered. Boundary growth is judged in C25's controlled scenario.
            let new: Vec<TElem> = split_text(enc, text)
                .into_iter()
                .map(|g| TElem { vals: vec![MEntry { id: None, val: MVal::Scalar(json!({"str": g})) }], marks: None })
                .collect();
            obj.text.splice(p..q, new);
            Expect::Ok
        }
        Call::Mark { start, end, name, val, expand, .. } => {
            if obj.typ != ObjType::Text {
                return Expect::Err;
            }
            let (starts, len) = obj.text_layout(enc);
            if *start > len || *end > len {
                return Expect::Err;
            }
            if start > end {
                return Expect::Unspecified;
            }
            if start == end {
                // zero-width mark: no visible effect now (ignored for ExpandMark::None)
                let _ = expand;
                return Expect::Ok;
            }
            let aligned = |x: usize| x == len || starts.contains(&x);
            if !aligned(*start) || !aligned(*end) {
                return Expect::Unspecified;
            }
            let v = scalar_repr(val);
            for (k, el) in obj.text.iter_mut().enumerate() {
                if starts[k] >= *start && starts[k] < *end {
                    if let Some(m) = el.marks.as_mut() {
                        if matches!(val, ScalarValue::Null) {
                            m.remove(name);
                        } else {
                            m.insert(name.clone(), v.clone());
                        }
                    }
                }
            }
            Expect::Ok
        }
        Call::SplitBlock { index, .. } => {
            if obj.typ != ObjType::Text {
                return Expect::Err;
            }
            let (starts, len) = obj.text_layout(enc);
            if *index > len {
                return Expect::Err;
            }
            let p = if *index == len { obj.text.len() } else { match starts.iter().position(|s| s == index) { Some(p) => p, None => return Expect::Unspecified } };
            obj.text.insert(p, TElem { vals: vec![MEntry { id: Some(nid.clone()), val: MVal::Obj(Box::new(empty_obj(ObjType::Map, &nid))) }], marks: None });
            Expect::Ok
        }
        Call::JoinBlock { index, .. } => {
            if obj.typ != ObjType::Text {
                return Expect::Err;
            }
            let (starts, len) = obj.text_layout(enc);
            if *index >= len {
                return Expect::Err;
            }
            match starts.iter().position(|s| s == index) {
                Some(p) => {
                    // documented for block markers only; on a character it is not pinned down
                    let is_block = matches!(obj.text[p].vals.last().map(|e| &e.val), Some(MVal::Obj(_)));
                    if !is_block {
                        return Expect::Unspecified;
                    }
                    obj.text.remove(p);
                    Expect::Ok
                }
                None => Expect::Unspecified,
            }
        }
    }
}

// ---------------------------------------------------------------------------
// comparison of a model with an OBS snapshot
// ---------------------------------------------------------------------------

fn cmp_entries(m: &[MEntry], o: &J, enc: TextEncoding, path: &str) -> Option<String> {
    let oa = o.as_array().cloned().unwrap_or_default();
    if oa.len() != m.len() {
        return Some(format!("{path}: expected {} value(s) in the register, document shows {}: {}", m.len(), oa.len(), crate::obs::short(o)));
    }
    for (k, (me, oe)) in m.iter().zip(oa.iter()).enumerate() {
        if let Some(id) = &me.id {
            if id != "?" && oe["id"].as_str() != Some(id.as_str()) {
                return Some(format!("{path}[{k}]: expected the value with id {id}, document shows {}", oe["id"]));
            }
        }
        match &me.val {
            MVal::Scalar(v) => {
                if oe.get("v") != Some(v) {
                    return Some(format!("{path}[{k}]: expected {v}, document shows {}", crate::obs::short(oe)));
                }
            }
            MVal::Obj(mo) => match oe.get("o") {
                Some(oo) => {
                    if let Some(d) = compare(mo, oo, enc, &format!("{path}[{k}]")) {
                        return Some(d);
                    }
                }
                None => return Some(format!("{path}[{k}]: expected an object, document shows {}", crate::obs::short(oe))),
            },
        }
    }
    None
}

/// first difference between the model and an OBS snapshot of the document
pub fn compare(m: &MObj, o: &J, enc: TextEncoding, path: &str) -> Option<String> {
    let ot = parse_type(o["type"].as_str().unwrap_or(""));
    if ot != m.typ {
        return Some(format!("{path}: expected a {:?}, document shows a {}", m.typ, o["type"]));
    }
    match m.typ {
        ObjType::Map | ObjType::Table => {
            let om = o["map"].as_object().cloned().unwrap_or_else(Map::new);
            for k in om.keys() {
                if !m.map.contains_key(k) {
                    return Some(format!("{path}/{k}: key not expected, document shows {}", crate::obs::short(&om[k])));
                }
            }
            for (k, reg) in &m.map {
                match om.get(k) {
                    Some(oe) => {
                        if let Some(d) = cmp_entries(reg, oe, enc, &format!("{path}/{k}")) {
                            return Some(d);
                        }
                    }
                    None => return Some(format!("{path}/{k}: key expected, document has none")),
                }
            }
            None
        }
        ObjType::List => {
            let os = o["seq"].as_array().cloned().unwrap_or_default();
            if os.len() != m.list.len() {
                return Some(format!("{path}: expected a list of {} element(s), document shows {}", m.list.len(), os.len()));
            }
            for (i, reg) in m.list.iter().enumerate() {
                if let Some(d) = cmp_entries(reg, &os[i], enc, &format!("{path}/{i}")) {
                    return Some(d);
                }
            }
            None
        }
        ObjType::Text => {
            let want = m.text_string();
            if o["text"].as_str() != Some(want.as_str()) {
                return Some(format!("{path}: expected text {want:?}, document shows {}", o["text"]));
            }
            let (starts, len) = m.text_layout(enc);
            if o["len"].as_u64() != Some(len as u64) {
                return Some(format!("{path}: expected length {len} ({} units of {want:?}), document shows {}", crate::obs::enc_name(enc), o["len"]));
            }
            let os = o["seq"].as_array().cloned().unwrap_or_default();
            if os.len() != m.text.len() {
                return Some(format!("{path}: expected {} text elements, document shows {}", m.text.len(), os.len()));
            }
            // per-position marks of the document
            let marks: Vec<(usize, usize, String, J)> = o["marks"]
                .as_array()
                .map(|a| a.iter().map(|x| (x[0].as_u64().unwrap_or(0) as usize, x[1].as_u64().unwrap_or(0) as usize, x[2].as_str().unwrap_or("").to_string(), x[3].clone())).collect())
                .unwrap_or_default();
            for (k, el) in m.text.iter().enumerate() {
                if os[k]["at"].as_u64() != Some(starts[k] as u64) {
                    return Some(format!("{path}: element {k} expected at index {}, document shows {}", starts[k], os[k]["at"]));
                }
                if let Some(d) = cmp_entries(&el.vals, &os[k]["vals"], enc, &format!("{path}@{}", starts[k])) {
                    return Some(d);
                }
                if let Some(mm) = &el.marks {
                    let mut have = BTreeMap::new();
                    for (s, e, n, v) in &marks {
                        if *s <= starts[k] && starts[k] < *e {
                            have.insert(n.clone(), v.clone());
                        }
                    }
                    if &have != mm {
                        return Some(format!("{path}@{}: expected marks {:?}, document shows {:?}", starts[k], mm, have));
                    }
                }
            }
            None
        }
    }
}
