//! NET — deterministic network of peers exchanging real sync messages.
//!
//! Every message crosses the wire as `Message::encode()` bytes and is decoded
//! again by the receiver. Links are reliable and in-order while they are up; a
//! drop discards everything queued in both directions (loss at disconnect).
//! Each link end owns one `sync::State`. All decisions are taken on logical
//! steps (rounds), never on wall time.
use crate::fw::{fnv, Rng};
use crate::gen::{random_edit, GenState};
use automerge::sync::{self, SyncDoc};
use automerge::transaction::CommitOptions;
use automerge::{AutoCommit, ChangeHash};
use std::collections::{BTreeSet, VecDeque};

pub struct Link {
    pub a: usize,
    pub b: usize,
    pub up: bool,
    /// state kept by `a` about `b`, and by `b` about `a`
    pub st: [sync::State; 2],
    /// queues a→b and b→a (encoded messages)
    pub q: [VecDeque<Vec<u8>>; 2],
    /// read-only flag of each end (mirrors what was set on the state)
    pub ro: [bool; 2],
    /// this end strips the flags section from what it sends (emulates a peer that predates it)
    pub old_peer: [bool; 2],
}

pub struct Net {
    pub docs: Vec<AutoCommit>,
    pub links: Vec<Link>,
    pub gs: GenState,
    pub time: i64,
    pub log: Vec<String>,
    pub sched_hash: u64,
    pub verbose: bool,
    // observations
    pub msgs_sent: u64,
    pub msgs_delivered: u64,
    pub msgs_lost: u64,
    pub msgs_with_changes: u64,
    pub v2_msgs: u64,
    pub edits_between_gen_and_delivery: u64,
    pub drops_with_in_flight: u64,
    pub reconnect_fresh: u64,
    pub reconnect_persisted: u64,
    pub toggles_with_in_flight: u64,
    pub toggles: u64,
    pub wire_mismatch: Option<String>,
    pub receive_errors: Vec<String>,
    pub readonly_doc_changed: Option<String>,
    pub readonly_receives: u64,
    /// quiescence schedule: false = alternate (generate, deliver at once), true = crossing (both ends
    /// of a link generate before either message is delivered)
    pub crossing: bool,
    pub crash_restores: u64,
    /// which peers were crash-restored at least once
    pub crashed: Vec<bool>,
}

pub fn ends(l: &Link, from: usize) -> usize {
    // index of the end `from` in the link (0 = a, 1 = b)
    if l.a == from {
        0
    } else {
        1
    }
}

impl Net {
    pub fn new(docs: Vec<AutoCommit>, gs: GenState, pairs: &[(usize, usize)]) -> Net {
        let links = pairs
            .iter()
            .map(|(a, b)| Link { a: *a, b: *b, up: true, st: [sync::State::new(), sync::State::new()], q: [VecDeque::new(), VecDeque::new()], ro: [false, false], old_peer: [false, false] })
            .collect();
        Net {
            docs,
            links,
            gs,
            time: 1000,
            log: vec![],
            sched_hash: 0xcbf2_9ce4_8422_2325,
            verbose: false,
            msgs_sent: 0,
            msgs_delivered: 0,
            msgs_lost: 0,
            msgs_with_changes: 0,
            v2_msgs: 0,
            edits_between_gen_and_delivery: 0,
            drops_with_in_flight: 0,
            reconnect_fresh: 0,
            reconnect_persisted: 0,
            toggles_with_in_flight: 0,
            toggles: 0,
            wire_mismatch: None,
            receive_errors: vec![],
            readonly_doc_changed: None,
            readonly_receives: 0,
            crossing: false,
            crash_restores: 0,
            crashed: vec![],
        }
    }

    fn note(&mut self, s: String) {
        self.sched_hash = (self.sched_hash ^ fnv(s.split(" :: ").next().unwrap_or("").as_bytes())).wrapping_mul(0x0100_0000_01b3);
        if self.verbose {
            eprintln!("  | {s}");
        }
        self.log.push(s);
    }

    /// `from` generates a message for the other end of link `li`; returns whether one was produced
    pub fn gen(&mut self, li: usize, from: usize) -> bool {
        let l = &mut self.links[li];
        if !l.up {
            return false;
        }
        let e = ends(l, from);
        if l.old_peer[e] {
            // a peer that predates the flags section ignores what the other side advertises
            l.st[e].their_capabilities = None;
        }
        let m = self.docs[from].sync().generate_sync_message(&mut l.st[e]);
        match m {
            None => {
                let s = format!("gen L{li} P{from}: None");
                self.note(s);
                false
            }
            Some(mut m) => {
                if l.old_peer[e] {
                    m.flags = None;
                }
                let desc = format!("{} heads, {} need, {} have, {} change chunks, {:?}", m.heads.len(), m.need.len(), m.have.len(), m.changes.len(), m.version);
                if !m.changes.is_empty() {
                    self.msgs_with_changes += 1;
                }
                if m.version == sync::MessageVersion::V2 {
                    self.v2_msgs += 1;
                }
                let bytes = m.clone().encode();
                // wire round trip (C19 rides along): decode(encode(m)) must equal m
                match sync::Message::decode(&bytes) {
                    Ok(d) => {
                        if d != m && self.wire_mismatch.is_none() {
                            self.wire_mismatch = Some(format!("decode(encode(m)) != m for a message with {desc}"));
                        }
                    }
                    Err(e) => {
                        if self.wire_mismatch.is_none() {
                            self.wire_mismatch = Some(format!("a generated message does not decode: {e} ({desc})"));
                        }
                    }
                }
                l.q[e].push_back(bytes);
                self.msgs_sent += 1;
                let s = format!("gen L{li} P{from}: msg :: {desc}");
                self.note(s);
                true
            }
        }
    }

    /// deliver the oldest queued message sent by `from` over link `li`
    pub fn deliver(&mut self, li: usize, from: usize) -> bool {
        let l = &mut self.links[li];
        if !l.up {
            return false;
        }
        let e = ends(l, from);
        let to = if e == 0 { l.b } else { l.a };
        let Some(bytes) = l.q[e].pop_front() else { return false };
        let mut m = match sync::Message::decode(&bytes) {
            Ok(m) => m,
            Err(err) => {
                self.receive_errors.push(format!("queued message does not decode: {err}"));
                return true;
            }
        };
        if l.old_peer[1 - e] {
            // an implementation that predates the flags section does not see it
            m.flags = None;
        }
        let ro = l.ro[1 - e];
        let before = if ro { Some((self.docs[to].save(), self.docs[to].get_heads())) } else { None };
        if self.verbose && std::env::var("VERIF_DUMP").is_ok() && !m.changes.is_empty() {
            let _ = std::fs::create_dir_all("/verif/out/dump/net");
            let n = self.msgs_delivered;
            let mut joined = vec![];
            for c in m.changes.iter() {
                joined.extend_from_slice(c);
            }
            let _ = std::fs::write(format!("/verif/out/dump/net/{n:05}-to-P{to}.bin"), joined);
        }
        let r = self.docs[to].sync().receive_sync_message(&mut l.st[1 - e], m);
        self.msgs_delivered += 1;
        if self.verbose && std::env::var("VERIF_DEBUG_RELOAD").is_ok() {
            let mut c = self.docs[to].clone();
            let enc = automerge::ReadDoc::text_encoding(&c);
            let a = crate::obs::observe_opts(&c, None, false).snap;
            if let Ok(l) = crate::util::load_enc(&c.save(), enc) {
                let b = crate::obs::observe_opts(&l, None, false).snap;
                if a != b {
                    eprintln!("  !! after delivery #{} to P{to}: in-memory state differs from load(save()): {:?}", self.msgs_delivered, crate::obs::first_diff(&a, &b));
                }
            }
        }
        if let Err(err) = &r {
            self.receive_errors.push(format!("P{to} receive over L{li}: {err}"));
        }
        if let Some((bytes0, heads0)) = before {
            self.readonly_receives += 1;
            let heads1 = self.docs[to].get_heads();
            let bytes1 = self.docs[to].save();
            if (heads1 != heads0 || bytes1 != bytes0) && self.readonly_doc_changed.is_none() {
                self.readonly_doc_changed = Some(format!("P{to} is read-only on L{li} but receiving a message changed its document (heads {} -> {}, save {} -> {} bytes)", heads0.len(), heads1.len(), bytes0.len(), bytes1.len()));
            }
        }
        let s = format!("deliver L{li} P{from}->P{to}: {}", if r.is_ok() { "ok" } else { "Err" });
        self.note(s);
        true
    }

    pub fn in_flight(&self, li: usize) -> usize {
        self.links[li].q[0].len() + self.links[li].q[1].len()
    }

    pub fn edit(&mut self, p: usize, rng: &mut Rng, n: usize) {
        for _ in 0..n {
            let e = random_edit(&mut self.docs[p], rng, &mut self.gs);
            if self.verbose {
                eprintln!("  |   P{p}: {} -> {}", e.desc, if e.ok { "ok".to_string() } else { format!("Err({})", e.err.clone().unwrap_or_default()) });
            }
        }
        self.time += 1;
        let t = self.time;
        let h = self.docs[p].commit_with(CommitOptions::default().with_time(t));
        // an edit made while a message of this peer, or for this peer, is queued
        let pending = self.links.iter().any(|l| (l.a == p || l.b == p) && l.up && (!l.q[0].is_empty() || !l.q[1].is_empty()));
        if pending && h.is_some() {
            self.edits_between_gen_and_delivery += 1;
        }
        let s = format!("edit P{p}: {}", if h.is_some() { "commit" } else { "nothing" });
        self.note(s);
    }

    pub fn drop_link(&mut self, li: usize) {
        let lost = self.in_flight(li);
        let l = &mut self.links[li];
        if !l.up {
            return;
        }
        l.up = false;
        l.q[0].clear();
        l.q[1].clear();
        self.msgs_lost += lost as u64;
        if lost > 0 {
            self.drops_with_in_flight += 1;
        }
        let s = format!("drop L{li} :: {lost} messages lost");
        self.note(s);
    }

    /// bring a link up again; each end restarts either with a fresh state or with the state it
    /// persisted (encode → decode)
    pub fn reconnect(&mut self, li: usize, persisted: [bool; 2]) -> Result<(), String> {
        let l = &mut self.links[li];
        if l.up {
            return Ok(());
        }
        for e in 0..2 {
            let mut st = if persisted[e] {
                self.reconnect_persisted += 1;
                let bytes = l.st[e].encode();
                sync::State::decode(&bytes).map_err(|err| format!("State::decode(State::encode()) failed: {err}"))?
            } else {
                self.reconnect_fresh += 1;
                sync::State::new()
            };
            if l.ro[e] {
                st.set_read_only(true);
            }
            l.st[e] = st;
        }
        l.up = true;
        let s = format!("reconnect L{li} persisted={persisted:?}");
        self.note(s);
        Ok(())
    }

    pub fn set_read_only(&mut self, li: usize, end: usize, ro: bool) {
        let inflight = self.in_flight(li);
        let l = &mut self.links[li];
        if l.ro[end] == ro {
            return;
        }
        l.ro[end] = ro;
        l.st[end].set_read_only(ro);
        self.toggles += 1;
        if inflight > 0 {
            self.toggles_with_in_flight += 1;
        }
        let s = format!("read_only L{li} end{end} := {ro} :: {inflight} in flight");
        self.note(s);
    }

    /// Crash of peer `p`: its process dies, every connection drops with whatever was in flight, and it
    /// restarts from an older copy of its document (`older`) under a new actor id, while the sync
    /// states — its own and its peers' — are the persisted ones (State::encode → decode), i.e. they may
    /// name heads the restarted document no longer has.
    pub fn crash_restore(&mut self, p: usize, older: AutoCommit) -> Result<(), String> {
        let mine: Vec<usize> = (0..self.links.len()).filter(|li| self.links[*li].a == p || self.links[*li].b == p).collect();
        for li in &mine {
            self.drop_link(*li);
        }
        if self.verbose && std::env::var("VERIF_DUMP").is_ok() {
            let _ = std::fs::create_dir_all("/verif/out/dump/net");
            let mut c = older.clone();
            let _ = std::fs::write(format!("/verif/out/dump/net/{:05}-restore-P{p}.bin", self.msgs_delivered), c.save());
            let _ = std::fs::write(format!("/verif/out/dump/net/{:05}-restore-P{p}.actor", self.msgs_delivered), c.get_actor().to_hex_string());
        }
        self.docs[p] = older;
        self.crash_restores += 1;
        if self.crashed.len() < self.docs.len() {
            self.crashed.resize(self.docs.len(), false);
        }
        self.crashed[p] = true;
        let s = format!("crash P{p}: restarted from an older document copy");
        self.note(s);
        for li in mine {
            self.reconnect(li, [true, true])?;
        }
        Ok(())
    }

    pub fn total_changes(&mut self) -> usize {
        let mut all: BTreeSet<ChangeHash> = BTreeSet::new();
        for d in self.docs.iter_mut() {
            for c in d.get_changes(&[]) {
                all.insert(c.hash());
            }
        }
        all.len()
    }

    /// Quiescence phase: only generate/deliver on the links that are up, round-robin, until every
    /// generate returns None and all queues are empty. Returns the number of rounds used, or None
    /// if `max_rounds` rounds were not enough (bounded-progress refutation of "goes quiet").
    pub fn run_to_quiescence(&mut self, max_rounds: usize) -> Option<usize> {
        for round in 0..max_rounds {
            let mut any = false;
            for li in 0..self.links.len() {
                if !self.links[li].up {
                    continue;
                }
                let (a, b) = (self.links[li].a, self.links[li].b);
                // drain what is already queued, then one generate per direction, delivered at once
                while self.deliver(li, a) {
                    any = true;
                }
                while self.deliver(li, b) {
                    any = true;
                }
                if self.crossing {
                    // messages cross on the wire: both ends generate before either receives
                    let ga = self.gen(li, a);
                    let gb = self.gen(li, b);
                    if ga {
                        any = true;
                        self.deliver(li, a);
                    }
                    if gb {
                        any = true;
                        self.deliver(li, b);
                    }
                } else {
                    if self.gen(li, a) {
                        any = true;
                        self.deliver(li, a);
                    }
                    if self.gen(li, b) {
                        any = true;
                        self.deliver(li, b);
                    }
                }
            }
            if !any {
                return Some(round);
            }
        }
        None
    }

    /// connected components over the links that are up
    pub fn components(&self) -> Vec<Vec<usize>> {
        let n = self.docs.len();
        let mut comp: Vec<usize> = (0..n).collect();
        fn find(c: &mut Vec<usize>, x: usize) -> usize {
            if c[x] != x {
                let r = find(c, c[x]);
                c[x] = r;
            }
            c[x]
        }
        for l in &self.links {
            if l.up {
                let (ra, rb) = (find(&mut comp, l.a), find(&mut comp, l.b));
                if ra != rb {
                    comp[ra] = rb;
                }
            }
        }
        let mut out: std::collections::BTreeMap<usize, Vec<usize>> = Default::default();
        for i in 0..n {
            let r = find(&mut comp, i);
            out.entry(r).or_default().push(i);
        }
        out.into_values().collect()
    }
}
