//! MUT — the untrusted-input engine: seed corpus from generated histories,
//! byte-level and structure-aware mutators, re-sealing (checksum) and head
//! fix-up so that mutations survive the envelope checks and reach the column
//! decoders and `reconstruct`.
use crate::chunks::{self, parse_chunks, read_uleb, write_uleb, Chunk};
use crate::fw::Rng;
use crate::gen::{Profile, World};
use automerge::sync::{self, SyncDoc};
use automerge::{AutoCommit, ChangeHash, ReadDoc, TextEncoding};

#[derive(Clone, Debug)]
pub struct Sample {
    pub kind: &'static str,
    pub bytes: Vec<u8>,
}

/// a corpus of valid encodings of every kind the library parses
pub struct Corpus {
    pub enc: TextEncoding,
    pub docs: Vec<Sample>,
    pub changes: Vec<Sample>,
    pub bundles: Vec<Sample>,
    pub messages: Vec<Sample>,
    pub states: Vec<Sample>,
    pub cursors: Vec<Sample>,
    pub cursor_strs: Vec<String>,
    pub objids: Vec<Sample>,
    pub objid_strs: Vec<String>,
    pub blooms: Vec<Sample>,
    pub world: World,
}

pub fn build_corpus(rng: &mut Rng, enc: TextEncoding, steps: usize) -> Corpus {
    let n = rng.range(2, 3);
    let mut w = World::new(rng, n, enc, Profile::contention());
    w.run(rng, steps);
    let mut m = w.merged();
    let mut docs = vec![
        Sample { kind: "doc-deflate", bytes: m.save() },
        Sample { kind: "doc-plain", bytes: m.save_nocompress() },
    ];
    // save + incrementals
    {
        let mut f = w.docs[0].save();
        let heads = w.docs[0].get_heads();
        let mut m2 = m.clone();
        f.extend_from_slice(&m2.save_after(&heads));
        docs.push(Sample { kind: "doc-plus-incremental", bytes: f });
    }
    let mut changes = vec![];
    for c in w.ledger.values() {
        changes.push(Sample { kind: "change-raw", bytes: c.raw_bytes().to_vec() });
        let mut c2 = c.clone();
        let b = c2.bytes().to_vec();
        if b != c.raw_bytes() {
            changes.push(Sample { kind: "change-compressed", bytes: b });
        }
    }
    // a large, compressible change
    {
        use automerge::transaction::Transactable;
        let mut big = m.fork().with_actor(crate::gen::actor(33));
        let t = big.put_object(automerge::ROOT, "big", automerge::ObjType::Text).unwrap();
        let s: String = (0..400).map(|i| if i % 7 == 0 { 'é' } else { 'a' }).collect();
        big.splice_text(&t, 0, 0, &s).unwrap();
        big.commit();
        if let Some(mut c) = big.get_last_local_change() {
            changes.push(Sample { kind: "change-compressed", bytes: c.bytes().to_vec() });
            changes.push(Sample { kind: "change-raw", bytes: c.raw_bytes().to_vec() });
        }
    }
    let mut bundles = vec![];
    {
        let hashes: Vec<ChangeHash> = w.ledger.keys().copied().collect();
        if let Ok(b) = m.bundle(hashes.iter().copied()) {
            bundles.push(Sample { kind: "bundle-all", bytes: b.bytes().to_vec() });
        }
        if hashes.len() > 2 {
            let k = rng.range(1, hashes.len() - 1);
            if let Ok(b) = m.bundle(hashes[..k].iter().copied()) {
                bundles.push(Sample { kind: "bundle-some", bytes: b.bytes().to_vec() });
            }
        }
    }
    // a sync session: collect messages and states
    let mut messages = vec![];
    let mut states = vec![];
    {
        let mut a = w.docs[0].clone();
        let mut b = w.docs[n - 1].clone();
        let (mut sa, mut sb) = (sync::State::new(), sync::State::new());
        for _ in 0..8 {
            let ma = a.sync().generate_sync_message(&mut sa);
            let mb = b.sync().generate_sync_message(&mut sb);
            if ma.is_none() && mb.is_none() {
                break;
            }
            if let Some(mm) = ma {
                messages.push(Sample { kind: "sync-message", bytes: mm.clone().encode() });
                let _ = b.sync().receive_sync_message(&mut sb, mm);
            }
            if let Some(mm) = mb {
                messages.push(Sample { kind: "sync-message", bytes: mm.clone().encode() });
                let _ = a.sync().receive_sync_message(&mut sa, mm);
            }
            states.push(Sample { kind: "sync-state", bytes: sa.encode() });
        }
    }
    let mut cursors = vec![];
    let mut cursor_strs = vec![];
    let mut objids = vec![];
    let mut objid_strs = vec!["_root".to_string()];
    for (id, typ) in w.gs.objs.iter().take(12) {
        objids.push(Sample { kind: "objid", bytes: id.to_bytes() });
        objid_strs.push(id.to_string());
        if matches!(typ, automerge::ObjType::List | automerge::ObjType::Text) && m.length(id) > 0 {
            if let Ok(c) = m.get_cursor(id, 0, None) {
                cursors.push(Sample { kind: "cursor", bytes: c.to_bytes() });
                cursor_strs.push(c.to_string());
            }
        }
    }
    let mut blooms = vec![];
    {
        let hashes: Vec<ChangeHash> = w.ledger.keys().copied().collect();
        let f = sync::BloomFilter::from_hashes(hashes.iter());
        blooms.push(Sample { kind: "bloom", bytes: f.to_bytes() });
    }
    Corpus { enc, docs, changes, bundles, messages, states, cursors, cursor_strs, objids, objid_strs, blooms, world: w }
}

// ---------------------------------------------------------------------------
// byte-level mutators
// ---------------------------------------------------------------------------
pub const EXTREME_LEBS: [&[u8]; 10] = [
    &[0x00],
    &[0x01],
    &[0x7f],
    &[0x80, 0x01],
    &[0xff, 0x7f],
    &[0xff, 0xff, 0xff, 0xff, 0x0f],
    &[0x80, 0x80, 0x80, 0x80, 0x10],
    &[0xff, 0xff, 0xff, 0xff, 0xff, 0xff, 0xff, 0xff, 0x7f],
    &[0xff, 0xff, 0xff, 0xff, 0xff, 0xff, 0xff, 0xff, 0xff, 0x01],
    &[0x80, 0x80, 0x80, 0x80, 0x80, 0x80, 0x80, 0x80, 0x80, 0x7f],
];

pub fn mutate_range(rng: &mut Rng, b: &mut Vec<u8>, lo: usize, hi: usize, other: &[u8]) -> &'static str {
    if hi <= lo {
        return "none";
    }
    match rng.below(8) {
        0 => {
            let i = rng.range(lo, hi - 1);
            b[i] ^= 1 << rng.below(8);
            "bitflip"
        }
        1 => {
            let i = rng.range(lo, hi - 1);
            b[i] = *rng.pick(&[0u8, 1, 0x7f, 0x80, 0xff, 0xfe, 0x40]);
            "byteset"
        }
        2 => {
            let i = rng.range(lo, hi - 1);
            b[i] = rng.next() as u8;
            "byterand"
        }
        3 => {
            // replace what looks like a LEB at i by an extreme one
            let i = rng.range(lo, hi - 1);
            let mut j = i;
            while j < hi && b[j] & 0x80 != 0 {
                j += 1;
            }
            let e = *rng.pick(&EXTREME_LEBS);
            b.splice(i..(j + 1).min(hi), e.iter().copied());
            "leb-extreme"
        }
        4 => {
            let i = rng.range(lo, hi - 1);
            let n = rng.range(1, (hi - i).min(8));
            b.drain(i..i + n);
            "delete-bytes"
        }
        5 => {
            let i = rng.range(lo, hi);
            let n = rng.range(1, 6);
            let ins: Vec<u8> = (0..n).map(|_| *rng.pick(&[0u8, 0xff, 0x80, 0x01, 0x7f])).collect();
            b.splice(i..i, ins);
            "insert-bytes"
        }
        6 => {
            if other.is_empty() {
                return "none";
            }
            let i = rng.range(lo, hi - 1);
            let n = rng.range(1, (hi - i).min(16));
            let o = rng.below(other.len());
            let src: Vec<u8> = other[o..(o + n).min(other.len())].to_vec();
            b.splice(i..i + n, src);
            "splice-other"
        }
        _ => {
            // invalid UTF-8 / overlong sequences
            let i = rng.range(lo, hi - 1);
            let bad: &[u8] = *rng.pick(&[&[0xc0u8, 0x80][..], &[0xed, 0xa0, 0x80], &[0xff], &[0xe2, 0x82], &[0xf8, 0x88, 0x80, 0x80, 0x80]]);
            let n = bad.len().min(hi - i);
            b.splice(i..i + n, bad.iter().copied());
            "bad-utf8"
        }
    }
}

/// blind mutation anywhere (often dies at the checksum: still a valid C15 input)
pub fn mutate_blind(rng: &mut Rng, bytes: &[u8], other: &[u8]) -> (Vec<u8>, &'static str) {
    let mut b = bytes.to_vec();
    if b.is_empty() {
        return (rng.bytes(8), "random");
    }
    if rng.chance(10) {
        let n = rng.below(b.len());
        b.truncate(n);
        return (b, "truncate");
    }
    let k = mutate_range(rng, &mut b, 0, bytes.len(), other);
    (b, k)
}

/// mutate inside the data of one chunk and re-seal its checksum (and fix its length field)
pub fn mutate_sealed(rng: &mut Rng, bytes: &[u8], other: &[u8], rounds: usize) -> Option<(Vec<u8>, String)> {
    let (cs, _) = parse_chunks(bytes);
    if cs.is_empty() {
        return None;
    }
    let c = rng.pick(&cs).clone();
    let mut data = bytes[c.data_start..c.end].to_vec();
    let mut kinds = vec![];
    for _ in 0..rounds {
        let n = data.len();
        kinds.push(mutate_range(rng, &mut data, 0, n, other));
    }
    let mut out = bytes[..c.start].to_vec();
    out.extend_from_slice(&chunks::make_chunk(c.typ, &data));
    out.extend_from_slice(&bytes[c.end..]);
    Some((out, format!("sealed[type {}]:{}", c.typ, kinds.join("+"))))
}

// ---------------------------------------------------------------------------
// document chunk layout
// ---------------------------------------------------------------------------
#[derive(Clone, Debug)]
pub struct ColMeta {
    pub spec: u32,
    pub len: usize,
    /// absolute byte range of the column data inside the file
    pub start: usize,
}

#[derive(Clone, Debug)]
pub struct DocLayout {
    pub chunk: Chunk,
    pub actors_end: usize,
    pub heads_count: usize,
    /// offset of the first head hash
    pub heads_start: usize,
    pub change_cols: Vec<ColMeta>,
    pub op_cols: Vec<ColMeta>,
    pub suffix_start: usize,
}

fn parse_cols(b: &[u8], mut at: usize) -> Option<(Vec<(u32, usize)>, usize)> {
    let (n, a) = read_uleb(b, at)?;
    at = a;
    if n > 64 {
        return None;
    }
    let mut v = vec![];
    for _ in 0..n {
        let (spec, a) = read_uleb(b, at)?;
        let (len, a2) = read_uleb(b, a)?;
        at = a2;
        v.push((spec as u32, len as usize));
    }
    Some((v, at))
}

pub fn doc_layout(b: &[u8]) -> Option<DocLayout> {
    let (cs, _) = parse_chunks(b);
    let c = cs.into_iter().find(|c| c.typ == 0)?;
    let mut at = c.data_start;
    let (na, a) = read_uleb(b, at)?;
    at = a;
    for _ in 0..na {
        let (l, a) = read_uleb(b, at)?;
        at = a + l as usize;
    }
    let actors_end = at;
    let (nh, a) = read_uleb(b, at)?;
    let heads_start = a;
    at = a + 32 * nh as usize;
    let (cm, a) = parse_cols(b, at)?;
    let (om, a2) = parse_cols(b, a)?;
    at = a2;
    let mut change_cols = vec![];
    for (spec, len) in cm {
        change_cols.push(ColMeta { spec, len, start: at });
        at += len;
    }
    let mut op_cols = vec![];
    for (spec, len) in om {
        op_cols.push(ColMeta { spec, len, start: at });
        at += len;
    }
    if at > c.end {
        return None;
    }
    Some(DocLayout { chunk: c, actors_end, heads_count: nh as usize, heads_start, change_cols, op_cols, suffix_start: at })
}

pub fn col_name(spec: u32, ops: bool) -> String {
    let id = spec >> 4;
    let typ = spec & 7;
    let deflate = spec & 8 != 0;
    let n = if ops {
        match id {
            0 => "obj",
            1 => "key",
            2 => "id",
            3 => "insert",
            4 => "action",
            5 => "val",
            7 => "pred",
            8 => "succ",
            9 => "expand",
            10 => "mark_name",
            _ => "other",
        }
    } else {
        match id {
            0 => "actor",
            1 => "seq",
            2 => "max_op",
            3 => "time",
            4 => "message",
            5 => "deps",
            6 => "extra",
            _ => "other",
        }
    };
    format!("{n}.{typ}{}", if deflate { "z" } else { "" })
}

/// mutate inside one column of an (uncompressed) document chunk, keep all lengths consistent, re-seal
pub fn mutate_doc_column(rng: &mut Rng, bytes: &[u8], other: &[u8]) -> Option<(Vec<u8>, String)> {
    let l = doc_layout(bytes)?;
    let ops = rng.chance(75);
    let cols = if ops { &l.op_cols } else { &l.change_cols };
    let nonempty: Vec<&ColMeta> = cols.iter().filter(|c| c.len > 0 && c.spec & 8 == 0).collect();
    if nonempty.is_empty() {
        return None;
    }
    let col = (*rng.pick(&nonempty)).clone();
    let mut data = bytes[col.start..col.start + col.len].to_vec();
    let n = data.len();
    let kind = mutate_range(rng, &mut data, 0, n, other);
    // rebuild the chunk data with the new column length
    let mut d = bytes[l.chunk.data_start..l.actors_end].to_vec();
    d.extend_from_slice(&bytes[l.actors_end..l.heads_start + 32 * l.heads_count]);
    let emit = |cs: &Vec<ColMeta>, d: &mut Vec<u8>| {
        write_uleb(cs.len() as u64, d);
        for c in cs {
            write_uleb(c.spec as u64, d);
            write_uleb(if c.start == col.start { data.len() } else { c.len } as u64, d);
        }
    };
    emit(&l.change_cols, &mut d);
    emit(&l.op_cols, &mut d);
    for c in l.change_cols.iter().chain(l.op_cols.iter()) {
        if c.start == col.start {
            d.extend_from_slice(&data);
        } else {
            d.extend_from_slice(&bytes[c.start..c.start + c.len]);
        }
    }
    d.extend_from_slice(&bytes[l.suffix_start..l.chunk.end]);
    let mut out = bytes[..l.chunk.start].to_vec();
    out.extend_from_slice(&chunks::make_chunk(0, &d));
    out.extend_from_slice(&bytes[l.chunk.end..]);
    Some((out, format!("{}:{}:{kind}", if ops { "ops" } else { "changes" }, col_name(col.spec, ops))))
}

/// Make the stored heads of a document chunk agree with the changes it reconstructs to,
/// so that a mutated document passes head verification. Returns None when the mutated
/// bytes do not even load without verification.
/// A document chunk whose stored head list lacks its last head (the matching entry of the head-index
/// suffix is removed too, lengths and checksum are recomputed). Needs at least two heads.
pub fn drop_head(bytes: &[u8]) -> Option<Vec<u8>> {
    let l = doc_layout(bytes)?;
    if l.heads_count < 2 {
        return None;
    }
    // the suffix holds one uleb index per head
    let mut at = l.suffix_start;
    let mut idx_ends = vec![];
    for _ in 0..l.heads_count {
        let (_, a) = read_uleb(bytes, at)?;
        at = a;
        idx_ends.push(a);
    }
    if at != l.chunk.end {
        return None;
    }
    let keep = l.heads_count - 1;
    let mut data = bytes[l.chunk.data_start..l.actors_end].to_vec();
    write_uleb(keep as u64, &mut data);
    data.extend_from_slice(&bytes[l.heads_start..l.heads_start + 32 * keep]);
    data.extend_from_slice(&bytes[l.heads_start + 32 * l.heads_count..l.suffix_start]);
    data.extend_from_slice(&bytes[l.suffix_start..idx_ends[keep - 1]]);
    let mut out = bytes[..l.chunk.start].to_vec();
    out.extend_from_slice(&chunks::make_chunk(0, &data));
    out.extend_from_slice(&bytes[l.chunk.end..]);
    Some(out)
}

pub fn fix_heads(bytes: &[u8], enc: TextEncoding) -> Option<Vec<u8>> {
    let l = doc_layout(bytes)?;
    let d = crate::fw::catch(|| AutoCommit::load_with_options(bytes, automerge::LoadOptions::new().text_encoding(enc).verification_mode(automerge::VerificationMode::DontCheck))).ok()?.ok()?;
    let mut d = d;
    let changes = crate::fw::catch(|| d.get_changes(&[])).ok()?;
    let mut heads: std::collections::BTreeSet<ChangeHash> = changes.iter().map(|c| c.hash()).collect();
    for c in &changes {
        for dep in c.deps() {
            heads.remove(dep);
        }
    }
    let heads: Vec<ChangeHash> = heads.into_iter().collect();
    let index_of = |h: &ChangeHash| changes.iter().position(|c| c.hash() == *h).unwrap_or(0);
    let mut data = bytes[l.chunk.data_start..l.actors_end].to_vec();
    write_uleb(heads.len() as u64, &mut data);
    for h in &heads {
        data.extend_from_slice(&h.0);
    }
    data.extend_from_slice(&bytes[l.heads_start + 32 * l.heads_count..l.suffix_start]);
    for h in &heads {
        write_uleb(index_of(h) as u64, &mut data);
    }
    let mut out = bytes[..l.chunk.start].to_vec();
    out.extend_from_slice(&chunks::make_chunk(0, &data));
    out.extend_from_slice(&bytes[l.chunk.end..]);
    Some(out)
}
