/* cdriver_c.h -- part 3 of the C36 C driver: cursors, sync, result/item ops, main. */

/* ---------- cursors ---------- */
static void print_cursor(AMcursor const* c) {
  AMbyteSpan s1 = C(AMcursorStr)(c);
  AMbyteSpan b1 = C(AMcursorBytes)(c);
  if (opt_cursor_twice) {
    /* both accessors are called again; the spans returned by the first calls
     * are read afterwards (the owning AMresult is still alive) */
    AMbyteSpan s2 = C(AMcursorStr)(c);
    AMbyteSpan b2 = C(AMcursorBytes)(c);
    touch(s2); touch(b2);
  }
  putchar('s'); pb(s1); printf(" b"); pb(b1);
}
static void store_cursor(AMresult* r, int dst) {
  obs_begin();
  AMcursor const* c = NULL;
  if (rok(r) && C(AMitemToCursor)(C(AMresultItem)(r), &c)) {
    printf(" OK "); print_cursor(c); conv_check(C(AMresultItem)(r));
    slot_set(dst, K_CURSOR, r, c);
  } else { printf(" ERR"); C(AMresultFree)(r); }
  obs_end();
}
static void op_cursor(void) {
  int dst = tdst(T(1)); NEED_DOC(d, 2) NEED_OBJ(o, 3) NEED_HEADS(h, 5)
  size_t len = C(AMobjSize)(d, o, h);
  if (len == 0) { skip(); return; }
  store_cursor(C(AMgetCursor)(d, o, (size_t)(tu64(T(4)) % len), h), dst);
}
static void op_cursor_pos(void) {
  NEED_DOC(d, 1) NEED_OBJ(o, 2) NEED_SLOT(c, 3, K_CURSOR) NEED_HEADS(h, 4)
  finish_items(C(AMgetCursorPosition)(d, o, c->ptr, h), "F", NULL);
}
static void op_cursor_info(void) {
  NEED_SLOT(c, 1, K_CURSOR)
  obs_begin(); putchar(' '); print_cursor(c->ptr); obs_end();
}
static void op_cursor_rt(void) {
  int dst = tdst(T(1)); NEED_SLOT(c, 2, K_CURSOR)
  AMresult* r;
  if (!strcmp(T(3), "bytes")) { AMbyteSpan b = C(AMcursorBytes)(c->ptr); r = C(AMcursorFromBytes)(b.src, b.count); }
  else r = C(AMcursorFromStr)(C(AMcursorStr)(c->ptr));
  store_cursor(r, dst);
}
static void op_cursor_equal(void) {
  NEED_SLOT(a, 1, K_CURSOR) NEED_SLOT(b, 2, K_CURSOR)
  obs_begin(); printf(" %d", C(AMcursorEqual)(a->ptr, b->ptr) ? 1 : 0); obs_end();
}

/* ---------- sync ---------- */
static void store_sync(AMresult* r, int dst) {
  obs_begin();
  AMsyncState* s = NULL;
  if (rok(r) && C(AMitemToSyncState)(C(AMresultItem)(r), &s)) {
    printf(" OK"); conv_check(C(AMresultItem)(r));
    slot_set(dst, K_SYNC, r, s);
  } else { printf(" ERR"); C(AMresultFree)(r); }
  obs_end();
}
static void op_sync_init(void) {
  int dst = tdst(T(1));
  store_sync(C(AMsyncStateInit)(), dst);
}
static void print_hashes(char const* label, AMresult* r) {
  printf(" %s=[", label);
  if (rok(r)) iterate(r, "F", cb_hash, NULL); else printf("ERR");
  printf(" ]");
  C(AMresultFree)(r);
}
static void cb_have(AMitem* it, void* ud) {
  (void)ud; AMsyncHave const* h = NULL;
  if (!C(AMitemToSyncHave)(it, &h)) { printf(" NOT-A-HAVE"); return; }
  print_hashes("have", C(AMsyncHaveLastSync)(h));
  conv_check(it);
}
static void print_msg(AMsyncMessage const* m) {
  print_hashes("heads", C(AMsyncMessageHeads)(m));
  print_hashes("needs", C(AMsyncMessageNeeds)(m));
  AMresult* hr = C(AMsyncMessageHaves)(m);
  printf(" haves{");
  if (rok(hr)) iterate(hr, "F", cb_have, NULL); else printf("ERR");
  printf(" }");
  C(AMresultFree)(hr);
}
static void store_msg(AMresult* r, int dst) {
  obs_begin();
  if (!rok(r)) { printf(" ERR"); C(AMresultFree)(r); obs_end(); return; }
  AMitem* it = C(AMresultItem)(r);
  AMsyncMessage const* m = NULL;
  if (C(AMitemValType)(it) == AM_VAL_TYPE_VOID) { printf(" none"); conv_check(it); C(AMresultFree)(r); }
  else if (C(AMitemToSyncMessage)(it, &m)) {
    printf(" msg"); print_msg(m); conv_check(it);
    slot_set(dst, K_MSG, r, m);
  } else { printf(" NOT-A-MSG"); C(AMresultFree)(r); }
  obs_end();
}
static void op_sync_gen(void) {
  int dst = tdst(T(1)); NEED_DOC(d, 2) NEED_SLOT(s, 3, K_SYNC)
  store_msg(C(AMgenerateSyncMessage)(d, (AMsyncState*)s->ptr), dst);
}
static void op_sync_recv(void) {
  NEED_DOC(d, 1) NEED_SLOT(s, 2, K_SYNC) NEED_SLOT(m, 3, K_MSG)
  finish_status(C(AMreceiveSyncMessage)(d, (AMsyncState*)s->ptr, m->ptr));
}
static void op_msg_info(void) {
  NEED_SLOT(m, 1, K_MSG)
  obs_begin(); print_msg(m->ptr); obs_end();
}
static void op_msg_rt(void) {
  int dst = tdst(T(1)); NEED_SLOT(m, 2, K_MSG)
  AMresult* er = C(AMsyncMessageEncode)(m->ptr);
  AMbyteSpan b;
  if (!rok(er) || !C(AMitemToBytes)(C(AMresultItem)(er), &b)) { obs_line("ENC-ERR"); C(AMresultFree)(er); return; }
  AMresult* r = C(AMsyncMessageDecode)(b.src, b.count);
  obs_begin(); printf(" enc="); pb(b); obs_end();
  C(AMresultFree)(er);
  g_op = "msg_rt2";
  store_msg(r, dst);
}
static void op_sync_rt(void) {
  int dst = tdst(T(1)); NEED_SLOT(s, 2, K_SYNC)
  AMresult* er = C(AMsyncStateEncode)(s->ptr);
  AMbyteSpan b;
  if (!rok(er) || !C(AMitemToBytes)(C(AMresultItem)(er), &b)) { obs_line("ENC-ERR"); C(AMresultFree)(er); return; }
  AMresult* r = C(AMsyncStateDecode)(b.src, b.count);
  obs_begin(); printf(" enc="); pb(b); obs_end();
  C(AMresultFree)(er);
  g_op = "sync_rt2";
  store_sync(r, dst);
}
static void op_sync_info(void) {
  NEED_SLOT(s, 1, K_SYNC)
  AMsyncState const* st = s->ptr;
  obs_begin();
  print_hashes("shared", C(AMsyncStateSharedHeads)(st));
  print_hashes("sent", C(AMsyncStateLastSentHeads)(st));
  bool has = false;
  AMresult* r = C(AMsyncStateTheirHeads)(st, &has);
  printf(" their_heads:%d", has); print_hashes("", r);
  r = C(AMsyncStateTheirNeeds)(st, &has);
  printf(" their_needs:%d", has); print_hashes("", r);
  r = C(AMsyncStateTheirHaves)(st, &has);
  printf(" their_haves:%d{", has);
  if (rok(r)) iterate(r, "F", cb_have, NULL); else printf("ERR");
  printf(" }");
  C(AMresultFree)(r);
  obs_end();
}
static void op_sync_equal(void) {
  NEED_SLOT(a, 1, K_SYNC) NEED_SLOT(b, 2, K_SYNC)
  obs_begin(); printf(" %d", C(AMsyncStateEqual)(a->ptr, b->ptr) ? 1 : 0); obs_end();
}

/* ---------- generic result / item ops on HASHES | CHANGES | ITEMS ---------- */
static Slot* list_slot(char const* t) {
  int h = thandle(t);
  if (h < 0) return NULL;
  Kind k = slots[h].kind;
  return (k == K_HASHES || k == K_CHANGES || k == K_ITEMS) ? &slots[h] : NULL;
}
static void cb_rc(AMitem* it, void* ud) {
  (void)ud;
  if (C(AMitemValType)(it) == AM_VAL_TYPE_CHANGE) {
    /* a change's content is dumped by change_info; here: identity + sharing */
    printf(" [change;rc=%zu]", C(AMitemRefCount)(it));
  } else {
    putchar(' '); dump_item(it, NULL); printf("rc=%zu", C(AMitemRefCount)(it));
  }
}
static void op_iter(void) {
  Slot* s = list_slot(T(1)); if (!s) { skip(); return; }
  obs_begin(); printf(" n=%zu st=%d", C(AMresultSize)(s->res), (int)C(AMresultStatus)(s->res));
  iterate(s->res, T(2), cb_rc, NULL);
  obs_end();
}
static void op_item_result(void) {
  int dst = tdst(T(1)); Slot* s = list_slot(T(2)); if (!s) { skip(); return; }
  AMitem* it = nth_item(s->res, tu64(T(3)));
  if (!it) { skip(); return; }
  AMresult* r = C(AMitemResult)(it);
  obs_begin(); printf(" OK rc=%zu", C(AMitemRefCount)(it)); obs_end();
  slot_set(dst, s->kind, r, NULL);
}
static void op_cat(void) {
  int dst = tdst(T(1)); Slot* a = list_slot(T(2)); Slot* b = list_slot(T(3));
  if (!a || !b || a->kind != b->kind) { skip(); return; }
  AMresult* r = C(AMresultCat)(a->res, b->res);
  obs_begin();
  if (rok(r)) { printf(" OK n=%zu", C(AMresultSize)(r)); slot_set(dst, a->kind, r, NULL); }
  else { printf(" ERR"); C(AMresultFree)(r); }
  obs_end();
}
static void op_items_equal(void) {
  Slot* a = list_slot(T(1)); Slot* b = list_slot(T(2));
  if (!a || !b) { skip(); return; }
  if ((C(AMresultSize)(a->res) == 0 || C(AMresultSize)(b->res) == 0) && !opt_empty_items) { skip(); return; }
  AMitems ia = C(AMresultItems)(a->res), ib = C(AMresultItems)(b->res);
  obs_begin(); printf(" %d", C(AMitemsEqual)(&ia, &ib) ? 1 : 0); obs_end();
}
static void op_item_equal(void) {
  Slot* a = list_slot(T(1)); Slot* b = list_slot(T(3));
  if (!a || !b) { skip(); return; }
  AMitem* x = nth_item(a->res, tu64(T(2))); AMitem* y = nth_item(b->res, tu64(T(4)));
  if (!x || !y) { skip(); return; }
  obs_begin(); printf(" %d", C(AMitemEqual)(x, y) ? 1 : 0); obs_end();
}
static void op_hash_item(void) {
  int dst = tdst(T(1)); NEED_SLOT(hs, 2, K_HASHES)
  AMitem* it = nth_item(hs->res, tu64(T(3)));
  AMbyteSpan h;
  if (!it || !C(AMitemToChangeHash)(it, &h)) { skip(); return; }
  store_list(C(AMitemFromChangeHash)(h), dst, K_HASHES, "F");
}
static void op_bad_hash(void) { /* wrong-length change hash must be refused cleanly */
  AMbyteSpan s = tspan(T(1));
  finish_items(C(AMitemFromChangeHash)(s), "F", NULL);
}
static void op_str_cmp(void) {
  obs_begin(); printf(" %d", C(AMstrCmp)(tspan(T(1)), tspan(T(2)))); obs_end();
}
static void op_misc(void) { /* random actor id (only its shape is observable), AMstr, AMbytes */
  AMresult* r = C(AMactorIdInit)();
  AMactorId const* a = NULL;
  size_t nb = 0, ns = 0;
  if (rok(r) && C(AMitemToActorId)(C(AMresultItem)(r), &a)) {
    AMbyteSpan b = C(AMactorIdBytes)(a), s = C(AMactorIdStr)(a);
    touch(b); touch(s); nb = b.count; ns = s.count;
  }
  C(AMresultFree)(r);
  AMbyteSpan k = tspan(T(1));
  AMbyteSpan viaBytes = C(AMbytes)(k.src, k.count);
  AMbyteSpan nul = C(AMbytes)(NULL, 7);
  obs_begin();
  printf(" %zu %zu %d %d %zu %d", nb, ns, C(AMstrCmp)(C(AMstr)("abc"), C(AMstr)("abd")), C(AMstrCmp)(viaBytes, k), nul.count,
         C(AMstr)(NULL).src == NULL);
  obs_end();
}
static void op_end(void) {
  bool rev = !strcmp(T(1), "rev");
  int n = 0;
  for (int i = 0; i < NSLOTS; i++) {
    int h = rev ? NSLOTS - 1 - i : i;
    if (slots[h].kind != K_EMPTY) { slot_free(h); n++; }
  }
  obs_begin(); printf(" freed=%d", n); obs_end();
}

/* ---------- dispatch ---------- */
static void op_commit_(void) { op_commit(false); }
static void op_empty_change(void) { op_commit(true); }
static void op_save_(void) { op_save(false); }
static void op_save_inc(void) { op_save(true); }

typedef struct { char const* name; void (*fn)(void); } OpDef;
static OpDef const OPS[] = {
  {"actor_bytes", op_actor_bytes}, {"actor_str", op_actor_str}, {"actor_info", op_actor_info},
  {"actor_cmp", op_actor_cmp}, {"create", op_create}, {"clone", op_clone}, {"fork", op_fork},
  {"set_actor", op_set_actor}, {"get_actor", op_get_actor}, {"free", op_free},
  {"map_put", op_map_put}, {"map_put_obj", op_map_put_obj}, {"list_put", op_list_put},
  {"list_put_obj", op_list_put_obj}, {"map_inc", op_map_inc}, {"list_inc", op_list_inc},
  {"map_del", op_map_del}, {"list_del", op_list_del}, {"mkitems", op_mkitems},
  {"splice", op_splice}, {"splice_text", op_splice_text}, {"mark", op_mark}, {"unmark", op_unmark},
  {"marks", op_marks}, {"commit", op_commit_}, {"empty_change", op_empty_change},
  {"rollback", op_rollback}, {"pending", op_pending}, {"map_get", op_map_get},
  {"list_get", op_list_get}, {"map_get_all", op_map_get_all}, {"list_get_all", op_list_get_all},
  {"keys", op_keys}, {"map_range", op_map_range}, {"list_range", op_list_range},
  {"obj_items", op_obj_items}, {"text", op_text}, {"size", op_size}, {"obj_type", op_obj_type},
  {"obj_info", op_obj_info}, {"obj_equal", op_obj_equal}, {"heads", op_heads},
  {"changes", op_changes}, {"changes_added", op_changes_added}, {"change_by_hash", op_change_by_hash},
  {"last_local", op_last_local}, {"missing_deps", op_missing_deps}, {"apply", op_apply},
  {"change_info", op_change_info}, {"change_compress", op_change_compress}, {"change_rt", op_change_rt},
  {"load_changes", op_load_changes}, {"merge", op_merge}, {"equal", op_equal}, {"save", op_save_},
  {"save_inc", op_save_inc}, {"load", op_load}, {"load_inc", op_load_inc}, {"bytes_info", op_bytes_info},
  {"cursor", op_cursor}, {"cursor_pos", op_cursor_pos}, {"cursor_info", op_cursor_info},
  {"cursor_rt", op_cursor_rt}, {"cursor_equal", op_cursor_equal}, {"sync_init", op_sync_init},
  {"sync_gen", op_sync_gen}, {"sync_recv", op_sync_recv}, {"msg_info", op_msg_info},
  {"msg_rt", op_msg_rt}, {"sync_rt", op_sync_rt}, {"sync_info", op_sync_info},
  {"sync_equal", op_sync_equal}, {"iter", op_iter}, {"item_result", op_item_result},
  {"cat", op_cat}, {"items_equal", op_items_equal}, {"item_equal", op_item_equal},
  {"hash_item", op_hash_item}, {"bad_hash", op_bad_hash}, {"str_cmp", op_str_cmp}, {"misc", op_misc}, {"end", op_end},
  {NULL, NULL}};

static void set_opt(char const* name, int v) {
  if (!strcmp(name, "empty_items")) opt_empty_items = v;
  else if (!strcmp(name, "cursor_twice")) opt_cursor_twice = v;
  else if (!strcmp(name, "unaligned_items")) opt_unaligned_items = v;
  else if (!strcmp(name, "objid_cache_eq")) opt_objid_cache_eq = v;
  else harness_fail("unknown opt");
}

int main(int argc, char** argv) {
  if (argc < 2) { fprintf(stderr, "usage: cdriver <script> [calls-out]\n"); return 3; }
  FILE* f = fopen(argv[1], "r");
  if (!f) { perror(argv[1]); return 3; }
  static char line[1 << 16];
  setvbuf(stdout, NULL, _IOLBF, 0); /* observations survive an abort */
  while (fgets(line, sizeof line, f)) {
    g_lineno++;
    ntok = 0;
    for (char* p = strtok(line, " \t\r\n"); p && ntok < MAXTOK; p = strtok(NULL, " \t\r\n")) tok[ntok++] = p;
    if (ntok == 0 || tok[0][0] == '#') continue;
    g_op = tok[0];
    if (!strcmp(tok[0], "opt")) { set_opt(T(1), atoi(T(2))); continue; }
    OpDef const* od = OPS;
    while (od->name && strcmp(od->name, tok[0])) od++;
    if (!od->name) harness_fail("unknown op");
    od->fn();
    arena_reset();
  }
  fclose(f);
  for (int h = 0; h < NSLOTS; h++) slot_free(h);
  if (argc > 2 && (g_calls_out = fopen(argv[2], "w"))) {
    for (int i = 0; i < g_ncall_names; i++) fprintf(g_calls_out, "%s %lu\n", g_call_names[i], g_calls[i]);
    fclose(g_calls_out);
  }
  return 0;
}
